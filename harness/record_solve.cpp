// C01 recorder: every solve goes through the RUN-TIME interface
//   amgcl::make_solver< P, amgcl::runtime::solver::wrapper<Backend> >   (boost::property_tree params)
// where P = vprec, a user-defined preconditioner (the documented Precond extension point)
// that counts its applications and delegates to
//   amgcl::amg<Backend, runtime::coarsening::wrapper, runtime::relaxation::wrapper>  (kind = amg)
// or to the identity (= preconditioner::dummy), the exact inverse of a diagonal matrix, or a
// perturbed Jacobi scaling (replay mode: control paths forced by input design).
//
// modes:  replay            forced control paths on tiny systems (model -> code)
//         solve  <shard> <nshards>   sampled configurations over matrix families (class O)
//         spd    <shard> <nshards>   family spd_m, default parameters, full 4 x 9 x 8 product
// One ndjson record per solve ("k":"ret"), integers only; residuals in millidecades.
#include "vrec.hpp"
#include <amgcl/amg.hpp>
#include <amgcl/make_solver.hpp>
#include <amgcl/solver/runtime.hpp>
#include <amgcl/coarsening/runtime.hpp>
#include <amgcl/relaxation/runtime.hpp>
#include <amgcl/preconditioner/dummy.hpp>
#include <amgcl/adapter/crs_tuple.hpp>
#include <boost/property_tree/ptree.hpp>
#include <map>
#include <set>
#include <functional>

typedef amgcl::backend::builtin<double> Backend;
typedef amgcl::amg<Backend, amgcl::runtime::coarsening::wrapper, amgcl::runtime::relaxation::wrapper> AMG;
typedef boost::property_tree::ptree ptree;
typedef vr::crsd crsd;
typedef long double ld;

// ------------------------------------------------------------------ preconditioner
struct vprec {
    typedef Backend backend_type;
    typedef Backend::matrix matrix;
    typedef Backend::vector vector;
    typedef Backend::value_type value_type;
    typedef Backend::col_type col_type;
    typedef Backend::ptr_type ptr_type;
    typedef amgcl::backend::builtin<value_type, col_type, ptr_type>::matrix build_matrix;
    typedef ptree params;
    typedef Backend::params backend_params;

    std::string kind;
    std::shared_ptr<AMG> amg;
    std::shared_ptr<amgcl::preconditioner::dummy<Backend>> dummy;
    std::shared_ptr<matrix> A;
    std::vector<double> dinv;
    mutable size_t count = 0;
    mutable double maxout = 0, maxin = 0;     // largest ||P v|| and ||v|| seen during a solve
    mutable long throw_at = -1;               // > 0: the throw_at-th application of the current solve throws (once)

    void init(std::shared_ptr<build_matrix> M, const params &p, const backend_params &bp) {
        kind = p.get("kind", std::string("amg"));
        if (kind == "amg") {
            amg = std::make_shared<AMG>(M, p.get_child("amg", ptree()), bp);
            A = amg->system_matrix_ptr();
        } else {
            dummy = std::make_shared<amgcl::preconditioner::dummy<Backend>>(M, amgcl::detail::empty_params(), bp);
            A = dummy->system_matrix_ptr();
            if (kind != "dummy") {
                dinv.resize(M->nrows);
                for (size_t i = 0; i < M->nrows; ++i) {
                    double d = 1;
                    for (ptrdiff_t q = M->ptr[i]; q < M->ptr[i + 1]; ++q) if (M->col[q] == (ptrdiff_t)i) d = M->val[q];
                    dinv[i] = kind == "diaginv" ? 1.0 / d : 1.0 / (d * (1.0 + 0.3 * std::sin(1.0 + i)));
                }
            }
        }
    }
    template <class Matrix>
    vprec(const Matrix &M, const params &p = params(), const backend_params &bp = backend_params()) {
        init(std::make_shared<build_matrix>(M), p, bp);
    }
    vprec(std::shared_ptr<build_matrix> M, const params &p = params(), const backend_params &bp = backend_params()) {
        init(M, p, bp);
    }
    template <class V1, class V2> void apply(const V1 &rhs, V2 &&x) const {
        ++count;
        if (throw_at > 0 && (long)count == throw_at) { throw_at = -1; throw std::runtime_error("injected failure of the preconditioner"); }
        if (amg) amg->apply(rhs, x);
        else if (kind == "dummy") dummy->apply(rhs, x);
        else for (size_t i = 0; i < dinv.size(); ++i) x[i] = dinv[i] * rhs[i];
        double so = 0, si = 0;
        for (size_t i = 0, n = amgcl::backend::rows(*A); i < n; ++i) { so += x[i] * x[i]; si += rhs[i] * rhs[i]; }
        maxout = std::max(maxout, std::sqrt(so)); maxin = std::max(maxin, std::sqrt(si));
    }
    // amg::rebuild with a new matrix of the same shape; the system matrix of later solve(rhs, x) calls is the new one
    void rebuild(std::shared_ptr<build_matrix> M) { amg->rebuild(M); A = amg->system_matrix_ptr(); }
    std::shared_ptr<matrix> system_matrix_ptr() const { return A; }
    const matrix &system_matrix() const { return *A; }
    size_t bytes() const { return 0; }
    friend std::ostream &operator<<(std::ostream &os, const vprec &p) { return os << "vprec " << p.kind; }
};
typedef amgcl::make_solver<vprec, amgcl::runtime::solver::wrapper<Backend>> Solver;

// ------------------------------------------------------------------ quantisation
static const long MDMIN = -40000;
static long md(ld v) {           // millidecades; 0 -> MDMIN
    if (!(v > 0)) return MDMIN;
    ld q = std::floor(1000.0L * std::log10(v) + 0.5L);
    if (q < MDMIN) return MDMIN;
    if (q > 40000) return 40000;
    return (long)q;
}
static ld norm2(const std::vector<ld> &v) { ld s = 0; for (ld x : v) s += x * x; return std::sqrt(s); }
static ld norm2(const std::vector<double> &v) { ld s = 0; for (double x : v) s += (ld)x * x; return std::sqrt(s); }

// ------------------------------------------------------------------ matrices
typedef std::vector<std::vector<std::pair<int, double>>> rows_t;

static std::shared_ptr<crsd> diag_matrix(const std::vector<double> &d, double super = 0) {
    int n = d.size(); rows_t rows(n);
    for (int i = 0; i < n; ++i) { rows[i].push_back({i, d[i]}); if (super != 0 && i + 1 < n) rows[i].push_back({i + 1, super}); }
    return vr::from_rows(n, n, rows);
}
// weighted graph Laplacian + shift*I from an edge list with weights (and optional one-sided convection weights)
struct edge { int i, j; double wij, wji; };    // a_ij = -wij, a_ji = -wji
static std::shared_ptr<crsd> from_edges(int n, const std::vector<edge> &E, const std::vector<double> &shift) {
    std::vector<std::map<int, double>> R(n);
    std::vector<double> dg(shift);
    for (auto &e : E) { R[e.i][e.j] -= e.wij; R[e.j][e.i] -= e.wji; dg[e.i] += e.wij; dg[e.j] += e.wji; }
    rows_t rows(n);
    for (int i = 0; i < n; ++i) { R[i][i] += dg[i]; for (auto &kv : R[i]) if (kv.second != 0 || kv.first == i) rows[i].push_back({kv.first, kv.second}); }
    return vr::from_rows(n, n, rows);
}
// coefficient with contrast <= 10^dec, piecewise constant on blobs
static double coef(vr::rng &g, int dec) { return std::pow(10.0, dec * g.unit()); }

// SPD M-matrix on a random graph: chain + random chords, weights with contrast <= 1e3
static std::shared_ptr<crsd> fam_graph(vr::rng &g, int n, int dec) {
    std::vector<edge> E;
    for (int i = 0; i + 1 < n; ++i) { double w = coef(g, dec); E.push_back({i, i + 1, w, w}); }
    int extra = 2 * n;
    for (int k = 0; k < extra; ++k) { int i = g.below(n), j = g.below(n); if (i == j) continue; double w = coef(g, dec); E.push_back({i, j, w, w}); }
    std::vector<double> sh(n, 0.0);
    for (int i = 0; i < n; ++i) if (i % 17 == 0) sh[i] = 1.0;     // a few Dirichlet-like rows: non-singular
    sh[0] = 1.0;
    return from_edges(n, E, sh);
}
// grid (nx,ny,nz), cell coefficient k with contrast, harmonic-free simple average on faces,
// anisotropy factors (ax,ay,az), upwind convection (bx,by) added one-sidedly; Dirichlet boundary
static std::shared_ptr<crsd> fam_grid(vr::rng &g, int nx, int ny, int nz, int dec, double ax, double ay, double az, double bx, double by) {
    int n = nx * ny * nz;
    std::vector<double> k(n);
    int bs = std::max(2, nx / 4);
    std::map<long, double> blob;
    for (int z = 0; z < nz; ++z) for (int y = 0; y < ny; ++y) for (int x = 0; x < nx; ++x) {
        long id = (x / bs) + 1000L * (y / bs) + 1000000L * (z / bs);
        if (!blob.count(id)) blob[id] = dec ? coef(g, dec) : 1.0;
        k[(z * ny + y) * nx + x] = blob[id];
    }
    std::vector<edge> E; std::vector<double> sh(n, 0.0);
    auto idx = [&](int x, int y, int z) { return (z * ny + y) * nx + x; };
    for (int z = 0; z < nz; ++z) for (int y = 0; y < ny; ++y) for (int x = 0; x < nx; ++x) {
        int i = idx(x, y, z);
        auto face = [&](int j, double a, double b) {   // b: convection from i to j direction (flow along +axis)
            double w = a * 0.5 * (k[i] + k[j]);
            // upwind: flow b > 0 along the axis: the downstream node j sees the upstream node i
            E.push_back({i, j, w + std::max(-b, 0.0), w + std::max(b, 0.0)});
        };
        if (x + 1 < nx) face(idx(x + 1, y, z), ax, bx);
        if (y + 1 < ny) face(idx(x, y + 1, z), ay, by);
        if (z + 1 < nz) face(idx(x, y, z + 1), az, 0);
        // Dirichlet boundary contributions
        double kb = k[i];
        if (x == 0 || x == nx - 1) sh[i] += ax * kb + std::fabs(bx);
        if (y == 0 || y == ny - 1) sh[i] += ay * kb + std::fabs(by);
        if (nz > 1 && (z == 0 || z == nz - 1)) sh[i] += az * kb;
    }
    return from_edges(n, E, sh);
}

// ------------------------------------------------------------------ one solve, one record
struct solve_in {
    std::string mode, fam, cas, solver, side = "right", coars = "-", relax = "-", pkind = "dummy";
    int par = 1, opt = 0, maxit = 100, dflt = 0, sided = 0;
    double tol = 1e-8;
    ptree prm;                    // complete make_solver params
    std::shared_ptr<crsd> A;
    std::shared_ptr<crsd> Acall;  // if set: the system matrix passed to the call, solve(Acall, f, x); A is the preconditioner's
    int sc = 0, it0 = -1; long rep0 = 0;   // mode scale: f = 2^sc * f_base; iteration count / reported residual at sc = 0
    std::vector<double> f, x0;
    long cfgid = 0;
};

static void spmv_abs(const crsd &A, const std::vector<double> &x, const std::vector<double> &f,
                     std::vector<ld> &r, std::vector<ld> &gabs) {
    size_t n = A.nrows; r.assign(n, 0); gabs.assign(n, 0);
    for (size_t i = 0; i < n; ++i) {
        ld s = f[i], a = std::fabs((ld)f[i]);
        for (ptrdiff_t q = A.ptr[i]; q < A.ptr[i + 1]; ++q) { ld t = (ld)A.val[q] * (ld)x[A.col[q]]; s -= t; a += std::fabs(t); }
        r[i] = s; gabs[i] = a;
    }
}

static long g_cases = 0;

// returns reported residual (for callers that post-process), emits the record
static void record_header(vr::obj &o, const solve_in &in, double &rep_out) {
    o.str("k", "ret").str("mode", in.mode).str("fam", in.fam).str("case", in.cas)
     .str("solver", in.solver).str("side", in.side).i("sided", in.sided).i("par", in.par).i("opt", in.opt)
     .str("coars", in.coars).str("relax", in.relax).str("pkind", in.pkind)
     .i("n", in.A->nrows).i("maxit", in.maxit).i("dflt", in.dflt).i("cfg", in.cfgid).i("tol", md(in.tol));
    if (in.pkind == "amg" && in.dflt != 1)    // cycle parameters (-1 = default)
        o.i("ce", in.prm.get("precond.amg.coarse_enough", -1)).i("npre", in.prm.get("precond.amg.npre", -1))
         .i("npost", in.prm.get("precond.amg.npost", -1)).i("ncyc", in.prm.get("precond.amg.ncycle", -1))
         .i("prec", in.prm.get("precond.amg.pre_cycles", -1)).i("dc", in.prm.get("precond.amg.direct_coarse", true))
         .i("ml", in.prm.get("precond.amg.max_levels", -1));
    if (in.Acall) o.i("xa", 1);
    if (in.mode == "scale") o.i("sc", in.sc).i("it0", in.it0).i("rep0", in.rep0);
    ++g_cases;
    if (const char *dump = getenv("C01_DUMPMAT")) {     // investigation aid: matrix of the (single) selected case
        FILE *fp = fopen(dump, "w");
        fprintf(fp, "%%%%MatrixMarket matrix coordinate real general\n%ld %ld %ld\n", (long)in.A->nrows, (long)in.A->ncols, (long)in.A->ptr[in.A->nrows]);
        for (size_t i = 0; i < in.A->nrows; ++i) for (ptrdiff_t q = in.A->ptr[i]; q < in.A->ptr[i + 1]; ++q)
            fprintf(fp, "%ld %ld %.17g\n", (long)i + 1, (long)in.A->col[q] + 1, in.A->val[q]);
        fclose(fp);
    }
}
// one solve on an existing solver object: fills the record; exceptions propagate
static void solve_and_measure(Solver &solve, const solve_in &in, vr::obj &o, double &rep_out, vr::obj *extra, size_t *it_out) {
        std::vector<double> x = in.x0;
        ld nf = norm2(in.f);
        bool zero = nf < 4.4408920985006262e-16L;       // amgcl::detail::eps<double>(1): the solvers' own shortcut test
        solve.precond().count = 0; solve.precond().maxout = 0; solve.precond().maxin = 0;
        size_t it; double rep;
        if (in.Acall) std::tie(it, rep) = solve(*in.Acall, in.f, x); else std::tie(it, rep) = solve(in.f, x);
        size_t nP = solve.precond().count;
        double maxout = solve.precond().maxout, maxin = solve.precond().maxin;
        if (it_out) *it_out = it;
        rep_out = rep;
        bool finite = std::isfinite(rep);
        for (double v : x) if (!std::isfinite(v)) finite = false;
        bool xz = true; for (double v : x) if (v != 0) xz = false;
        o.i("it", (long)it).i("nP", (long)nP).i("zero", zero).i("xz", xz).i("nan", !finite);
        if (finite) {
            const crsd &A = in.Acall ? *in.Acall : *in.A;      // the truth is judged against the matrix of the call
            std::vector<ld> r, gabs;
            spmv_abs(A, x, in.f, r, gabs);
            ld den = zero ? 1.0L : nf;                 // zero rhs: the solver returns ||rhs|| itself
            ld flo = 2.220446049250313e-16L * norm2(gabs) / den;
            ld ainf = 0;
            for (size_t i = 0; i < A.nrows; ++i) { ld t = 0; for (ptrdiff_t q = A.ptr[i]; q < A.ptr[i + 1]; ++q) t += std::fabs((ld)A.val[q]); ainf = std::max(ainf, t); }
            // largest intermediate magnitudes seen by the preconditioner during the solve
            o.i("gro", md(2.220446049250313e-16L * ainf * maxout / den)).i("gin", md(maxin / den));
            ld tru;
            if (in.side == "left" && in.sided && !zero) {
                size_t n = A.nrows;
                std::vector<double> rd(n), z(n);
                for (size_t i = 0; i < n; ++i) rd[i] = (double)r[i];
                solve.precond().apply(rd, z);
                tru = norm2(z) / den;
                // ||P|| estimate: a few power iterations from the constant vector
                std::vector<double> w(n, 1.0), pw(n);
                ld pn = 0;
                for (int k = 0; k < 4; ++k) {
                    ld nw = norm2(w); for (auto &v : w) v = (double)(v / nw);
                    solve.precond().apply(w, pw);
                    pn = std::max(pn, norm2(pw));
                    w = pw;
                }
                flo *= std::max((ld)1.0, pn);
            } else {
                tru = norm2(r) / den;
            }
            ld dev = std::fabs((ld)rep - tru);
            o.i("rep", md(rep)).i("tru", md(tru)).i("dev", md(dev)).i("flo", md(flo));
            o.i("cv", rep <= in.tol).i("amb", std::fabs(rep - in.tol) <= 1e-9 * in.tol);
        }
        if (extra) o.raw("x", extra->done());
}
static void record_exception(vr::obj &o, const std::exception &e) {
    std::string w = e.what();
    bool brk = w.find("breakdown") != std::string::npos || w.find("Zero rho") != std::string::npos || w.find("Zero omega") != std::string::npos;
    o.str("exc", w).i("brk", brk);
}
// a fresh solver object for one solve
static double run_solve(const solve_in &in, vr::obj *extra = 0, size_t *it_out = 0) {
    vr::obj o; double rep_out = -1;
    record_header(o, in, rep_out);
    try {
        Solver solve(in.A, in.prm);
        solve_and_measure(solve, in, o, rep_out, extra, it_out);
    } catch (const std::exception &e) { record_exception(o, e); }
    vr::emit(o.done());
    return rep_out;
}
// another solve on an object with a history (in.prm is only logged; the object keeps its parameters)
static double run_solve_on(Solver &solve, const solve_in &in, size_t *it_out = 0) {
    vr::obj o; double rep_out = -1;
    record_header(o, in, rep_out);
    try { solve_and_measure(solve, in, o, rep_out, 0, it_out); }
    catch (const std::exception &e) { record_exception(o, e); }
    vr::emit(o.done());
    return rep_out;
}

// ------------------------------------------------------------------ parameter trees
static bool is_sided(const std::string &s) { return s == "bicgstab" || s == "bicgstabl" || s == "gmres" || s == "lgmres"; }
static bool has_par(const std::string &s) { return s == "bicgstabl" || s == "gmres" || s == "fgmres" || s == "lgmres" || s == "idrs"; }
static bool has_opt(const std::string &s) { return s == "bicgstab" || s == "bicgstabl" || s == "idrs"; }
static const char *SOLVERS[8] = {"cg", "bicgstab", "bicgstabl", "gmres", "fgmres", "lgmres", "idrs", "richardson"};
static const char *COARS[4] = {"ruge_stuben", "aggregation", "smoothed_aggregation", "smoothed_aggr_emin"};
static const char *RELAX[9] = {"gauss_seidel", "ilu0", "iluk", "ilup", "ilut", "damped_jacobi", "spai0", "spai1", "chebyshev"};

// solver.* part: par = M (gmres, fgmres), M+K (lgmres), L, s; opt = check_after / delta > 0 / smoothing
static void solver_params(ptree &p, const std::string &s, const std::string &side, int par, int opt, int maxit, double tol, bool defaults_only = false) {
    p.put("solver.type", s);
    if (defaults_only) return;
    p.put("solver.maxiter", maxit);
    p.put("solver.tol", tol);
    if (is_sided(s)) p.put("solver.pside", side);
    if (s == "gmres" || s == "fgmres") p.put("solver.M", par);
    if (s == "lgmres") { if (par >= 2) { p.put("solver.M", par - 1); p.put("solver.K", 1); } else { p.put("solver.M", 1); p.put("solver.K", 0); } }
    if (s == "bicgstabl") { p.put("solver.L", par); if (opt) p.put("solver.delta", 0.1); }
    if (s == "idrs") { p.put("solver.s", par); if (opt) p.put("solver.smoothing", true); }
    if (s == "bicgstab" && opt) p.put("solver.check_after", true);
}

// ------------------------------------------------------------------ mode replay
// The grid is the one of KrylovCtl's Configs (same bounds MaxIter, MaxPar); the designs force
// the control paths: zero rhs, exact initial guess, k distinct eigenvalues + identity
// preconditioner (convergence at a known step), exact preconditioner (first step), a ladder
// of tolerances on slowly converging systems (exit at every position of a block), and the
// 2x2 system on which BiCGStab leaves at the end of its first full iteration.
static void mode_replay(int maxiter_bound, int maxpar) {
    const int N = 8;
    long cfgid = 0;
    for (int si = 0; si < 8; ++si) {
        std::string s = SOLVERS[si];
        for (int sd = 0; sd < (is_sided(s) ? 2 : 1); ++sd)
        for (int par = 1; par <= (has_par(s) ? maxpar : 1); ++par)
        for (int opt = 0; opt <= (has_opt(s) ? 1 : 0); ++opt)
        for (int maxit = 0; maxit <= maxiter_bound; ++maxit) {
            std::string side = sd ? "left" : "right";
            ++cfgid;
            auto base = [&](const std::string &cas, const std::string &pkind, double tol) {
                solve_in in; in.mode = "replay"; in.fam = "designed"; in.cas = cas; in.solver = s; in.side = side;
                in.sided = is_sided(s); in.par = par; in.opt = opt; in.maxit = maxit; in.tol = tol; in.pkind = pkind; in.cfgid = cfgid;
                in.prm.put("precond.kind", pkind);
                solver_params(in.prm, s, side, par, opt, maxit, tol);
                return in;
            };
            {   // zero right-hand side, non-zero guess
                solve_in in = base("zero_rhs", "dummy", 1e-6);
                std::vector<double> d(N); for (int i = 0; i < N; ++i) d[i] = 1 + i % 3;
                in.A = diag_matrix(d); in.f.assign(N, 0.0); in.x0.resize(N); for (int i = 0; i < N; ++i) in.x0[i] = i + 1;
                run_solve(in);
            }
            {   // initial guess is the exact solution (integer data: the residual is exactly zero)
                solve_in in = base("exact_guess", "dummy", 1e-6);
                std::vector<double> d(N); for (int i = 0; i < N; ++i) d[i] = 1 + i % 3;
                in.A = diag_matrix(d); in.x0.resize(N); in.f.resize(N);
                for (int i = 0; i < N; ++i) { in.x0[i] = (i % 4) - 1.0; if (i == 0) in.x0[i] = 2; in.f[i] = d[i] * in.x0[i]; }
                run_solve(in);
            }
            for (int k = 1; k <= maxiter_bound + 1; ++k) {   // exactly k distinct eigenvalues, identity preconditioner
                solve_in in = base("eig" + std::to_string(k), "dummy", 1e-6);
                std::vector<double> d(N); for (int i = 0; i < N; ++i) d[i] = 1 + i % k;
                in.A = diag_matrix(d); in.f.assign(N, 1.0); in.x0.assign(N, 0.0);
                run_solve(in);
            }
            {   // exact preconditioner
                solve_in in = base("exact_precond", "diaginv", 1e-6);
                std::vector<double> d(N); for (int i = 0; i < N; ++i) d[i] = 1 + i;
                in.A = diag_matrix(d); in.f.assign(N, 1.0); in.x0.assign(N, 0.0);
                run_solve(in);
            }
            if (s == "bicgstab") {   // s is an eigenvector after the first BiCG half step: omega step ends the solve
                solve_in in = base("full_exit_2x2", "dummy", 1e-6);
                rows_t rows(2); rows[0] = {{0, 1.0}, {1, 1.0}}; rows[1] = {{1, 2.0}};
                in.A = vr::from_rows(2, 2, rows); in.f = {1.0, -1.0}; in.x0 = {0.0, 0.0};
                run_solve(in);
            }
            for (int sys = 0; sys < 3; ++sys) {
                std::vector<double> d = {1, 1.5, 2, 3, 4, 5, 6, 8};
                if (sys == 2) d = {1, 1.2, 1.9, 2.5, 3.1, 7, 9, 12};
                auto A = diag_matrix(d, sys == 1 ? 0.7 : 0.0);
                static const char *LAD[3] = {"ladder_spd", "ladder_nonsym", "ladder_spd2_"};
                for (int i = 1; i <= 40; ++i) {
                    double tol = std::pow(10.0, -0.15 * i);
                    solve_in in = base(LAD[sys] + std::to_string(i), sys == 1 ? "jac" : "dummy", tol);
                    if (s == "cg" && sys == 1) continue;       // CG is defined for symmetric systems only
                    if (s == "bicgstabl" && opt && sys == 2) in.prm.put("solver.delta", 0.9);
                    in.A = A; in.f.resize(N); in.x0.assign(N, 0.0);
                    for (int q = 0; q < N; ++q) in.f[q] = sys == 2 ? 1.0 + ((q * 5) % 7) : 1.0 + 0.25 * q;
                    run_solve(in);
                }
            }
        }
    }
}

// ------------------------------------------------------------------ families (class O)
struct problem { std::string fam; std::shared_ptr<crsd> A; bool sym; };

static problem make_problem(vr::rng &g, int which, int size_class) {
    // size_class 0: n ~ 200..700, 1: ~ 700..2000, 2: ~ 4000..6500 (multi-level with default coarse_enough)
    problem p;
    int lo = size_class == 0 ? 200 : size_class == 1 ? 700 : 4000, hi = size_class == 0 ? 700 : size_class == 1 ? 2000 : 6500;
    int n = g.range(lo, hi);
    int dec = g.range(0, 3);
    switch (which % 6) {
    case 0: p.fam = "spd_m_graph"; p.A = fam_graph(g, n, dec); p.sym = true; break;
    case 1: { int m = (int)std::sqrt((double)n); p.fam = "spd_m_grid2"; p.A = fam_grid(g, m, std::max(4, n / m), 1, dec, 1, 1, 0, 0, 0); p.sym = true; break; }
    case 2: { int m = std::max(4, (int)std::cbrt((double)n)); p.fam = "spd_m_grid3"; p.A = fam_grid(g, m, m, std::max(3, n / (m * m)), dec, 1, 1, 1, 0, 0); p.sym = true; break; }
    case 3: { int m = (int)std::sqrt((double)n); double e = std::pow(10.0, -g.range(1, 3)); p.fam = "aniso"; p.A = fam_grid(g, m, std::max(4, n / m), 1, 0, 1, e, 0, 0, 0); p.sym = true; break; }
    case 4: { int m = (int)std::sqrt((double)n); double b = std::pow(10.0, g.range(-1, 1)) ; double th = 6.2831853 * g.unit();
              p.fam = "convdiff"; p.A = fam_grid(g, m, std::max(4, n / m), 1, g.range(0, 1), 1, 1, 0, b * std::cos(th), b * std::sin(th)); p.sym = false; break; }
    default: { int m = (int)std::sqrt((double)n); p.fam = "convdiff_strong"; p.A = fam_grid(g, m, std::max(4, n / m), 1, 0, 1, 1, 0, 3.0 + 10 * g.unit(), -2.0 * g.unit()); p.sym = false; break; }
    }
    return p;
}

static void rhs_and_guess(vr::rng &g, const crsd &A, int kind, std::vector<double> &f, std::vector<double> &x0) {
    size_t n = A.nrows; f.resize(n); x0.assign(n, 0.0);
    if (kind % 3 == 0) f.assign(n, 1.0);
    else if (kind % 3 == 1) for (auto &v : f) v = 2 * g.unit() - 1;
    else {   // f = A * smooth
        std::vector<double> u(n); for (size_t i = 0; i < n; ++i) u[i] = std::sin(0.01 * i) + 0.5;
        for (size_t i = 0; i < n; ++i) { double s = 0; for (ptrdiff_t q = A.ptr[i]; q < A.ptr[i + 1]; ++q) s += A.val[q] * u[A.col[q]]; f[i] = s; }
    }
    if ((kind / 3) % 2 == 1) for (auto &v : x0) v = 2 * g.unit() - 1;
}

static void mode_solve(int shard, int nshards) {
    uint64_t seed = vr::env_seed();
    bool th = vr::thorough();
    // all (solver, relaxation, coarsening) triples in a seeded order; every triple is visited
    std::vector<int> order(8 * 9 * 4);
    for (size_t i = 0; i < order.size(); ++i) order[i] = i;
    { vr::rng g(seed * 7919 + 11); for (size_t k = order.size(); k > 1; --k) std::swap(order[k - 1], order[g.below((int)k)]); }
    int rounds = th ? 30 : 2;
    long cfgid = 0;
    for (int round = 0; round < rounds; ++round)
    for (size_t oi = 0; oi < order.size(); ++oi) {
        ++cfgid;
        if ((long)(cfgid % nshards) != shard) continue;
        if (vr::env_int("C01_ONLY", -1) >= 0 && cfgid != vr::env_int("C01_ONLY", -1)) continue;   // replay one case
        vr::rng g(seed * 1000003ull + cfgid * 7 + 3);
        int t = order[oi];
        std::string s = SOLVERS[t % 8], relax = RELAX[(t / 8) % 9], coars = COARS[t / 72];
        // Latin-square style: family, side, sizes are tied to the position so that every
        // solver meets every family and both sides within one round
        int famidx = (int)((oi + t % 8 + round) % 6);
        if (s == "cg" && famidx >= 4) famidx -= 4;                  // CG: symmetric families only
        problem pb = make_problem(g, famidx, (int)((oi / 6 + round) % 2));
        solve_in in; in.mode = "solve"; in.fam = pb.fam; in.solver = s; in.sided = is_sided(s);
        in.side = (is_sided(s) && ((oi / 3 + t / 8 + round) % 2)) ? "left" : "right";
        in.coars = coars; in.relax = relax; in.pkind = "amg"; in.cfgid = cfgid; in.A = pb.A;
        in.par = s == "bicgstabl" ? g.range(1, 4) : s == "idrs" ? g.range(1, 8) : (s == "gmres" || s == "fgmres" || s == "lgmres") ? (g.coin() ? 30 : g.range(3, 12)) : 1;
        in.opt = has_opt(s) && s != "bicgstab" ? g.coin(0.3) : 0;
        static const int MI[4] = {5, 20, 100, 100};
        static const double TOL[4] = {1e-6, 1e-8, 1e-8, 1e-10};
        in.maxit = MI[g.below(4)]; in.tol = TOL[g.below(4)];
        in.cas = "sample";
        ptree &p = in.prm;
        p.put("precond.kind", "amg");
        p.put("precond.amg.coarsening.type", coars);
        p.put("precond.amg.relax.type", relax);
        p.put("precond.amg.coarse_enough", g.range(20, 150));
        p.put("precond.amg.npre", g.range(1, 2));
        p.put("precond.amg.npost", g.range(1, 2));
        int ncycle = g.range(1, 2);
        p.put("precond.amg.ncycle", ncycle);
        p.put("precond.amg.pre_cycles", g.range(1, 2));
        if (g.coin(0.2)) p.put("precond.amg.direct_coarse", false);
        // a W-cycle visits level l 2^l times: bound the depth (coarsening can stall on convection)
        if (ncycle > 1) p.put("precond.amg.max_levels", g.range(2, 4));
        else if (g.coin(0.2)) p.put("precond.amg.max_levels", g.range(2, 3));
        // known finding owned by C02 (not re-reported here): smoothed_aggr_emin yields P = 0 for an aggregate
        // that is a whole two-node component of a coarse operator -> zero coarse row -> NaN.  It needs a
        // second coarsening step on these families, so emin is sampled with one coarsening step.
        if (coars == "smoothed_aggr_emin") p.put("precond.amg.max_levels", 2);
        solver_params(p, s, in.side, in.par, in.opt, in.maxit, in.tol);
        if (s == "lgmres") { p.put("solver.M", std::max(1, in.par - 1)); p.put("solver.K", 1); in.par = std::max(1, in.par - 1) + 1; }
        rhs_and_guess(g, *pb.A, g.below(6), in.f, in.x0);
        run_solve(in);
    }
}

// family spd_m with DEFAULT parameters (only the three type names are set): every
// coarsening x relaxation x Krylov method; Richardson is run with three budgets to observe
// its per-step reduction, which is compared with the contraction of the same cycle measured
// here by iterating x <- x + P (f - A x) with the same preconditioner object.
static void mode_spd(int shard, int nshards) {
    uint64_t seed = vr::env_seed();
    bool th = vr::thorough();
    int nprob = th ? 6 : 2;
    long cfgid = 0;
    for (int pi = 0; pi < nprob; ++pi) {
        vr::rng g(seed * 104729ull + pi * 13 + 5);
        problem pb;
        // coefficient contrast <= 10 in this mode: measured on the unchanged tree every combination
        // needs <= 20 iterations there; from contrast 100 on CG with the non-symmetric ILUT / SPAI-1
        // smoothers stalls, which is a limit of the methods, not a property violation
        int dec = g.range(0, 1);
        if (vr::env_int("C01_DEC", -1) >= 0) dec = vr::env_int("C01_DEC", -1);
        if (pi % 2 == 0) { int m = g.range(57, 66); pb.fam = "spd_m_grid2"; pb.A = fam_grid(g, m, m, 1, dec, 1, 1, 0, 0, 0); }
        else if (pi == 1) { pb.fam = "spd_m_graph"; pb.A = fam_graph(g, g.range(3100, 4000), dec); }
        else { int m = g.range(15, 16); pb.fam = "spd_m_grid3"; pb.A = fam_grid(g, m, m, m, dec, 1, 1, 1, 0, 0); }
        const crsd &A = *pb.A; size_t n = A.nrows;
        std::vector<double> f(n), x0(n, 0.0);
        for (auto &v : f) v = pi % 2 ? 1.0 : 2 * g.unit() - 1;
        for (int ci = 0; ci < 4; ++ci) for (int ri = 0; ri < 9; ++ri) for (int si = 0; si < 8; ++si) {
            ++cfgid;
            if ((long)((cfgid + cfgid / 8) % nshards) != shard) continue;
            if (vr::env_int("C01_ONLY", -1) >= 0 && cfgid != vr::env_int("C01_ONLY", -1)) continue;
            std::string s = SOLVERS[si];
            solve_in in; in.mode = "spd"; in.fam = pb.fam; in.solver = s; in.sided = is_sided(s); in.side = "right";
            in.coars = COARS[ci]; in.relax = RELAX[ri]; in.pkind = "amg"; in.cfgid = cfgid; in.A = pb.A; in.f = f; in.x0 = x0;
            in.dflt = 1; in.maxit = 100; in.tol = 1e-8;
            in.par = s == "bicgstabl" ? 2 : s == "idrs" ? 4 : s == "lgmres" ? 33 : (s == "gmres" || s == "fgmres") ? 30 : 1;
            in.cas = "default";
            in.prm.put("precond.kind", "amg");
            in.prm.put("precond.amg.coarsening.type", in.coars);
            in.prm.put("precond.amg.relax.type", in.relax);
            solver_params(in.prm, s, "right", 1, 0, 100, 1e-8, /*defaults_only=*/true);
            if (s != "richardson") { run_solve(in); continue; }
            // Richardson: reported residual after 4, 8, 12 steps (tol ~ 0 so that the budget decides)
            double res[3];
            for (int b = 0; b < 3; ++b) {
                solve_in q = in; q.cas = "rate" + std::to_string(4 * (b + 1)); q.dflt = 0; q.maxit = 4 * (b + 1); q.tol = 1e-300;
                q.prm.put("solver.maxiter", q.maxit); q.prm.put("solver.tol", 1e-300);
                res[b] = run_solve(q);
            }
            // contraction of the same cycle: residuals of  x <- x + P (f - A x)  computed here with
            // the same preconditioner object (residual in long double)
            try {
                Solver solve(in.A, in.prm);
                std::vector<double> r(f), z(n), x(n, 0.0);
                double rn[13]; rn[0] = (double)norm2(r);
                for (int k = 1; k <= 12; ++k) {
                    solve.precond().apply(r, z);
                    for (size_t i = 0; i < n; ++i) x[i] += z[i];
                    std::vector<ld> rr, ga; spmv_abs(A, x, f, rr, ga);
                    for (size_t i = 0; i < n; ++i) r[i] = (double)rr[i];
                    rn[k] = (double)norm2(r);
                }
                vr::obj o;
                o.str("k", "rate").str("mode", "spd").str("fam", pb.fam).str("coars", in.coars).str("relax", in.relax).i("cfg", cfgid).i("n", n);
                bool ok = res[0] > 0 && res[1] > 0 && res[2] > 0 && rn[4] > 0 && rn[8] > 0 && rn[12] > 0 && std::isfinite(res[2]) && std::isfinite(rn[12]);
                o.i("ok", ok);
                if (ok) {
                    // reductions over 4 steps in millidecades; r8/r12: level reached (floor guard)
                    o.i("obs12", md(res[1] / res[0])).i("obs23", md(res[2] / res[1]));
                    o.i("ref12", md(rn[8] / rn[4])).i("ref23", md(rn[12] / rn[8]));
                    o.i("r4", md(res[0])).i("r8", md(res[1])).i("r12", md(res[2]));
                }
                vr::emit(o.done());
            } catch (const std::exception &e) {
                vr::obj o; o.str("k", "rate").str("exc", e.what()); vr::emit(o.done());
            }
        }
    }
}


// ------------------------------------------------------------------ mode hist
// Histories on one solver object, restarted methods over several cycles, and cycle parameters
// without pre-smoothing.  Everything on family spd_m with coefficient contrast <= 10 (where the
// unchanged tree converges for every combination) and on small designed systems.
//   A  "hist"    : a solve that follows an ABORTED call on the same object (the preconditioner throws at its
//                  k-th application; the library's own "zero rho" breakdown) and a solve that follows a
//                  completed one; judged by the truthfulness clauses like any other return
//   B  "restart" : gmres / fgmres / lgmres with restart lengths 2..5 (K = 1..3), bicgstabl, idrs: convergence
//                  within the budget (fresh and reused object) and the recomputed residual at the restart
//                  boundaries c*(M+K), c = 1..6, which must not increase
//   C  "cyc"     : npre = 0 with ncycle in {2,3} / pre_cycles in {2,3} (and controls): Krylov solvers converge
//                  within the budget, Richardson contracts
static void amg_params(ptree &p, const std::string &coars, const std::string &relax, int ce) {
    p.put("precond.kind", "amg");
    p.put("precond.amg.coarsening.type", coars);
    p.put("precond.amg.relax.type", relax);
    p.put("precond.amg.coarse_enough", ce);
    if (coars == "smoothed_aggr_emin") p.put("precond.amg.max_levels", 2);     // see mode solve
}
static void second_rhs(vr::rng &g, const std::vector<double> &f, std::vector<double> &f2, std::vector<double> &x2) {
    size_t n = f.size(); f2.resize(n); x2.resize(n);
    for (size_t i = 0; i < n; ++i) { f2[i] = 0.5 * f[n - 1 - i] + 0.25 + 0.5 * g.unit(); x2[i] = g.unit() - 0.5; }
}
static void emit_abort(const solve_in &in, long throw_at, bool thrown, const std::string &what) {
    vr::obj o; o.str("k", "abort").str("mode", in.mode).str("solver", in.solver).str("side", in.side).i("par", in.par)
        .i("cfg", in.cfgid).i("at", throw_at).i("thrown", thrown).str("what", what);
    vr::emit(o.done());
}
static void mode_hist(int shard, int nshards) {
    uint64_t seed = vr::env_seed();
    bool th = vr::thorough();
    long cfgid = 0;
    auto mine = [&]() { ++cfgid; return (long)(cfgid % nshards) == shard; };

    // ---------------- A: histories
    for (int rep = 0; rep < (th ? 4 : 1); ++rep) {
        vr::rng g(seed * 92821ull + rep * 31 + 7);
        int m = g.range(18, 24);
        auto Agrid = fam_grid(g, m, m, 1, g.range(0, 1), 1, 1, 0, 0, 0);
        std::vector<double> d8 = {1, 1.5, 2, 3, 4, 5, 6, 8};
        auto Atiny = diag_matrix(d8, 0.0);
        for (int si = 0; si < 8; ++si) for (int sd = 0; sd < 2; ++sd) for (int pi = 0; pi < 2; ++pi) for (long at : {2L, 3L, 5L}) {
            std::string s = SOLVERS[si];
            if (sd && !is_sided(s)) continue;
            if (!mine()) continue;
            solve_in in; in.mode = "hist"; in.solver = s; in.sided = is_sided(s); in.side = sd ? "left" : "right";
            in.par = s == "bicgstabl" ? g.range(1, 3) : s == "idrs" ? g.range(1, 4) : (s == "gmres" || s == "fgmres" || s == "lgmres") ? g.range(3, 8) : 1;
            in.maxit = 100; in.tol = 1e-8; in.cfgid = cfgid;
            if (pi == 0) { in.fam = "spd_m_grid2"; in.A = Agrid; in.pkind = "amg"; in.coars = COARS[g.below(3)]; in.relax = g.coin() ? "spai0" : "damped_jacobi";
                           amg_params(in.prm, in.coars, in.relax, 60); }
            else { in.fam = "designed"; in.A = Atiny; in.pkind = "jac"; in.prm.put("precond.kind", "jac"); }
            solver_params(in.prm, s, in.side, in.par, 0, in.maxit, in.tol);
            size_t n = in.A->nrows;
            std::vector<double> f1(n), x1(n, 0.0), f2, x2;
            for (size_t i = 0; i < n; ++i) f1[i] = 1.0 + 0.25 * (i % 7);
            second_rhs(g, f1, f2, x2);
            try {
                Solver solve(in.A, in.prm);
                // 1. aborted call
                { std::vector<double> x = x1; solve.precond().count = 0; solve.precond().throw_at = at;
                  bool thrown = false; std::string what;
                  try { solve(f1, x); } catch (const std::exception &e) { thrown = true; what = e.what(); }
                  solve.precond().throw_at = -1;
                  emit_abort(in, at, thrown, what); }
                // 2. the next solves on the same object
                in.cas = "after_abort"; in.f = f2; in.x0 = x2; run_solve_on(solve, in);
                in.cas = "after_solve"; in.f = f1; in.x0 = x1; run_solve_on(solve, in);
            } catch (const std::exception &e) { vr::obj o; [&]{ double d = 0; record_header(o, in, d); }(); record_exception(o, e); vr::emit(o.done()); }
        }
        // the preconditioner rebuilt for a new matrix, then solve(rhs, x): the residual reported must be that of the NEW system,
        // for hierarchies of one direct-solver level (n <= coarse_enough), of one relaxed level (direct_coarse = false) and of several levels
        vr::rng g2(seed * 131ull + rep * 17 + 5);
        for (int si = 0; si < 8; ++si) for (int shape = 0; shape < 3; ++shape) {
            if ((si * 3 + shape) % nshards != shard) continue;      // own sharding and own random stream: the other cases are unchanged
            std::string s = SOLVERS[si];
            solve_in in; in.mode = "hist"; in.solver = s; in.sided = is_sided(s); in.side = "right";
            in.par = s == "bicgstabl" ? 2 : s == "idrs" ? 3 : (s == "gmres" || s == "fgmres" || s == "lgmres") ? 5 : 1;
            in.maxit = 100; in.tol = 1e-8; in.cfgid = 900000 + si * 3 + shape; in.fam = "spd_m_grid2"; in.pkind = "amg";
            in.coars = COARS[1 + (si + shape) % 2]; in.relax = "spai0";
            int mm = shape == 2 ? m : 6;
            auto A1 = fam_grid(g2, mm, mm, 1, 0, 1, 1, 0, 0, 0);
            auto A2 = std::make_shared<crsd>(*A1);          // same pattern, different operator: rows scaled, diagonal shifted (stays an SPD-like M-matrix)
            for (size_t i = 0; i < A2->nrows; ++i) for (ptrdiff_t q = A2->ptr[i]; q < A2->ptr[i + 1]; ++q)
                A2->val[q] = A2->val[q] * 3.0 + (A2->col[q] == (ptrdiff_t)i ? 2.0 + (i % 3) : 0.0);
            amg_params(in.prm, in.coars, in.relax, shape == 2 ? 30 : 3000);
            in.prm.put("precond.amg.allow_rebuild", true);
            if (shape == 1) in.prm.put("precond.amg.direct_coarse", false);
            solver_params(in.prm, s, in.side, in.par, 0, in.maxit, in.tol);
            size_t n = A1->nrows;
            std::vector<double> f1(n), x1(n, 0.0), f2, x2;
            for (size_t i = 0; i < n; ++i) f1[i] = 1.0 + 0.25 * (i % 7);
            second_rhs(g2, f1, f2, x2);
            try {
                Solver solve(A1, in.prm);
                in.A = A1; in.cas = "before_rebuild"; in.f = f1; in.x0 = x1; run_solve_on(solve, in);
                solve.precond().rebuild(A2);
                in.A = A2; in.cas = "after_rebuild"; in.f = f2; in.x0 = x2; run_solve_on(solve, in);
                solve.precond().rebuild(A1);
                in.A = A1; in.cas = "after_rebuild_back"; in.f = f1; in.x0 = x1; run_solve_on(solve, in);
            } catch (const std::exception &e) { vr::obj o; [&]{ double d = 0; record_header(o, in, d); }(); record_exception(o, e); vr::emit(o.done()); }
        }
        // the library's own breakdown: BiCGStab(L) "zero rho" on a 3x3 system, then regular solves on the object
        for (int sd = 0; sd < 2; ++sd) for (int L = 1; L <= 3; ++L) {
            if (!mine()) continue;
            solve_in in; in.mode = "hist"; in.solver = "bicgstabl"; in.sided = 1; in.side = sd ? "left" : "right"; in.par = L;
            in.maxit = 100; in.tol = 1e-8; in.cfgid = cfgid; in.fam = "designed"; in.pkind = "dummy";
            rows_t rows(3); rows[0] = {{0, 2.0}, {1, 1.0}, {2, 1.0}}; rows[1] = {{0, 1.0}, {1, 3.0}}; rows[2] = {{0, -1.0}, {2, 3.0}};
            in.A = vr::from_rows(3, 3, rows);
            in.prm.put("precond.kind", "dummy");
            solver_params(in.prm, "bicgstabl", in.side, L, 0, in.maxit, in.tol);
            try {
                Solver solve(in.A, in.prm);
                { std::vector<double> f = {1, 0, 0}, x(3, 0.0); bool thrown = false; std::string what;
                  try { solve(f, x); } catch (const std::exception &e) { thrown = true; what = e.what(); }
                  emit_abort(in, 0, thrown, what); }
                in.cas = "after_breakdown"; in.f = {1, 2, 3}; in.x0 = {0, 0, 0}; run_solve_on(solve, in);
                in.cas = "after_solve"; in.f = {-2, 0.5, 1}; in.x0 = {0, 0, 0}; run_solve_on(solve, in);
            } catch (const std::exception &e) { vr::obj o; [&]{ double d = 0; record_header(o, in, d); }(); record_exception(o, e); vr::emit(o.done()); }
        }
    }

    // ---------------- A2: IDR(s) aborted by its own breakdown (zero M[k,k]: a call with an all-zero system matrix)
    for (int rep = 0; rep < (th ? 4 : 1); ++rep) {
        vr::rng g(seed * 49979687ull + rep * 23 + 5);
        int m = g.range(16, 22);
        auto Agrid = fam_grid(g, m, m, 1, g.range(0, 1), 1, 1, 0, 0, 0);
        size_t n = Agrid->nrows;
        std::vector<double> zd(n, 0.0); auto Azero = diag_matrix(zd, 0.0);
        for (int sI = 1; sI <= 4; ++sI) for (int opt = 0; opt < 2; ++opt) for (int pi = 0; pi < 2; ++pi) {
            if (!mine()) continue;
            solve_in in; in.mode = "hist"; in.solver = "idrs"; in.side = "right"; in.par = sI; in.opt = opt; in.maxit = 100; in.tol = 1e-8;
            in.cfgid = cfgid; in.fam = "spd_m_grid2"; in.A = Agrid;
            if (pi == 0) { in.pkind = "amg"; in.coars = COARS[g.below(3)]; in.relax = "spai0"; amg_params(in.prm, in.coars, in.relax, 60); }
            else { in.pkind = "jac"; in.prm.put("precond.kind", "jac"); in.maxit = 400; }
            solver_params(in.prm, "idrs", "right", sI, opt, in.maxit, in.tol);
            std::vector<double> f1(n), x1(n, 0.0), f2, x2;
            for (size_t i = 0; i < n; ++i) f1[i] = 1.0 + 0.25 * (i % 7);
            second_rhs(g, f1, f2, x2);
            try {
                Solver solve(in.A, in.prm);
                { std::vector<double> x = x1; bool thrown = false; std::string what;
                  try { solve(*Azero, f1, x); } catch (const std::exception &e) { thrown = true; what = e.what(); }
                  emit_abort(in, 0, thrown, what); }
                in.cas = "after_breakdown"; in.f = f2; in.x0 = x2; run_solve_on(solve, in);
                in.cas = "after_solve"; in.f = f1; in.x0 = x1; run_solve_on(solve, in);
            } catch (const std::exception &e) { vr::obj o; double d = 0; record_header(o, in, d); record_exception(o, e); vr::emit(o.done()); }
        }
    }

    // ---------------- D: the system matrix of the call differs from the preconditioner's (A1 = 1.25 A0 + 0.05 I)
    for (int rep = 0; rep < (th ? 4 : 1); ++rep) {
        vr::rng g(seed * 67867967ull + rep * 29 + 9);
        int m = g.range(18, 26);
        auto A0 = fam_grid(g, m, m, 1, g.range(0, 1), 1, 1, 0, 0, 0);
        size_t n = A0->nrows;
        rows_t rows(n);
        for (size_t i = 0; i < n; ++i) for (ptrdiff_t q = A0->ptr[i]; q < A0->ptr[i + 1]; ++q)
            rows[i].push_back({(int)A0->col[q], 1.25 * A0->val[q] + (A0->col[q] == (ptrdiff_t)i ? 0.05 : 0.0)});
        auto A1 = vr::from_rows(n, n, rows);
        struct variant { const char *solver; int par, opt; const char *key; const char *val; };
        static const variant VS[] = {
            {"cg", 1, 0, 0, 0}, {"bicgstab", 1, 0, 0, 0}, {"bicgstabl", 2, 0, 0, 0}, {"bicgstabl", 2, 1, 0, 0}, {"bicgstabl", 4, 1, "solver.delta", "0.5"},
            {"gmres", 5, 0, 0, 0}, {"gmres", 30, 0, 0, 0}, {"fgmres", 5, 0, 0, 0}, {"lgmres", 5, 0, 0, 0},
            {"idrs", 4, 0, 0, 0}, {"idrs", 4, 1, 0, 0}, {"idrs", 2, 0, "solver.replacement", "true"}, {"idrs", 4, 1, "solver.replacement", "true"},
            {"richardson", 1, 0, 0, 0}, {"richardson", 1, 0, "solver.damping", "0.8"}};
        for (const variant &v : VS) for (int sd = 0; sd < 2; ++sd) for (int pi = 0; pi < 2; ++pi) {
            std::string s = v.solver;
            if (sd && !is_sided(s)) continue;
            if (pi == 1 && s == "richardson") continue;       // the perturbed Jacobi scaling is not a convergent splitting
            if (!mine()) continue;
            solve_in in; in.mode = "hist"; in.solver = s; in.sided = is_sided(s); in.side = sd ? "left" : "right"; in.par = v.par; in.opt = v.opt;
            in.maxit = 200; in.tol = 1e-8; in.cfgid = cfgid; in.fam = "spd_m_grid2"; in.A = A0; in.Acall = A1;
            if (pi == 0) { in.pkind = "amg"; in.coars = COARS[g.below(3)]; in.relax = g.coin() ? "spai0" : "damped_jacobi"; amg_params(in.prm, in.coars, in.relax, 60); }
            else { in.pkind = "jac"; in.prm.put("precond.kind", "jac"); in.maxit = 600; }
            solver_params(in.prm, s, in.side, v.par, v.opt, in.maxit, in.tol);
            if (s == "lgmres") { in.prm.put("solver.M", 3); in.prm.put("solver.K", 2); }
            if (v.key) in.prm.put(v.key, v.val);
            std::vector<double> f1(n), x1(n, 0.0), f2, x2;
            for (auto &q : f1) q = 2 * g.unit() - 1;
            second_rhs(g, f1, f2, x2);
            try {
                Solver solve(in.A, in.prm);
                in.cas = "other_matrix"; in.f = f1; in.x0 = x1; run_solve_on(solve, in);
                in.cas = "other_matrix_reused"; in.f = f2; in.x0 = x2; run_solve_on(solve, in);
            } catch (const std::exception &e) { vr::obj o; double d = 0; record_header(o, in, d); record_exception(o, e); vr::emit(o.done()); }
        }
    }

    // ---------------- E: right-hand sides scaled by powers of two (exact scale invariance of the relative residual)
    {
        vr::rng g(seed * 86028121ull + 13);
        // 2^100 and not 2^332 (1e100): there the Gram matrix of BiCGStab(L)'s polynomial step overflows in its QR
        static const int SC[8] = {-20, -40, -43, -47, -50, 100, -332, 0};
        for (int big = 0; big < 2; ++big) {
            int m = big ? 160 : g.range(18, 24);
            auto A = fam_grid(g, m, m, 1, g.range(0, 1), 1, 1, 0, 0, 0);
            size_t n = A->nrows;
            std::vector<double> fb(n); for (auto &q : fb) q = 2 * g.unit() - 1;
            { ld nf = norm2(fb); int e; std::frexp((double)nf, &e); for (auto &q : fb) q = std::ldexp(q, -e); }   // ||f_base|| in [0.5, 1)
            for (int si = 0; si < 8; ++si) {
                if (!mine()) continue;
                std::string s = SOLVERS[si];
                solve_in in; in.mode = "scale"; in.solver = s; in.sided = is_sided(s); in.side = "right";
                in.par = s == "bicgstabl" ? 2 : s == "idrs" ? 4 : (s == "gmres" || s == "fgmres" || s == "lgmres") ? 30 : 1;
                in.maxit = 100; in.tol = 1e-8; in.cfgid = cfgid; in.fam = "spd_m_grid2"; in.A = A; in.pkind = "amg";
                in.coars = big ? "smoothed_aggregation" : COARS[g.below(3)]; in.relax = "spai0";
                amg_params(in.prm, in.coars, in.relax, big ? 3000 : 60);
                solver_params(in.prm, s, "right", in.par, 0, in.maxit, in.tol);
                in.x0.assign(n, 0.0);
                try {
                    Solver solve(in.A, in.prm);
                    in.cas = "scale0"; in.sc = 0; in.f = fb; size_t it0 = 0; double r0 = run_solve_on(solve, in, &it0);
                    in.it0 = (int)it0; in.rep0 = md(r0);
                    for (int q = 0; q < 7; ++q) {
                        in.sc = SC[q]; in.cas = "scaled"; in.f = fb; for (auto &v : in.f) v = std::ldexp(v, SC[q]);
                        run_solve_on(solve, in);
                    }
                } catch (const std::exception &e) { vr::obj o; double d = 0; record_header(o, in, d); record_exception(o, e); vr::emit(o.done()); }
            }
        }
    }

    // ---------------- B: restarted methods over several cycles
    for (int pi = 0; pi < (th ? 6 : 2); ++pi) {
        vr::rng g(seed * 15485863ull + pi * 17 + 3);
        int m = g.range(28, 38);
        auto A = pi % 2 ? fam_graph(g, g.range(800, 1400), g.range(0, 1)) : fam_grid(g, m, m, 1, g.range(0, 1), 1, 1, 0, 0, 0);
        std::string fam = pi % 2 ? "spd_m_graph" : "spd_m_grid2";
        size_t n = A->nrows;
        std::vector<double> f(n), x0(n, 0.0), f2, x2;
        for (auto &v : f) v = 2 * g.unit() - 1;
        second_rhs(g, f, f2, x2);
        static const char *RS[5] = {"gmres", "fgmres", "lgmres", "bicgstabl", "idrs"};
        static const char *RL[3] = {"spai0", "damped_jacobi", "gauss_seidel"};
        for (int ci = 0; ci < 3; ++ci) for (int ri = 0; ri < 3; ++ri) for (int si = 0; si < 5; ++si) for (int v = 0; v < 2; ++v) {
            if (!mine()) continue;
            std::string s = RS[si];
            solve_in in; in.mode = "restart"; in.fam = fam; in.solver = s; in.sided = is_sided(s);
            in.side = (is_sided(s) && (ci + ri + v) % 2) ? "left" : "right";
            in.coars = COARS[ci]; in.relax = RL[ri]; in.pkind = "amg"; in.cfgid = cfgid; in.A = A;
            in.maxit = 500; in.tol = 1e-8; in.dflt = 2;          // dflt = 2: convergence within the budget is promised
            int M = g.range(3, 5), K = g.range(1, 3);
            amg_params(in.prm, in.coars, in.relax, 100);
            solver_params(in.prm, s, in.side, s == "bicgstabl" ? g.range(2, 4) : s == "idrs" ? g.range(2, 4) : M, 0, in.maxit, in.tol);
            in.par = s == "bicgstabl" ? in.prm.get("solver.L", 2) : s == "idrs" ? in.prm.get("solver.s", 4) : M;
            if (s == "lgmres") { in.prm.put("solver.M", M); in.prm.put("solver.K", K); in.par = M + K; }
            try {
                Solver solve(in.A, in.prm);
                in.cas = "first"; in.f = f; in.x0 = x0; run_solve_on(solve, in);
                in.cas = "reused"; in.f = f2; in.x0 = x2; run_solve_on(solve, in);
            } catch (const std::exception &e) { vr::obj o; double d; record_header(o, in, d); record_exception(o, e); vr::emit(o.done()); }
            if (si > 2) continue;
            // recomputed residual at the restart boundaries (fresh objects, budget c * cycle length), AMG and
            // a weak (perturbed Jacobi) preconditioner
            for (int weak = 0; weak < 2; ++weak) {
                int cyc = in.par; std::vector<long> seq; double prev = -1, inc = 0; bool ok = true;
                for (int c = 1; c <= 6 && ok; ++c) {
                    ptree q = in.prm; q.put("solver.maxiter", c * cyc); q.put("solver.tol", 1e-300);
                    if (weak) { q.erase("precond"); q.put("precond.kind", "jac"); }
                    try {
                        Solver sv(in.A, q); std::vector<double> x = x0; size_t it; double r; std::tie(it, r) = sv(f, x);
                        if (!std::isfinite(r)) { ok = false; break; }
                        seq.push_back(md(r));
                        if (prev > 1e-12) inc = std::max(inc, r / prev - 1);
                        prev = r;
                    } catch (const std::exception &) { ok = false; }
                }
                vr::obj o; o.str("k", "restart").str("mode", "restart").str("solver", s).str("side", in.side).str("fam", fam).i("cfg", cfgid)
                    .i("M", M).i("K", s == "lgmres" ? K : 0).i("cyc", cyc).i("weak", weak).str("coars", in.coars).str("relax", in.relax)
                    .i("ok", ok).ints("seq", seq).i("inc", md(inc));
                vr::emit(o.done());
            }
        }
    }

    // ---------------- C: cycle parameters without pre-smoothing
    for (int pi = 0; pi < (th ? 6 : 2); ++pi) {
        vr::rng g(seed * 32452843ull + pi * 19 + 11);
        int m = g.range(28, 38);
        auto A = pi % 2 ? fam_graph(g, g.range(800, 1400), g.range(0, 1)) : fam_grid(g, m, m, 1, g.range(0, 1), 1, 1, 0, 0, 0);
        std::string fam = pi % 2 ? "spd_m_graph" : "spd_m_grid2";
        size_t n = A->nrows;
        std::vector<double> f(n), x0(n, 0.0);
        for (auto &v : f) v = 2 * g.unit() - 1;
        static const int CYC[6][3] = {{0, 2, 1}, {0, 3, 1}, {0, 1, 2}, {0, 1, 3}, {0, 2, 2}, {1, 2, 2}};   // npre, ncycle, pre_cycles
        static const char *RL[4] = {"spai0", "damped_jacobi", "gauss_seidel", "ilu0"};
        // CG is left out: without pre-smoothing the cycle is not a symmetric operator
        static const char *CS[4] = {"bicgstab", "gmres", "idrs", "richardson"};
        for (int ci = 0; ci < 4; ++ci) for (int ri = 0; ri < 4; ++ri) for (int cy = 0; cy < 6; ++cy) for (int si = 0; si < 4; ++si) {
            if (!mine()) continue;
            std::string s = CS[si];
            solve_in in; in.mode = "cyc"; in.fam = fam; in.solver = s; in.sided = is_sided(s); in.side = "right";
            in.coars = COARS[ci]; in.relax = RL[ri]; in.pkind = "amg"; in.cfgid = cfgid; in.A = A; in.f = f; in.x0 = x0;
            in.maxit = 100; in.tol = 1e-8; in.par = s == "gmres" ? 30 : s == "idrs" ? 4 : 1; in.cas = "npre" + std::to_string(CYC[cy][0]);
            amg_params(in.prm, in.coars, in.relax, g.coin() ? 60 : 120);
            in.prm.put("precond.amg.npre", CYC[cy][0]); in.prm.put("precond.amg.npost", g.range(1, 2));
            in.prm.put("precond.amg.ncycle", CYC[cy][1]); in.prm.put("precond.amg.pre_cycles", CYC[cy][2]);
            solver_params(in.prm, s, "right", in.par, 0, in.maxit, in.tol);
            if (s != "richardson") { in.dflt = 2; run_solve(in); continue; }
            // Richardson: the reported residual after 8 and after 40 steps
            double r[2]; bool ok = true;
            for (int b = 0; b < 2; ++b) {
                solve_in q = in; q.cas = in.cas + "_rich" + std::to_string(b ? 40 : 8); q.maxit = b ? 40 : 8; q.tol = 1e-300;
                q.prm.put("solver.maxiter", q.maxit); q.prm.put("solver.tol", 1e-300);
                r[b] = run_solve(q); if (!(r[b] > 0) || !std::isfinite(r[b])) ok = false;
            }
            vr::obj o; o.str("k", "contract").str("mode", "cyc").str("fam", fam).str("coars", in.coars).str("relax", in.relax).i("cfg", cfgid)
                .i("npre", CYC[cy][0]).i("ncyc", CYC[cy][1]).i("prec", CYC[cy][2]).i("ok", ok);
            if (ok) o.i("r8", md(r[0])).i("r40", md(r[1]));
            vr::emit(o.done());
        }
    }
}

int main(int argc, char **argv) {
    vr::install_terminate();
    std::string mode = argc > 1 ? argv[1] : "replay";
    int a = argc > 2 ? atoi(argv[2]) : 0, b = argc > 3 ? atoi(argv[3]) : 1;
    if (mode == "replay") mode_replay(vr::env_int("C01_MAXITER", 6), vr::env_int("C01_MAXPAR", 3));
    else if (mode == "solve") mode_solve(a, b);
    else if (mode == "spd") mode_spd(a, b);
    else if (mode == "hist") mode_hist(a, b);
    else { std::cerr << "unknown mode\n"; return 2; }
    vr::obj o; o.str("e", "End").i("cases", g_cases);
    vr::emit(o.done());
    return 0;
}
