// C09 recorder (schedules): reads the level-schedule tables the real code builds
// (gauss_seidel::parallel_sweep, ilu_solve::sptr_solve) through the AMGCL_VERIF
// friend accessor, runs the real sweeps with the per-row event hook installed, and
// compares the parallel sweep with the serial one bitwise.  Judged by spec/C09Trace.tla.
//
// usage: record_schedule small|random     (thread count = OMP_NUM_THREADS, must be >= 4)
#include <vrec.hpp>
#include <amgcl/relaxation/gauss_seidel.hpp>
#include <amgcl/relaxation/detail/ilu_solve.hpp>
#include <atomic>
#include <omp.h>

typedef amgcl::backend::builtin<double> B;
typedef amgcl::relaxation::gauss_seidel<B> GS;
typedef amgcl::relaxation::detail::ilu_solve<B> ILUS;
using vr::crsd;

namespace amgcl { namespace verif {
struct access {
    template <class Sweep>
    static std::string tables(const Sweep &s) {   // [[ [rows of task 0], [rows of task 1], ...] per thread]
        std::ostringstream o; o << "[";
        for (int t = 0; t < s.nthreads; ++t) {
            o << (t ? "," : "") << "[";
            for (size_t k = 0; k < s.tasks[t].size(); ++k) {
                o << (k ? "," : "") << "[";
                for (ptrdiff_t r = s.tasks[t][k].beg; r < s.tasks[t][k].end; ++r) o << (r > s.tasks[t][k].beg ? "," : "") << s.ord[t][r];
                o << "]";
            }
            o << "]";
        }
        o << "]"; return o.str();
    }
    // per-thread row copies must be the rows of the matrix: returns false on any difference
    template <class Sweep, class M>
    static bool copies_ok(const Sweep &s, const M &A) {
        for (int t = 0; t < s.nthreads; ++t)
            for (size_t r = 0; r < s.ord[t].size(); ++r) {
                ptrdiff_t i = s.ord[t][r];
                if (s.ptr[t][r+1] - s.ptr[t][r] != A.ptr[i+1] - A.ptr[i]) return false;
                for (ptrdiff_t j = 0; j < A.ptr[i+1] - A.ptr[i]; ++j)
                    if (s.col[t][s.ptr[t][r] + j] != A.col[A.ptr[i] + j] || s.val[t][s.ptr[t][r] + j] != A.val[A.ptr[i] + j]) return false;
            }
        return true;
    }
    static const void* fwd(const GS &g) { return g.forward.get(); }
    static const void* bwd(const GS &g) { return g.backward.get(); }
    static std::string gs_tables(const GS &g, bool f) { return f ? tables(*g.forward) : tables(*g.backward); }
    static bool gs_copies(const GS &g, bool f, const crsd &A) { return f ? copies_ok(*g.forward, A) : copies_ok(*g.backward, A); }
    static bool gs_serial(const GS &g) { return g.is_serial; }
    static std::string ilu_tables(const ILUS &s, bool lower) { return lower ? tables(*s.lower) : tables(*s.upper); }
    static bool ilu_copies(const ILUS &s, bool lower, const crsd &L, const crsd &U) { return lower ? copies_ok(*s.lower, L) : copies_ok(*s.upper, U); }
    static const void* ilu_obj(const ILUS &s, bool lower) { return lower ? (const void*)s.lower.get() : (const void*)s.upper.get(); }
};
}}
using amgcl::verif::access;

// event sink: global order by an atomic ticket taken inside the hook (after the write of
// x[i] for phase 1/3, before the first read for phase 0/2)
struct Sink : amgcl::verif::sink {
    struct ev { const void *obj; long tid, task, row, phase; };
    std::vector<ev> buf; std::atomic<size_t> n{0};
    Sink() : buf(1 << 20) {}
    void op(const char*, const void*, const void*, const void*, const void*, int, int, int) override {}
    void event(const char *name, const void *obj, long a, long b, long c, long d) override {
        size_t k = n.fetch_add(1, std::memory_order_seq_cst);
        if (k < buf.size()) buf[k] = ev{obj, a, b, c, d};
    }
    void reset() { n = 0; }
    std::string dump(const void *obj, int phase0) {   // [[tid,task,row,phase-phase0],...] in ticket order
        std::ostringstream o; o << "["; bool f = true; size_t m = std::min((size_t)n, buf.size());
        for (size_t k = 0; k < m; ++k) if (buf[k].obj == obj) { o << (f ? "" : ",") << "[" << buf[k].tid << "," << buf[k].task << "," << buf[k].row << "," << (buf[k].phase - phase0) << "]"; f = false; }
        o << "]"; return o.str();
    }
};
static Sink sink;

static std::string rc_json(const crsd &A) {
    std::ostringstream o; o << "[";
    for (size_t i = 0; i < A.nrows; ++i) { o << (i ? "," : "") << "["; for (ptrdiff_t p = A.ptr[i]; p < A.ptr[i+1]; ++p) o << (p > A.ptr[i] ? "," : "") << A.col[p]; o << "]"; }
    o << "]"; return o.str();
}
static bool sym_pattern(const crsd &A) {
    for (size_t i = 0; i < A.nrows; ++i) for (ptrdiff_t p = A.ptr[i]; p < A.ptr[i+1]; ++p) {
        ptrdiff_t c = A.col[p]; bool found = false;
        for (ptrdiff_t q = A.ptr[c]; q < A.ptr[c+1]; ++q) if (A.col[q] == (ptrdiff_t)i) found = true;
        if (!found) return false;
    }
    return true;
}

static void gs_case(const crsd &A, const char *tag, vr::rng &g, bool with_events) {
    int n = A.nrows, nt = omp_get_max_threads();
    GS::params ps; ps.serial = true;  GS ser(A, ps, B::params());
    GS::params pp; pp.serial = false; GS par(A, pp, B::params());
    if (access::gs_serial(par)) return;    // fewer than 4 threads: nothing to observe
    std::vector<double> rhs(n), x0(n), t(n);
    for (int i = 0; i < n; ++i) { rhs[i] = g.range(-4, 4); x0[i] = g.range(-8, 8); }
    for (int fwd = 1; fwd >= 0; --fwd) {
        std::vector<double> xs(x0), xp(x0);
        if (fwd) ser.apply_pre(A, rhs, xs, t); else ser.apply_post(A, rhs, xs, t);
        sink.reset(); if (with_events) amgcl::verif::current() = &sink;
        if (fwd) par.apply_pre(A, rhs, xp, t); else par.apply_post(A, rhs, xp, t);
        amgcl::verif::current() = 0;
        bool same = std::memcmp(xs.data(), xp.data(), n * sizeof(double)) == 0;
        vr::obj o; o.str("k", "sched").str("mode", "gs").str("tag", tag).i("n", n).i("nt", nt).b("fwd", fwd).b("sym", sym_pattern(A));
        o.raw("rc", rc_json(A)).raw("sched", access::gs_tables(par, fwd)).b("copies", access::gs_copies(par, fwd, A)).b("same", same);
        if (with_events) o.raw("ev", sink.dump(fwd ? access::fwd(par) : access::bwd(par), 0));
        vr::emit(o.done());
    }
}

static void ilu_case(const crsd &A, const char *tag, vr::rng &g, bool with_events) {
    // strictly lower / strictly upper parts as L and U, D = 1/diag (dyadic)
    int n = A.nrows, nt = omp_get_max_threads();
    std::vector<std::vector<std::pair<int,double>>> lr(n), ur(n);
    auto D = std::make_shared<amgcl::backend::numa_vector<double>>(n);
    for (int i = 0; i < n; ++i) { (*D)[i] = 0.5; for (ptrdiff_t p = A.ptr[i]; p < A.ptr[i+1]; ++p) { int c = A.col[p]; if (c < i) lr[i].push_back(std::make_pair(c, A.val[p])); else if (c > i) ur[i].push_back(std::make_pair(c, A.val[p])); } }
    auto L = vr::from_rows(n, n, lr), U = vr::from_rows(n, n, ur);
    ILUS::params ps; ps.serial = true;  ILUS ser(L, U, D, ps);
    ILUS::params pp; pp.serial = false; ILUS par(L, U, D, pp);
    std::vector<double> x0(n); for (int i = 0; i < n; ++i) x0[i] = g.range(-8, 8);
    amgcl::backend::numa_vector<double> xs(x0), xp(x0);
    ser.solve(xs);
    sink.reset(); if (with_events) amgcl::verif::current() = &sink;
    par.solve(xp);
    amgcl::verif::current() = 0;
    // serial and level-scheduled forms associate the row sum differently: equal up to rounding
    double err = 0, scale = 0; for (int i = 0; i < n; ++i) { err = std::max(err, std::fabs(xs[i] - xp[i])); scale = std::max(scale, std::fabs(xs[i])); }
    long long ulps = scale > 0 ? (long long)std::min(1e9, err / (scale * 2.220446049250313e-16)) : (err > 0 ? 1000000000LL : 0);
    for (int lower = 1; lower >= 0; --lower) {
        const crsd &T = lower ? *L : *U;
        vr::obj o; o.str("k", "sched").str("mode", "tri").str("tag", tag).i("n", n).i("nt", nt).b("fwd", lower).b("sym", false);
        o.raw("rc", rc_json(T)).raw("sched", access::ilu_tables(par, lower)).b("copies", access::ilu_copies(par, lower, *L, *U)).i("ulps", ulps).b("same", true);
        if (with_events) o.raw("ev", sink.dump(access::ilu_obj(par, lower), lower ? 0 : 2));
        vr::emit(o.done());
    }
}

// matrix from an off-diagonal bitmask, same encoding as LevelScheduleModel.tla (OffBit)
static std::shared_ptr<crsd> off_pattern(int n, unsigned long mask, bool rev) {
    std::vector<std::vector<std::pair<int,double>>> rows(n);
    for (int i = 0; i < n; ++i) {
        for (int cc = 0; cc < n; ++cc) {
            int c = rev ? n - 1 - cc : cc;
            if (c == i) rows[i].push_back(std::make_pair(c, 2.0));
            else { int bit = i * (n - 1) + (c < i ? c : c - 1); if ((mask >> bit) & 1ul) rows[i].push_back(std::make_pair(c, (double)vr::pat_val(i, c, 0))); }
        }
    }
    return vr::from_rows(n, n, rows);
}

int main(int argc, char **argv) {
    vr::install_terminate();
    std::string mode = argc > 1 ? argv[1] : "small";
    vr::rng g(vr::env_seed() + 31);
    bool th = vr::thorough();
    if (omp_get_max_threads() < 4) { vr::obj o; o.str("e", "End"); vr::emit(o.done()); return 0; }
    if (mode == "small") {
        for (int n = 1; n <= 4; ++n)
            for (unsigned long m = 0; m < (1ul << (n * (n - 1))); ++m) { auto A = off_pattern(n, m, (m & 1) && n > 2); gs_case(*A, "small", g, n <= 3 || m % 7 == 0); if (m % 3 == 0) ilu_case(*A, "small", g, n <= 3); }
        // all symmetric patterns on 5 nodes
        for (unsigned long m = 0; m < (1ul << 20); ++m) {
            bool sym = true; for (int i = 0; i < 5 && sym; ++i) for (int c = 0; c < 5; ++c) if (i != c) { int b1 = i * 4 + (c < i ? c : c - 1), b2 = c * 4 + (i < c ? i : i - 1); if (((m >> b1) & 1) != ((m >> b2) & 1)) { sym = false; break; } }
            if (!sym) continue;
            auto A = off_pattern(5, m, false); gs_case(*A, "small5sym", g, false);
        }
        if (th) for (unsigned long m = 0; m < (1ul << 20); m += 1 + g.below(40)) { auto A = off_pattern(5, m, false); gs_case(*A, "small5", g, false); ilu_case(*A, "small5", g, false); }
    } else {
        int reps = vr::env_int("VERIF_REPS", th ? 120 : 24), nmax = vr::env_int("VERIF_NMAX", th ? 300 : 120);
        for (int r = 0; r < reps; ++r) {
            int n = g.range(2, nmax); double dens = (1.0 + 3.0 * g.unit()) / n;
            bool sym = g.coin();
            std::shared_ptr<crsd> A;
            if (sym) A = vr::random_mmatrix(g, n, dens, 3, 1, g.coin());
            else { A = vr::random_int(g, n, n, dens, 3, g.coin(0.3), true); for (size_t i = 0; i < A->nrows; ++i) for (ptrdiff_t p = A->ptr[i]; p < A->ptr[i+1]; ++p) if (A->col[p] == (ptrdiff_t)i) A->val[p] = 4; }
            gs_case(*A, "rand", g, n <= 150); ilu_case(*A, "rand", g, n <= 150);
        }
        // 2-D grid (red-black like level structure) and a banded matrix
        auto P = vr::poisson2d(12, 9); gs_case(*P, "grid", g, true); ilu_case(*P, "grid", g, true);
    }
    vr::obj o; o.str("e", "End"); vr::emit(o.done());
    return 0;
}
