// C05 recorder: the iterates of the real Krylov solvers (maxiter = k) against
//   tiny  - the exact-rational definitions of spec/KrylovRef.tla on every small integer system
//           (same enumeration as KrylovProgModel: n = 2, |a| <= AMax, FSet, XSet, PSet);
//           x_k is logged as a reconstructed rational p/q plus the reconstruction error
//   ref   - an independent dense long-double reference implementation (textbook CG, BiCGStab
//           (van der Vorst, explicitly preconditioned operator), GMRES(M) both sides, FGMRES,
//           LGMRES first cycle, Richardson formula) on random well-conditioned dense systems,
//           real symmetric / non-symmetric and complex Hermitian / non-Hermitian, n <= 60
//   prop  - defining properties: CG = A-norm minimiser (Galerkin orthogonality), GMRES family =
//           residual minimiser (dense least squares, Eigen, long double) and monotone reported
//           residual, termination within n (+ n/s) iterations with identity / exact preconditioner
// The solvers are the real class templates amgcl::solver::X<Backend> called as S(A, P, rhs, x) with a
// user-defined dense preconditioner P (documented extension point: anything with apply()).
#include "vrec.hpp"
#include <amgcl/backend/builtin.hpp>
#include <amgcl/value_type/complex.hpp>
#include <amgcl/adapter/crs_tuple.hpp>
#include <amgcl/solver/cg.hpp>
#include <amgcl/solver/bicgstab.hpp>
#include <amgcl/solver/bicgstabl.hpp>
#include <amgcl/solver/gmres.hpp>
#include <amgcl/solver/fgmres.hpp>
#include <amgcl/solver/lgmres.hpp>
#include <amgcl/solver/idrs.hpp>
#include <amgcl/solver/richardson.hpp>
#include <Eigen/Dense>
#include <complex>
#include <functional>

typedef long double ld;
template <class T> struct wide { typedef ld type; };
template <> struct wide<std::complex<double>> { typedef std::complex<ld> type; };
inline ld conjv(ld x) { return x; }
inline std::complex<ld> conjv(std::complex<ld> x) { return std::conj(x); }
inline double narrow(ld x) { return (double)x; }
inline std::complex<double> narrow(std::complex<ld> x) { return std::complex<double>((double)x.real(), (double)x.imag()); }
inline ld absv(ld x) { return std::fabs(x); }
inline ld absv(std::complex<ld> x) { return std::abs(x); }

static const long MDMIN = -40000;
static long md(ld v) {
    if (!(v > 0)) return MDMIN;
    if (!std::isfinite((double)v)) return 40000;
    ld q = std::floor(1000.0L * std::log10(v) + 0.5L);
    return q < MDMIN ? MDMIN : q > 40000 ? 40000 : (long)q;
}

// ------------------------------------------------------------------ dense algebra (long double)
template <class S> struct dmat {
    int n; std::vector<S> a;
    dmat(int n = 0) : n(n), a((size_t)n * n, S(0)) {}
    S &operator()(int i, int j) { return a[(size_t)i * n + j]; }
    const S &operator()(int i, int j) const { return a[(size_t)i * n + j]; }
};
template <class S> std::vector<S> mul(const dmat<S> &A, const std::vector<S> &x) {
    std::vector<S> y(A.n, S(0));
    for (int i = 0; i < A.n; ++i) { S s(0); for (int j = 0; j < A.n; ++j) s += A(i, j) * x[j]; y[i] = s; }
    return y;
}
template <class S> dmat<S> mul(const dmat<S> &A, const dmat<S> &B) {
    dmat<S> C(A.n);
    for (int i = 0; i < A.n; ++i) for (int k = 0; k < A.n; ++k) { S a = A(i, k); for (int j = 0; j < A.n; ++j) C(i, j) += a * B(k, j); }
    return C;
}
template <class S> S dot(const std::vector<S> &x, const std::vector<S> &y) {   // y^H x  (amgcl: sum x_i conj(y_i))
    S s(0); for (size_t i = 0; i < x.size(); ++i) s += x[i] * conjv(y[i]); return s;
}
template <class S> ld nrm(const std::vector<S> &x) { ld s = 0; for (auto &v : x) s += absv(v) * absv(v); return std::sqrt(s); }
template <class S> std::vector<S> axpy(S a, const std::vector<S> &x, const std::vector<S> &y) {
    std::vector<S> z(y); for (size_t i = 0; i < x.size(); ++i) z[i] += a * x[i]; return z;
}
template <class S> std::vector<S> sub(const std::vector<S> &x, const std::vector<S> &y) { return axpy(S(-1), y, x); }

template <class S> using EMat = Eigen::Matrix<S, Eigen::Dynamic, Eigen::Dynamic>;
template <class S> using EVec = Eigen::Matrix<S, Eigen::Dynamic, 1>;
template <class S> EMat<S> to_eigen(const dmat<S> &A) { EMat<S> M(A.n, A.n); for (int i = 0; i < A.n; ++i) for (int j = 0; j < A.n; ++j) M(i, j) = A(i, j); return M; }
template <class S> EVec<S> to_eigen(const std::vector<S> &v) { EVec<S> e(v.size()); for (size_t i = 0; i < v.size(); ++i) e(i) = v[i]; return e; }
template <class S> std::vector<S> from_eigen(const EVec<S> &e) { std::vector<S> v(e.size()); for (int i = 0; i < e.size(); ++i) v[i] = e(i); return v; }
template <class S> std::vector<S> dense_solve(const dmat<S> &A, const std::vector<S> &b) {
    EVec<S> x = to_eigen(A).fullPivLu().solve(to_eigen(b)); return from_eigen<S>(x);
}
template <class S> dmat<S> dense_inverse(const dmat<S> &A) {
    EMat<S> I = to_eigen(A).fullPivLu().inverse(); dmat<S> R(A.n);
    for (int i = 0; i < A.n; ++i) for (int j = 0; j < A.n; ++j) R(i, j) = I(i, j); return R;
}
template <class S> ld cond2(const dmat<S> &A) {
    Eigen::JacobiSVD<EMat<S>> svd(to_eigen(A)); auto sv = svd.singularValues();
    return (ld)sv(0) / (ld)sv(sv.size() - 1);
}

// ------------------------------------------------------------------ problem
template <class T> struct problem {
    typedef typename wide<T>::type W;
    int n; dmat<W> A, P; bool identityP;
    std::vector<W> f, x0, xstar;
    std::vector<ptrdiff_t> ptr, col; std::vector<T> val;   // A as CRS in working precision
    std::vector<T> fd, x0d, Pd;
    // variable preconditioner (FGMRES only): the c-th application of a solve is  z = D_c (P v)  with the
    // diagonal scaling D_c = vscale[c]; deterministic, different on every application
    bool variableP = false;
    std::vector<std::vector<T>> vscale;
    mutable const amgcl::backend::crs<T> *alt = 0;     // if set: the system matrix the next calls are made with

    void make_variable(int napply) {
        variableP = true; vscale.assign(napply, std::vector<T>(n));
        for (int c = 0; c < napply; ++c) for (int i = 0; i < n; ++i) {
            double mag = 1.0 + 0.5 * std::sin(1.3 * c + 0.7 * i + 0.2), arg = 0.6 * std::sin(0.9 * c + 1.1 * i);
            vscale[c][i] = vphase(T(mag), arg);
        }
    }
    static double vphase(double m, double) { return m; }
    static std::complex<double> vphase(std::complex<double> m, double a) { return m * std::polar(1.0, a); }
    void finish() {
        ptr.assign(1, 0); col.clear(); val.clear();
        for (int i = 0; i < n; ++i) { for (int j = 0; j < n; ++j) if (A(i, j) != W(0)) { col.push_back(j); val.push_back(narrow(A(i, j))); } ptr.push_back(col.size()); }
        // the data the real solver sees is the double rounding; the reference uses exactly those numbers
        for (int i = 0; i < n; ++i) for (int j = 0; j < n; ++j) { A(i, j) = W(narrow(A(i, j))); P(i, j) = W(narrow(P(i, j))); }
        fd.resize(n); x0d.resize(n); Pd.resize((size_t)n * n);
        for (int i = 0; i < n; ++i) { fd[i] = narrow(f[i]); f[i] = W(fd[i]); x0d[i] = narrow(x0[i]); x0[i] = W(x0d[i]); }
        for (int i = 0; i < n; ++i) for (int j = 0; j < n; ++j) Pd[(size_t)i * n + j] = narrow(P(i, j));
        xstar = dense_solve(A, f);
    }
};

// dense preconditioner handed to the real solvers
template <class T> struct dprec {
    int n; const std::vector<T> *Pd; bool identity; const std::vector<std::vector<T>> *vscale = 0;
    mutable long count = 0;      // applications since the start of the current solve
    template <class V1, class V2> void apply(const V1 &rhs, V2 &&x) const {
        if (identity) { for (int i = 0; i < n; ++i) x[i] = rhs[i]; }
        else for (int i = 0; i < n; ++i) { T s(0); for (int j = 0; j < n; ++j) s += (*Pd)[(size_t)i * n + j] * rhs[j]; x[i] = s; }
        if (vscale) { const std::vector<T> &d = (*vscale)[std::min<size_t>(count, vscale->size() - 1)]; for (int i = 0; i < n; ++i) x[i] = d[i] * x[i]; }
        ++count;
    }
};

// ------------------------------------------------------------------ the real solvers
struct cfg { std::string method, side = "right"; int M = 30, L = 2, s = 4, K = 3; double damping = 1.0, delta = 0.0; };
struct result { bool ok = true; std::string exc; size_t it = 0; double rep = 0; bool finite = true; };

// One solver OBJECT, used for any number of solves: maxiter / tol are changed through the public
// member `prm` between calls, the right-hand side and the initial guess are arguments of the call.
template <class T> using solve_fn = std::function<result(int maxiter, double tol, const std::vector<T> &f, const std::vector<T> &x0, std::vector<T> &x)>;

template <class T, class Solver, class Prm, class Body>
void with_object(const problem<T> &pb, const Prm &prm, Body &&body) {
    int n = pb.n;
    amgcl::backend::crs<T> A(std::tie(n, pb.ptr, pb.col, pb.val));
    dprec<T> P{pb.n, &pb.Pd, pb.identityP, pb.variableP ? &pb.vscale : 0};
    std::shared_ptr<Solver> S;
    std::string ctor_exc;
    try { S = std::make_shared<Solver>(pb.n, prm); } catch (const std::exception &e) { ctor_exc = e.what(); }
    solve_fn<T> solve = [&](int maxiter, double tol, const std::vector<T> &f, const std::vector<T> &x0, std::vector<T> &x) {
        result r;
        if (!S) { r.ok = false; r.exc = ctor_exc; return r; }
        try {
            S->prm.maxiter = maxiter; S->prm.tol = tol;
            x = x0; P.count = 0;
            std::tie(r.it, r.rep) = (*S)(pb.alt ? *pb.alt : A, P, f, x);
            for (auto &v : x) if (!std::isfinite(std::abs(v))) r.finite = false;
            if (!std::isfinite(r.rep)) r.finite = false;
        } catch (const std::exception &e) { r.ok = false; r.exc = e.what(); }
        return r;
    };
    body(solve);
}
namespace side = amgcl::preconditioner::side;
template <class T, class Body>
void with_solver(const problem<T> &pb, const cfg &c, Body &&body) {
    typedef amgcl::backend::builtin<T> B;
    side::type ps = c.side == "left" ? side::left : side::right;
    if (c.method == "cg") { typename amgcl::solver::cg<B>::params p; with_object<T, amgcl::solver::cg<B>>(pb, p, body); }
    else if (c.method == "bicgstab") { typename amgcl::solver::bicgstab<B>::params p; p.pside = ps; with_object<T, amgcl::solver::bicgstab<B>>(pb, p, body); }
    else if (c.method == "bicgstabl") { typename amgcl::solver::bicgstabl<B>::params p; p.pside = ps; p.L = c.L; p.delta = c.delta; with_object<T, amgcl::solver::bicgstabl<B>>(pb, p, body); }
    else if (c.method == "gmres") { typename amgcl::solver::gmres<B>::params p; p.pside = ps; p.M = c.M; with_object<T, amgcl::solver::gmres<B>>(pb, p, body); }
    else if (c.method == "fgmres") { typename amgcl::solver::fgmres<B>::params p; p.M = c.M; with_object<T, amgcl::solver::fgmres<B>>(pb, p, body); }
    else if (c.method == "lgmres") { typename amgcl::solver::lgmres<B>::params p; p.pside = ps; p.M = c.M; p.K = c.K; with_object<T, amgcl::solver::lgmres<B>>(pb, p, body); }
    else if (c.method == "idrs") { typename amgcl::solver::idrs<B>::params p; p.s = c.s; with_object<T, amgcl::solver::idrs<B>>(pb, p, body); }
    else if (c.method == "richardson") { typename amgcl::solver::richardson<B>::params p; p.damping = c.damping; with_object<T, amgcl::solver::richardson<B>>(pb, p, body); }
    else { solve_fn<T> bad = [](int, double, const std::vector<T> &, const std::vector<T> &, std::vector<T> &) { result r; r.ok = false; r.exc = "unknown method"; return r; }; body(bad); }
}
// a fresh object for one solve of the problem's own system
template <class T>
result run_real(const problem<T> &pb, const cfg &c, int maxiter, double tol, std::vector<T> &x) {
    result r;
    with_solver(pb, c, [&](solve_fn<T> &solve) { r = solve(maxiter, tol, pb.fd, pb.x0d, x); });
    return r;
}
// a second right-hand side / initial guess for the same matrix (object-reuse runs)
template <class T> void second_system(const problem<T> &pb, std::vector<typename wide<T>::type> &f2, std::vector<typename wide<T>::type> &x2,
                                      std::vector<T> &f2d, std::vector<T> &x2d) {
    typedef typename wide<T>::type W;
    int n = pb.n; f2.resize(n); x2.resize(n); f2d.resize(n); x2d.resize(n);
    for (int i = 0; i < n; ++i) {
        f2d[i] = narrow(pb.f[n - 1 - i] * W(0.5L) + W(0.25L + 0.125L * (i % 3)));
        x2d[i] = narrow(W(0.5L) - pb.x0[i] * W(0.75L));
        f2[i] = W(f2d[i]); x2[i] = W(x2d[i]);
    }
}

// ------------------------------------------------------------------ reference implementations (textbook)
// every function returns the iterates x_1 .. x_K; the sequence ends early when the method has
// converged exactly (later iterates equal the last one) or broken down
template <class W> using iterates = std::vector<std::vector<W>>;

// preconditioned CG (Hestenes-Stiefel; Saad, Alg. 9.1)
template <class W> iterates<W> ref_cg(const dmat<W> &A, const dmat<W> &P, const std::vector<W> &f, const std::vector<W> &x0, int K) {
    iterates<W> out; std::vector<W> x = x0, r = sub(f, mul(A, x)), z = mul(P, r), p = z;
    W rz = dot(r, z);
    for (int k = 0; k < K; ++k) {
        if (nrm(r) == 0) break;
        std::vector<W> Ap = mul(A, p);
        W alpha = rz / dot(Ap, p);
        x = axpy(alpha, p, x); r = axpy(-alpha, Ap, r);
        z = mul(P, r); W rz1 = dot(r, z); W beta = rz1 / rz; rz = rz1;
        p = axpy(beta, p, z);
        out.push_back(x);
    }
    return out;
}
// BiCGStab for B u = g from u = 0 (van der Vorst 1992), shadow residual g
template <class W> iterates<W> ref_bicgstab_plain(const dmat<W> &B, const std::vector<W> &g, int K) {
    iterates<W> out; int n = g.size();
    std::vector<W> u(n, W(0)), r = g, rh = g, p(n, W(0)), v(n, W(0));
    W rho(1), alpha(1), omega(1);
    for (int k = 0; k < K; ++k) {
        if (nrm(r) == 0) break;
        W rho1 = dot(r, rh);                       // rh^H r
        W beta = (rho1 / rho) * (alpha / omega);
        for (int i = 0; i < n; ++i) p[i] = r[i] + beta * (p[i] - omega * v[i]);
        v = mul(B, p);
        alpha = rho1 / dot(v, rh);                 // rh^H v
        std::vector<W> s = axpy(-alpha, v, r);
        u = axpy(alpha, p, u);
        if (nrm(s) == 0) { out.push_back(u); break; }
        std::vector<W> t = mul(B, s);
        omega = dot(s, t) / dot(t, t);             // t^H s / t^H t : minimises ||s - omega t||
        u = axpy(omega, s, u);
        r = axpy(-omega, t, s);
        rho = rho1;
        out.push_back(u);
    }
    return out;
}
template <class W> iterates<W> ref_bicgstab(const dmat<W> &A, const dmat<W> &P, const std::vector<W> &f, const std::vector<W> &x0, int K, bool left) {
    std::vector<W> r0 = sub(f, mul(A, x0));
    iterates<W> U = left ? ref_bicgstab_plain(mul(P, A), mul(P, r0), K) : ref_bicgstab_plain(mul(A, P), r0, K);
    iterates<W> out;
    for (auto &u : U) out.push_back(axpy(W(1), left ? u : mul(P, u), x0));
    return out;
}
// restarted GMRES(M): Arnoldi with re-orthogonalised Gram-Schmidt; the least squares problem of
// every inner step is solved through the normal form of the Hessenberg QR (Givens, long double)
template <class W> iterates<W> ref_gmres(const dmat<W> &A, const dmat<W> &P, const std::vector<W> &f, const std::vector<W> &x0, int K, int M, bool left) {
    iterates<W> out; int n = f.size();
    dmat<W> B = left ? mul(P, A) : mul(A, P);
    std::vector<W> x = x0;
    while ((int)out.size() < K) {
        std::vector<W> r0 = sub(f, mul(A, x));
        std::vector<W> g = left ? mul(P, r0) : r0;
        ld beta = nrm(g);
        if (beta == 0) break;
        int m = std::min(M, K - (int)out.size());
        std::vector<std::vector<W>> V(1, g); for (auto &v : V[0]) v /= W(beta);
        std::vector<std::vector<W>> H(m, std::vector<W>(m + 1, W(0)));   // H[j][i] = h(i, j)
        std::vector<W> xc = x;
        for (int j = 0; j < m; ++j) {
            std::vector<W> w = mul(B, V[j]);
            for (int pass = 0; pass < 2; ++pass)
                for (int i = 0; i <= j; ++i) { W h = dot(w, V[i]); H[j][i] += h; w = axpy(-h, V[i], w); }
            ld hn = nrm(w); H[j][j + 1] = W(hn);
            bool lucky = hn < 1e-25L * beta;
            if (!lucky) { for (auto &v : w) v /= W(hn); }
            V.push_back(w);
            // least squares with the (j+2) x (j+1) Hessenberg matrix: Eigen QR in long double
            EMat<W> Hm = EMat<W>::Zero(j + 2, j + 1);
            for (int c = 0; c <= j; ++c) for (int i = 0; i <= c + 1; ++i) Hm(i, c) = H[c][i];
            EVec<W> rhs = EVec<W>::Zero(j + 2); rhs(0) = W(beta);
            EVec<W> y = Hm.householderQr().solve(rhs);
            std::vector<W> dx(n, W(0));
            for (int c = 0; c <= j; ++c) dx = axpy(W(y(c)), V[c], dx);
            xc = axpy(W(1), left ? dx : mul(P, dx), x);
            out.push_back(xc);
            if (lucky) { while ((int)out.size() < K) out.push_back(xc); return out; }
        }
        x = xc;
    }
    return out;
}
// flexible GMRES (Saad 1993) with the variable preconditioner z_c = D_c (P v_c), c = number of the
// application since the start of the solve (continues across restarts): x = x_start + Z y, where y
// minimises || beta e1 - H y ||, A Z = V H.  AZ (optional) receives the vectors A z_c of the first cycle.
template <class W> iterates<W> ref_fgmres_var(const dmat<W> &A, const dmat<W> &P, const std::vector<std::vector<W>> &D,
        const std::vector<W> &f, const std::vector<W> &x0, int K, int M, std::vector<std::vector<W>> *AZ = 0) {
    iterates<W> out; int n = f.size();
    std::vector<W> x = x0; size_t c = 0; bool first = true;
    while ((int)out.size() < K) {
        std::vector<W> g = sub(f, mul(A, x));
        ld beta = nrm(g);
        if (beta == 0) break;
        int m = std::min(M, K - (int)out.size());
        std::vector<std::vector<W>> V(1, g), Z; for (auto &v : V[0]) v /= W(beta);
        std::vector<std::vector<W>> H(m, std::vector<W>(m + 1, W(0)));
        std::vector<W> xc = x;
        for (int j = 0; j < m; ++j, ++c) {
            std::vector<W> z = mul(P, V[j]);
            const std::vector<W> &d = D[std::min(c, D.size() - 1)];
            for (int i = 0; i < n; ++i) z[i] = d[i] * z[i];
            Z.push_back(z);
            std::vector<W> w = mul(A, z);
            if (first && AZ) AZ->push_back(w);
            for (int pass = 0; pass < 2; ++pass)
                for (int i = 0; i <= j; ++i) { W h = dot(w, V[i]); H[j][i] += h; w = axpy(-h, V[i], w); }
            ld hn = nrm(w); H[j][j + 1] = W(hn);
            bool lucky = hn < 1e-25L * beta;
            if (!lucky) for (auto &v : w) v /= W(hn);
            V.push_back(w);
            EMat<W> Hm = EMat<W>::Zero(j + 2, j + 1);
            for (int cc = 0; cc <= j; ++cc) for (int i = 0; i <= cc + 1; ++i) Hm(i, cc) = H[cc][i];
            EVec<W> rhs = EVec<W>::Zero(j + 2); rhs(0) = W(beta);
            EVec<W> y = Hm.householderQr().solve(rhs);
            xc = x; for (int cc = 0; cc <= j; ++cc) xc = axpy(W(y(cc)), Z[cc], xc);
            out.push_back(xc);
            if (lucky) { while ((int)out.size() < K) out.push_back(xc); return out; }
        }
        x = xc; first = false;
    }
    return out;
}
template <class T> std::vector<std::vector<typename wide<T>::type>> wide_scale(const problem<T> &pb) {
    typedef typename wide<T>::type W;
    std::vector<std::vector<W>> D(pb.vscale.size(), std::vector<W>(pb.n));
    for (size_t c = 0; c < D.size(); ++c) for (int i = 0; i < pb.n; ++i) D[c][i] = W(pb.vscale[c][i]);
    return D;
}
// LGMRES(M, K) (Baker, Jessup, Manteuffel 2005) as documented in lgmres.hpp: a cycle has M + K steps; its
// search vectors are first Krylov vectors (the newest Arnoldi vector), then the augmentation vectors = the
// normalised corrections dx of the last (at most K) completed cycles, oldest first; x += [P] sum y_j z_j with
// y the least-squares solution on the Hessenberg matrix.  Iterate k = the least-squares solution after k steps.
template <class W> iterates<W> ref_lgmres(const dmat<W> &A, const dmat<W> &P, const std::vector<W> &f, const std::vector<W> &x0,
        int Ktot, int M, int Kaug, bool left) {
    iterates<W> out; int n = f.size(); int Mint = M + Kaug;
    dmat<W> B = left ? mul(P, A) : mul(A, P);
    std::vector<W> x = x0;
    std::vector<std::vector<W>> ring;          // the last <= Kaug normalised corrections, oldest first
    while ((int)out.size() < Ktot) {
        std::vector<W> r0 = sub(f, mul(A, x));
        std::vector<W> g = left ? mul(P, r0) : r0;
        ld beta = nrm(g);
        if (beta == 0) break;
        int m = std::min(Mint, Ktot - (int)out.size());
        std::vector<std::vector<W>> V(1, g), Z; for (auto &v : V[0]) v /= W(beta);
        std::vector<std::vector<W>> H(m, std::vector<W>(m + 1, W(0)));
        std::vector<W> dx(n, W(0));
        for (int j = 0; j < m; ++j) {
            int nk = Mint - (int)ring.size();                       // number of Krylov steps in this cycle
            std::vector<W> z = j >= nk ? ring[j - nk] : V[j];
            Z.push_back(z);
            std::vector<W> w = mul(B, z);
            for (int pass = 0; pass < 2; ++pass)
                for (int i = 0; i <= j; ++i) { W h = dot(w, V[i]); H[j][i] += h; w = axpy(-h, V[i], w); }
            ld hn = nrm(w); H[j][j + 1] = W(hn);
            if (hn > 0) for (auto &v : w) v /= W(hn);
            V.push_back(w);
            EMat<W> Hm = EMat<W>::Zero(j + 2, j + 1);
            for (int c = 0; c <= j; ++c) for (int i = 0; i <= c + 1; ++i) Hm(i, c) = H[c][i];
            EVec<W> rhs = EVec<W>::Zero(j + 2); rhs(0) = W(beta);
            EVec<W> y = Hm.householderQr().solve(rhs);
            dx.assign(n, W(0));
            for (int c = 0; c <= j; ++c) dx = axpy(W(y(c)), Z[c], dx);
            out.push_back(axpy(W(1), left ? dx : mul(P, dx), x));
        }
        x = out.back();
        ld nd = nrm(dx);
        if (Kaug > 0 && nd > 0) { for (auto &v : dx) v /= W(nd); ring.push_back(dx); if ((int)ring.size() > Kaug) ring.erase(ring.begin()); }
    }
    return out;
}
template <class W> iterates<W> ref_richardson(const dmat<W> &A, const dmat<W> &P, const std::vector<W> &f, const std::vector<W> &x0, int K, ld omega) {
    iterates<W> out; std::vector<W> x = x0;
    for (int k = 0; k < K; ++k) { x = axpy(W(omega), mul(P, sub(f, mul(A, x))), x); out.push_back(x); }
    return out;
}

// ------------------------------------------------------------------ random well-conditioned systems
template <class W> W rnd(vr::rng &g);
template <> ld rnd<ld>(vr::rng &g) { return 2 * g.unit() - 1; }
template <> std::complex<ld> rnd<std::complex<ld>>(vr::rng &g) { ld a = 2 * g.unit() - 1, b = 2 * g.unit() - 1; return std::complex<ld>(a, b); }
template <class W> bool is_complex() { return false; }
template <> bool is_complex<std::complex<ld>>() { return true; }

// A = D + E: |E_ij| <= off / n, diagonal in [2, 4] (+ imaginary part for general complex)
template <class W> W unit_phase(vr::rng &g);
template <> ld unit_phase<ld>(vr::rng &g) { return g.coin() ? 1.0L : -1.0L; }
template <> std::complex<ld> unit_phase<std::complex<ld>>(vr::rng &g) { return std::polar((ld)1.0, (ld)(6.283185307179586L * g.unit())); }
// shape 1 ("shift"): close to a cyclic shift with unit-modulus entries (random phases / signs), a small
// diagonal 0.3 * phase and noise 0.04: cond ~ 2..3, far from diagonal dominance; the Arnoldi Hessenberg
// matrix then has |h(j+1,j)| > |h(j,j)| with an arbitrary phase / sign of h(j,j)
template <class T> problem<T> make_problem(vr::rng &g, int n, bool sym, int pkind /*0 identity 1 spd 2 general*/, ld off = 1.0L, int shape = 0) {
    typedef typename wide<T>::type W;
    problem<T> pb; pb.n = n; pb.A = dmat<W>(n); pb.P = dmat<W>(n); pb.identityP = pkind == 0;
    if (shape == 1) {
        for (int i = 0; i < n; ++i) for (int j = 0; j < n; ++j) pb.A(i, j) = rnd<W>(g) * W(0.04L);
        for (int i = 0; i < n; ++i) { pb.A((i + 1) % n, i) += unit_phase<W>(g); pb.A(i, i) += unit_phase<W>(g) * W(0.3L); }
    } else
    for (int i = 0; i < n; ++i) for (int j = (sym ? i : 0); j < n; ++j) {
        W e = rnd<W>(g) * W(off / n);
        if (i == j) { ld d = 2 + 2 * g.unit(); e = sym ? W(d) : W(d) + (is_complex<W>() ? rnd<W>(g) * W(0.5L) - W(rnd<ld>(g) * 0.5L) : W(0)); }
        pb.A(i, j) = e; if (sym && i != j) pb.A(j, i) = conjv(e);
    }
    for (int i = 0; i < n; ++i) for (int j = 0; j < n; ++j) pb.P(i, j) = W(i == j ? 1 : 0);
    if (pkind == 1) {          // Hermitian positive definite, kappa ~ 3
        for (int i = 0; i < n; ++i) for (int j = i; j < n; ++j) {
            W e = rnd<W>(g) * W(0.4L / n); if (i == j) e = W(0.4L + 0.3L * g.unit());
            pb.P(i, j) = e; if (i != j) pb.P(j, i) = conjv(e);
        }
    } else if (pkind == 2) {   // general, diagonally dominant
        for (int i = 0; i < n; ++i) for (int j = 0; j < n; ++j) pb.P(i, j) = i == j ? W(0.4L + 0.3L * g.unit()) : rnd<W>(g) * W(0.4L / n);
    }
    pb.f.resize(n); pb.x0.resize(n);
    for (int i = 0; i < n; ++i) { pb.f[i] = rnd<W>(g); pb.x0[i] = rnd<W>(g) * W(0.5L); }
    pb.finish();
    return pb;
}

// ------------------------------------------------------------------ mode ref (+ formulas)
template <class T>
void compare_with_reference(const problem<T> &pb, const cfg &c, int K, const char *vt, const char *kind, long id) {
    typedef typename wide<T>::type W;
    bool left = c.side == "left";
    iterates<W> R;
    if (c.method == "cg") R = ref_cg(pb.A, pb.P, pb.f, pb.x0, K);
    else if (c.method == "bicgstab" || c.method == "bicgstabl") R = ref_bicgstab(pb.A, pb.P, pb.f, pb.x0, K, left);
    else if (c.method == "gmres") R = ref_gmres(pb.A, pb.P, pb.f, pb.x0, K, c.M, left);
    else if (c.method == "fgmres" && pb.variableP) R = ref_fgmres_var(pb.A, pb.P, wide_scale(pb), pb.f, pb.x0, K, c.M);
    else if (c.method == "fgmres") R = ref_gmres(pb.A, pb.P, pb.f, pb.x0, K, c.M, false);
    else if (c.method == "lgmres") R = ref_lgmres(pb.A, pb.P, pb.f, pb.x0, K, c.M, c.K, left);
    else if (c.method == "richardson") R = ref_richardson(pb.A, pb.P, pb.f, pb.x0, K, (ld)c.damping);
    ld xs = nrm(pb.xstar);
    ld kap = cond2(left ? mul(pb.P, pb.A) : mul(pb.A, pb.P));
    vr::obj o;
    o.str("k", "ref").str("method", c.method).str("side", c.side).str("vt", vt).str("kind", kind).i("id", id)
     .i("n", pb.n).i("M", c.M).i("L", c.L).i("s", c.s).i("K", c.K).i("idP", pb.identityP).i("var", pb.variableP).i("delta", (long)std::lround(1000 * c.delta)).i("cond", md(kap));
    if (!R.empty()) o.i("rlast", md(nrm(sub(pb.f, mul(pb.A, R.back()))) / nrm(pb.f)));     // residual the reference run ends with
    std::vector<long> errs, its; int nexc = 0, nnan = 0; std::string exc;
    for (int k = 1; k <= (int)R.size(); ++k) {
        std::vector<T> x;
        result r = run_real(pb, c, k, 0.0, x);
        if (!r.ok) { ++nexc; exc = r.exc; break; }
        if (!r.finite) { ++nnan; break; }
        std::vector<W> d(pb.n); for (int i = 0; i < pb.n; ++i) d[i] = W(x[i]) - R[k - 1][i];
        errs.push_back(md(nrm(d) / xs)); its.push_back((long)r.it);
    }
    o.ints("err", errs).ints("it", its).i("nref", (long)R.size()).i("nexc", nexc).i("nnan", nnan);
    if (nexc) o.str("exc", exc);
    // the same comparison with ONE solver object for all k and for two systems in turn: system 1 = the
    // one above, system 2 = another right-hand side and initial guess (its own reference run)
    std::vector<W> f2, x2; std::vector<T> f2d, x2d; second_system(pb, f2, x2, f2d, x2d);
    iterates<W> R2;
    if (c.method == "cg") R2 = ref_cg(pb.A, pb.P, f2, x2, K);
    else if (c.method == "bicgstab" || c.method == "bicgstabl") R2 = ref_bicgstab(pb.A, pb.P, f2, x2, K, left);
    else if (c.method == "gmres") R2 = ref_gmres(pb.A, pb.P, f2, x2, K, c.M, left);
    else if (c.method == "fgmres" && pb.variableP) R2 = ref_fgmres_var(pb.A, pb.P, wide_scale(pb), f2, x2, K, c.M);
    else if (c.method == "fgmres") R2 = ref_gmres(pb.A, pb.P, f2, x2, K, c.M, false);
    else if (c.method == "lgmres") R2 = ref_lgmres(pb.A, pb.P, f2, x2, K, c.M, c.K, left);
    else if (c.method == "richardson") R2 = ref_richardson(pb.A, pb.P, f2, x2, K, (ld)c.damping);
    ld xs2 = nrm(dense_solve(pb.A, f2));
    std::vector<long> errA, errB; int rexc = 0, rnan = 0;
    with_solver(pb, c, [&](solve_fn<T> &solve) {
        int kk = std::min(R.size(), R2.size());
        for (int k = 1; k <= kk; ++k) {
            std::vector<T> x;
            result r = solve(k, 0.0, pb.fd, pb.x0d, x);
            if (!r.ok) { ++rexc; break; } if (!r.finite) { ++rnan; break; }
            std::vector<W> d(pb.n); for (int i = 0; i < pb.n; ++i) d[i] = W(x[i]) - R[k - 1][i];
            errA.push_back(md(nrm(d) / xs));
            r = solve(k, 0.0, f2d, x2d, x);
            if (!r.ok) { ++rexc; break; } if (!r.finite) { ++rnan; break; }
            for (int i = 0; i < pb.n; ++i) d[i] = W(x[i]) - R2[k - 1][i];
            errB.push_back(md(nrm(d) / xs2));
        }
    });
    o.ints("errA", errA).ints("errB", errB).i("nref2", (long)std::min(R.size(), R2.size())).i("rexc", rexc).i("rnan", rnan);
    vr::emit(o.done());
}

// BiCGStab(L) with reliable updates (delta > 0): refreshing the residual and flushing the accumulated
// correction into x must not change the iterates (beyond rounding): x_k(delta) against x_k(delta = 0), both
// from the real solver, for every multiple k of L
template <class T>
void compare_delta(const problem<T> &pb, const cfg &c, int K, const char *vt, const char *kind, long id) {
    typedef typename wide<T>::type W;
    bool left = c.side == "left";
    ld xs = nrm(pb.xstar), kap = cond2(left ? mul(pb.P, pb.A) : mul(pb.A, pb.P));
    cfg c0 = c; c0.delta = 0;
    std::vector<long> errs; int nexc = 0, nnan = 0;
    for (int k = c.L; k <= K; k += c.L) {
        std::vector<T> x, y;
        result r = run_real(pb, c, k, 0.0, x), r0 = run_real(pb, c0, k, 0.0, y);
        if (!r.ok || !r0.ok) { ++nexc; break; } if (!r.finite || !r0.finite) { ++nnan; break; }
        std::vector<W> d(pb.n); for (int i = 0; i < pb.n; ++i) d[i] = W(x[i]) - W(y[i]);
        errs.push_back(md(nrm(d) / xs));
    }
    vr::obj o; o.str("k", "delta").str("method", c.method).str("side", c.side).str("vt", vt).str("kind", kind).i("id", id).i("n", pb.n)
        .i("L", c.L).i("delta", (long)std::lround(1000 * c.delta)).i("idP", pb.identityP).i("cond", md(kap)).ints("err", errs)
        .i("want", (long)(K / c.L)).i("nexc", nexc).i("nnan", nnan);
    vr::emit(o.done());
}

// A call that ends with the method's OWN breakdown exception (idrs: zero M[k,k] on an all-zero operator;
// bicgstab / bicgstabl: zero rho / zero omega on a small integer system embedded in the identity, found by
// search), then the iterates x_k, k = 1..K, of the SAME object against those of fresh objects.
template <class T>
bool provoke_breakdown(const problem<T> &pb, const cfg &c, solve_fn<T> &solve, std::string &what) {
    int n = pb.n; std::vector<T> x;
    if (c.method == "idrs") {
        std::vector<ptrdiff_t> ptr(n + 1), col(n); std::vector<T> val(n, T(0));
        for (int i = 0; i <= n; ++i) ptr[i] = i; for (int i = 0; i < n; ++i) col[i] = i;
        amgcl::backend::crs<T> Z(std::tie(n, ptr, col, val));
        pb.alt = &Z; result r = solve(5, 0.0, pb.fd, pb.x0d, x); pb.alt = 0;
        what = r.exc; return !r.ok;
    }
    // 2x2 integer block (entries -2..2) in the leading corner of the identity, rhs supported on the block
    for (long code = 0; code < 625; ++code) for (int fi = 0; fi < 3; ++fi) {
        int a[4]; long cc = code; for (int i = 0; i < 4; ++i) { a[i] = (int)(cc % 5) - 2; cc /= 5; }
        if (a[0] * a[3] - a[1] * a[2] == 0) continue;
        std::vector<ptrdiff_t> ptr(1, 0), col; std::vector<T> val;
        for (int i = 0; i < n; ++i) {
            if (i < 2) { for (int j = 0; j < 2; ++j) { col.push_back(j); val.push_back(T(a[2 * i + j])); } }
            else { col.push_back(i); val.push_back(T(1)); }
            ptr.push_back(col.size());
        }
        amgcl::backend::crs<T> B(std::tie(n, ptr, col, val));
        std::vector<T> f(n, T(0)), x0(n, T(0)); f[0] = T(1); f[1] = T(fi);
        pb.alt = &B; result r = solve(4, 0.0, f, x0, x); pb.alt = 0;
        if (!r.ok && (r.exc.find("Zero") != std::string::npos || r.exc.find("breakdown") != std::string::npos)) { what = r.exc; return true; }
    }
    what = ""; return false;
}
template <class T>
void compare_after_breakdown(const problem<T> &pb, const cfg &c, int K, const char *vt, long id) {
    typedef typename wide<T>::type W;
    ld xs = nrm(pb.xstar), kap = cond2(c.side == "left" ? mul(pb.P, pb.A) : mul(pb.A, pb.P));
    std::vector<long> errs; int nexc = 0, nnan = 0; bool thrown = false; std::string what;
    int step = c.method == "bicgstabl" ? c.L : 1;
    with_solver(pb, c, [&](solve_fn<T> &solve) {
        thrown = provoke_breakdown(pb, c, solve, what);
        for (int k = step; k <= K; k += step) {
            std::vector<T> x, y;
            result r = solve(k, 0.0, pb.fd, pb.x0d, x), r0 = run_real(pb, c, k, 0.0, y);
            if (!r.ok || !r0.ok) { ++nexc; break; } if (!r.finite || !r0.finite) { ++nnan; break; }
            std::vector<W> d(pb.n); for (int i = 0; i < pb.n; ++i) d[i] = W(x[i]) - W(y[i]);
            errs.push_back(md(nrm(d) / xs));
        }
    });
    vr::obj o; o.str("k", "afterbrk").str("method", c.method).str("side", c.side).str("vt", vt).i("id", id).i("n", pb.n).i("L", c.L).i("s", c.s)
        .i("thrown", thrown).str("what", what).i("cond", md(kap)).ints("err", errs).i("want", (long)(K / step)).i("nexc", nexc).i("nnan", nnan);
    vr::emit(o.done());
}

static long g_id = 0;
template <class T> void mode_ref_type(vr::rng &g, const char *vt, int reps) {
    static const int NS[6] = {6, 12, 20, 33, 45, 60};
    for (int rep = 0; rep < reps; ++rep) for (int ni = 0; ni < 6; ++ni) for (int sym = 0; sym < 2; ++sym) {
        int n = NS[ni];
        int K = std::min(n, 14);
        for (int pk = 0; pk < (sym ? 2 : 3); ++pk) {
            problem<T> pb = make_problem<T>(g, n, sym, pk);
            const char *kind = sym ? "sym" : "nonsym";
            std::vector<cfg> cs;
            if (sym) { cfg c; c.method = "cg"; cs.push_back(c); }
            for (int sd = 0; sd < 2; ++sd) { cfg c; c.method = "bicgstab"; c.side = sd ? "left" : "right"; cs.push_back(c); }
            { cfg c; c.method = "bicgstabl"; c.L = 1; c.side = g.coin() ? "left" : "right"; cs.push_back(c); }   // BiCGStab(1) = BiCGStab
            static const int MS[3] = {1, 2, 4};
            for (int mi = 0; mi < 4; ++mi) for (int sd = 0; sd < 2; ++sd) {
                cfg c; c.method = "gmres"; c.side = sd ? "left" : "right"; c.M = mi < 3 ? MS[mi] : 30; cs.push_back(c);
            }
            for (int mi = 0; mi < 4; ++mi) { cfg c; c.method = "fgmres"; c.M = mi < 3 ? MS[mi] : 30; cs.push_back(c); }
            for (int sd = 0; sd < 2; ++sd) { cfg c; c.method = "lgmres"; c.side = sd ? "left" : "right"; c.M = g.range(2, 6); c.K = g.range(0, 3); cs.push_back(c); }
            { cfg c; c.method = "richardson"; c.damping = 0.25 * g.range(2, 4); cs.push_back(c); }
            for (auto &c : cs) {
                int k = K;
                if (c.method == "lgmres") k = std::min(K, c.M + c.K);              // first cycle only
                if (c.method == "richardson") k = 6;
                compare_with_reference(pb, c, k, vt, kind, ++g_id);
            }
        }
    }
    // shift-like systems (far from diagonal dominance): the minimal-residual family, whose Givens
    // rotations then take the |h(j+1,j)| > |h(j,j)| branch with arbitrary phase / sign
    for (int rep = 0; rep < reps; ++rep) for (int n : {6, 12, 20, 33}) for (int pk = 0; pk < 3; pk += 2) {
        problem<T> pb = make_problem<T>(g, n, false, pk, 1.0L, 1);
        int K = std::min(n, 14);
        std::vector<cfg> cs;
        static const int MS[4] = {1, 2, 4, 30};
        for (int mi = 0; mi < 4; ++mi) for (int sd = 0; sd < 2; ++sd) { cfg c; c.method = "gmres"; c.side = sd ? "left" : "right"; c.M = MS[mi]; cs.push_back(c); }
        for (int mi = 0; mi < 4; ++mi) { cfg c; c.method = "fgmres"; c.M = MS[mi]; cs.push_back(c); }
        for (int sd = 0; sd < 2; ++sd) { cfg c; c.method = "lgmres"; c.side = sd ? "left" : "right"; c.M = g.range(2, 6); c.K = g.range(0, 3); cs.push_back(c); }
        for (auto &c : cs) compare_with_reference(pb, c, c.method == "lgmres" ? std::min(K, c.M + c.K) : K, vt, "shift", ++g_id);
    }
    // LGMRES over at least K + 4 restart cycles (the augmentation ring wraps around more than once): small
    // (M, K), non-zero initial guess, slowly converging systems (larger off-diagonal part / shift-like)
    for (int rep = 0; rep < reps; ++rep) for (int shape = 0; shape < 2; ++shape) for (int pk = 0; pk < 3; pk += 2) {
        int n = shape ? 20 : 45;
        problem<T> pb = make_problem<T>(g, n, false, pk, shape ? 1.0L : 3.0L, shape);
        static const int MK[4][2] = {{1, 2}, {2, 2}, {2, 3}, {3, 2}};
        for (int q = 0; q < 4; ++q) for (int sd = 0; sd < 2; ++sd) {
            cfg c; c.method = "lgmres"; c.side = sd ? "left" : "right"; c.M = MK[q][0]; c.K = MK[q][1];
            compare_with_reference(pb, c, (c.K + 4) * (c.M + c.K) + 2, vt, shape ? "shift-long" : "nonsym-long", ++g_id);
        }
    }
    // BiCGStab(L) with reliable updates: L = 1 against the BiCGStab reference, L = 2, 4 against the delta = 0 run
    for (int rep = 0; rep < reps; ++rep) for (int n : {12, 33}) for (int pk = 0; pk < 3; pk += 2) {
        problem<T> pb = make_problem<T>(g, n, false, pk);
        static const double DL[3] = {0.01, 0.1, 0.5};
        for (int di = 0; di < 3; ++di) for (int sd = 0; sd < 2; ++sd) for (int L : {1, 2, 4}) {
            cfg c; c.method = "bicgstabl"; c.L = L; c.side = sd ? "left" : "right"; c.delta = DL[di];
            if (L == 1) compare_with_reference(pb, c, std::min(n, 14), vt, "nonsym-delta", ++g_id);
            else compare_delta(pb, c, std::min(n, 16), vt, "nonsym-delta", ++g_id);
        }
    }
    // histories: the method's own breakdown exception, then regular solves on the same object
    for (int rep = 0; rep < reps; ++rep) for (int n : {9, 20}) for (int sym = 0; sym < 2; ++sym) {
        problem<T> pb = make_problem<T>(g, n, sym, 0);
        int K = std::min(n, 12);
        for (int sI : {1, 2, 4}) { cfg c; c.method = "idrs"; c.s = sI; compare_after_breakdown(pb, c, K, vt, ++g_id); }
        for (int sd = 0; sd < 2; ++sd) { cfg c; c.method = "bicgstab"; c.side = sd ? "left" : "right"; compare_after_breakdown(pb, c, K, vt, ++g_id); }
        for (int L : {1, 2}) { cfg c; c.method = "bicgstabl"; c.L = L; c.side = (L + sym) % 2 ? "left" : "right"; compare_after_breakdown(pb, c, K, vt, ++g_id); }
    }
    // FGMRES with a VARIABLE preconditioner (a different operator on every application): the flexible
    // GMRES reference; restarts included
    for (int rep = 0; rep < reps; ++rep) for (int n : {6, 12, 20, 33}) for (int sym = 0; sym < 2; ++sym) for (int pk = 0; pk < 3; pk += 2) {
        problem<T> pb = make_problem<T>(g, n, sym, pk);
        pb.make_variable(40);
        int K = std::min(n, 14);
        static const int MS[4] = {1, 2, 4, 30};
        for (int mi = 0; mi < 4; ++mi) { cfg c; c.method = "fgmres"; c.M = MS[mi]; compare_with_reference(pb, c, K, vt, sym ? "sym-varP" : "nonsym-varP", ++g_id); }
    }
}

// ------------------------------------------------------------------ mode prop
// orthonormal basis of K_k(B, g) (re-orthogonalised Gram-Schmidt); stops when the space is exhausted
template <class W> std::vector<std::vector<W>> krylov_basis(const dmat<W> &B, const std::vector<W> &g, int k) {
    std::vector<std::vector<W>> V; std::vector<W> w = g; ld g0 = nrm(g);
    for (int j = 0; j < k; ++j) {
        for (int pass = 0; pass < 2; ++pass) for (auto &v : V) { W h = dot(w, v); w = axpy(-h, v, w); }
        ld nw = nrm(w); if (nw < 1e-22L * g0) break;
        for (auto &x : w) x /= W(nw);
        V.push_back(w); w = mul(B, w);
    }
    return V;
}
template <class T> void prop_cg(const problem<T> &pb, const char *vt, long id) {
    typedef typename wide<T>::type W;
    int n = pb.n, K = std::min(n, 12);
    std::vector<W> r0 = sub(pb.f, mul(pb.A, pb.x0));
    auto V = krylov_basis(mul(pb.P, pb.A), mul(pb.P, r0), K);
    std::vector<W> e0 = sub(pb.xstar, pb.x0); ld e0A = std::sqrt(absv(dot(mul(pb.A, e0), e0)));
    cfg c; c.method = "cg";
    std::vector<long> gap, orth, its;
    for (int k = 1; k <= (int)V.size(); ++k) {
        // Galerkin system on the first k basis vectors
        EMat<W> G(k, k); EVec<W> b(k);
        for (int i = 0; i < k; ++i) { std::vector<W> Avi = mul(pb.A, V[i]); for (int j = 0; j < k; ++j) G(j, i) = dot(Avi, V[j]); b(i) = dot(r0, V[i]); }
        EVec<W> y = G.fullPivLu().solve(b);
        std::vector<W> xo = pb.x0; for (int i = 0; i < k; ++i) xo = axpy(W(y(i)), V[i], xo);
        std::vector<T> x; result r = run_real(pb, c, k, 0.0, x);
        if (!r.ok || !r.finite) break;
        std::vector<W> xw(n); for (int i = 0; i < n; ++i) xw[i] = W(x[i]);
        std::vector<W> d = sub(xw, xo);
        gap.push_back(md(std::sqrt(absv(dot(mul(pb.A, d), d))) / e0A));
        std::vector<W> rk = sub(pb.f, mul(pb.A, xw)); ld mx = 0;
        for (int i = 0; i < k; ++i) mx = std::max(mx, absv(dot(rk, V[i])));
        orth.push_back(md(mx / nrm(r0))); its.push_back((long)r.it);
    }
    vr::obj o; o.str("k", "cgopt").str("vt", vt).i("id", id).i("n", n).i("idP", pb.identityP).i("cond", md(cond2(mul(pb.P, pb.A))))
        .ints("gap", gap).ints("orth", orth).ints("it", its).i("dim", (long)V.size());
    vr::emit(o.done());
}
template <class T> void prop_minres(const problem<T> &pb, const cfg &c, const char *vt, long id) {
    typedef typename wide<T>::type W;
    int n = pb.n; bool left = c.side == "left" && c.method != "fgmres";
    int cyc = c.method == "lgmres" ? c.M + c.K : c.M;
    int K = std::min(std::min(n, 12), cyc);
    dmat<W> B = left ? mul(pb.P, pb.A) : mul(pb.A, pb.P);
    std::vector<W> r0 = sub(pb.f, mul(pb.A, pb.x0)), g = left ? mul(pb.P, r0) : r0;
    // the vectors whose span (times B, resp. directly) the residual is minimised over: an orthonormal
    // Krylov basis, or - variable preconditioner - the vectors A z_c of the flexible GMRES reference run
    std::vector<std::vector<W>> V, AZ;
    if (pb.variableP) { ref_fgmres_var(pb.A, pb.P, wide_scale(pb), pb.f, pb.x0, K, 1000, &AZ); V = AZ; }
    else V = krylov_basis(B, g, K);
    ld fn = nrm(pb.f);
    std::vector<long> gap, orth, reps, its; ld prev = -1, inc = 0; int nbad = 0;
    for (int k = 1; k <= (int)V.size(); ++k) {
        EMat<W> Wm(n, k); for (int j = 0; j < k; ++j) { std::vector<W> w = pb.variableP ? AZ[j] : mul(B, V[j]); for (int i = 0; i < n; ++i) Wm(i, j) = w[i]; }
        EVec<W> ge = to_eigen(g);
        EVec<W> y = Wm.householderQr().solve(ge);
        ld minres = (ld)(ge - Wm * y).norm();
        std::vector<T> x; result r = run_real(pb, c, k, 0.0, x);
        if (!r.ok || !r.finite) { ++nbad; break; }
        std::vector<W> xw(n); for (int i = 0; i < n; ++i) xw[i] = W(x[i]);
        std::vector<W> rk = sub(pb.f, mul(pb.A, xw)); if (left) rk = mul(pb.P, rk);
        gap.push_back(md((nrm(rk) - minres) / nrm(g)));            // excess over the optimum, relative to ||g|| (second order)
        ld mx = 0;                                                  // first-order condition: r_k orthogonal to B K_k
        for (int j = 0; j < k; ++j) { std::vector<W> w(n); for (int i = 0; i < n; ++i) w[i] = Wm(i, j); mx = std::max(mx, absv(dot(rk, w)) / nrm(w)); }
        orth.push_back(md(mx / nrm(g)));
        reps.push_back(md(r.rep)); its.push_back((long)r.it);
        if (prev > 1e-12L) inc = std::max(inc, (ld)r.rep / prev - 1);
        prev = r.rep;
    }
    vr::obj o; o.str("k", "minres").str("method", c.method).str("side", c.side).str("vt", vt).i("id", id).i("n", n).i("M", c.M).i("K", c.K)
        .i("idP", pb.identityP).i("var", pb.variableP).i("cond", md(cond2(B))).ints("gap", gap).ints("orth", orth).ints("rep", reps).ints("it", its).i("inc", md(inc)).i("nbad", nbad).i("dim", (long)V.size());
    vr::emit(o.done());
}
// termination within n (+ n/s) iterations; exact preconditioner: one iteration
template <class T> void prop_termination(const problem<T> &pb, const cfg &c, const char *vt, const char *pk, long id, int budget, bool sym, bool reuse = false) {
    typedef typename wide<T>::type W;
    std::vector<T> x; result r;
    if (!reuse) r = run_real(pb, c, budget, 1e-12, x);
    else {   // the object has solved another system (other right-hand side and guess, smaller budget) before
        std::vector<W> f2, x2; std::vector<T> f2d, x2d; second_system(pb, f2, x2, f2d, x2d);
        with_solver(pb, c, [&](solve_fn<T> &solve) { std::vector<T> y; solve(std::max(1, budget / 2), 1e-12, f2d, x2d, y); r = solve(budget, 1e-12, pb.fd, pb.x0d, x); });
    }
    vr::obj o; o.str("k", "term").str("method", c.method).str("side", c.side).str("vt", vt).str("prec", pk).i("id", id).i("n", pb.n)
        .i("L", c.L).i("s", c.s).i("M", c.M).i("budget", budget).i("sym", sym).i("reuse", reuse).i("var", pb.variableP).i("delta", (long)std::lround(1000 * c.delta)).i("cond", md(cond2(pb.A)));
    if (!r.ok) { o.str("exc", r.exc); vr::emit(o.done()); return; }
    o.i("it", (long)r.it).i("nan", !r.finite);
    if (r.finite) {
        std::vector<W> xw(pb.n); for (int i = 0; i < pb.n; ++i) xw[i] = W(x[i]);
        o.i("tru", md(nrm(sub(pb.f, mul(pb.A, xw))) / nrm(pb.f))).i("rep", md(r.rep));
        o.i("errx", md(nrm(sub(xw, pb.xstar)) / nrm(pb.xstar)));
    }
    vr::emit(o.done());
}
template <class T> void mode_prop_type(vr::rng &g, const char *vt, int reps) {
    for (int rep = 0; rep < reps; ++rep) {
        for (int n : {5, 9, 16, 30}) for (int pk = 0; pk < 2; ++pk) { problem<T> pb = make_problem<T>(g, n, true, pk); prop_cg(pb, vt, ++g_id); }
        for (int n : {5, 9, 16, 30}) for (int sym = 0; sym < 2; ++sym) for (int pk = 0; pk < 3; pk += (sym ? 1 : 2)) {
            problem<T> pb = make_problem<T>(g, n, sym, pk);
            for (int sd = 0; sd < 2; ++sd) { cfg c; c.method = "gmres"; c.side = sd ? "left" : "right"; c.M = 30; prop_minres(pb, c, vt, ++g_id); }
            { cfg c; c.method = "fgmres"; c.M = 30; prop_minres(pb, c, vt, ++g_id); }
            for (int sd = 0; sd < 2; ++sd) { cfg c; c.method = "lgmres"; c.side = sd ? "left" : "right"; c.M = g.range(3, 9); c.K = g.range(1, 3); prop_minres(pb, c, vt, ++g_id); }
        }
        // shift-like systems: residual optimality of the minimal-residual family, termination of all methods
        for (int n : {5, 9, 16}) for (int pk = 0; pk < 3; pk += 2) {
            problem<T> pb = make_problem<T>(g, n, false, pk, 1.0L, 1);
            for (int sd = 0; sd < 2; ++sd) { cfg c; c.method = "gmres"; c.side = sd ? "left" : "right"; c.M = 30; prop_minres(pb, c, vt, ++g_id); }
            { cfg c; c.method = "fgmres"; c.M = 30; prop_minres(pb, c, vt, ++g_id); }
            for (int sd = 0; sd < 2; ++sd) { cfg c; c.method = "lgmres"; c.side = sd ? "left" : "right"; c.M = g.range(3, 9); c.K = g.range(1, 3); prop_minres(pb, c, vt, ++g_id); }
        }
        // FGMRES with a variable preconditioner: residual minimal over x0 + span{z_c}, monotone reported
        // residual, solution after n steps (fresh and reused object)
        for (int n : {5, 9, 16, 12}) for (int sym = 0; sym < 2; ++sym) for (int pk = 0; pk < 3; pk += 2) {
            problem<T> pb = make_problem<T>(g, n, sym, pk, n == 12 ? 1.5L : 1.0L);
            pb.make_variable(40);
            cfg c; c.method = "fgmres"; c.M = 30;
            prop_minres(pb, c, vt, ++g_id);
            prop_termination(pb, c, vt, "variable", ++g_id, n, sym);
            prop_termination(pb, c, vt, "variable", ++g_id, n, sym, /*reuse=*/true);
        }
        // termination: spread spectrum so that convergence before n steps is not automatic
        for (int n : {4, 7, 10, 12}) for (int sym = 0; sym < 2; ++sym) {
            problem<T> pb = make_problem<T>(g, n, sym, 0, 1.5L);
            problem<T> pe = pb; pe.identityP = false; pe.P = dense_inverse(pb.A); pe.finish();
            std::vector<cfg> cs;
            if (sym) { cfg c; c.method = "cg"; cs.push_back(c); }
            for (int sd = 0; sd < 2; ++sd) { cfg c; c.method = "bicgstab"; c.side = sd ? "left" : "right"; cs.push_back(c); }
            for (int L : {1, 2, 4}) { cfg c; c.method = "bicgstabl"; c.L = L; c.side = g.coin() ? "left" : "right"; cs.push_back(c); }
            for (int sd = 0; sd < 2; ++sd) { cfg c; c.method = "gmres"; c.side = sd ? "left" : "right"; c.M = 30; cs.push_back(c); }
            { cfg c; c.method = "fgmres"; c.M = 30; cs.push_back(c); }
            { cfg c; c.method = "lgmres"; c.M = 30; c.K = 3; cs.push_back(c); }
            for (int s = 1; s <= 8; ++s) if (s <= n) { cfg c; c.method = "idrs"; c.s = s; cs.push_back(c); }
            for (auto &c : cs) {
                int budget = n;
                if (c.method == "idrs") budget = n + (n + c.s - 1) / c.s;
                if (c.method == "bicgstabl") budget = ((n + c.L - 1) / c.L) * c.L;
                prop_termination(pb, c, vt, "identity", ++g_id, budget, sym);
                prop_termination(pb, c, vt, "identity", ++g_id, budget, sym, /*reuse=*/true);
                int b1 = c.method == "bicgstabl" ? c.L : c.method == "idrs" ? 2 : 1;
                prop_termination(pe, c, vt, "exact", ++g_id, b1, sym);
            }
            { cfg c; c.method = "richardson"; prop_termination(pe, c, vt, "exact", ++g_id, 1, sym); }
            // BiCGStab(L) with reliable updates (delta > 0), identity and general dense preconditioner
            if (!sym) {
                problem<T> pg = make_problem<T>(g, n, false, 2, 1.5L);
                static const double DL[3] = {0.01, 0.1, 0.5};
                for (int di = 0; di < 3; ++di) for (int L : {1, 2, 4}) for (int sd = 0; sd < 2; ++sd) {
                    cfg c; c.method = "bicgstabl"; c.L = L; c.side = sd ? "left" : "right"; c.delta = DL[di];
                    int budget = ((n + L - 1) / L) * L;
                    prop_termination(pb, c, vt, "identity", ++g_id, budget, sym);
                    prop_termination(pg, c, vt, "general", ++g_id, budget, sym);
                    prop_termination(pg, c, vt, "general", ++g_id, budget, sym, /*reuse=*/true);
                }
            }
        }
    }
}

// ------------------------------------------------------------------ mode tiny
// best rational approximation p/q of v with q <= qmax (continued fractions)
static void rational(double v, long qmax, long &p, long &q) {
    double x = v; long p0 = 0, q0 = 1, p1 = 1, q1 = 0;
    for (int i = 0; i < 40; ++i) {
        double a = std::floor(x);
        if (std::fabs(a) > 1e9) break;
        long p2 = (long)a * p1 + p0, q2 = (long)a * q1 + q0;
        if (q2 > qmax || std::labs(p2) > 1000000000L) break;
        p0 = p1; q0 = q1; p1 = p2; q1 = q2;
        double fr = x - a; if (std::fabs(fr) < 1e-13 * std::max(1.0, std::fabs(x))) break;
        x = 1.0 / fr;
    }
    p = p1; q = q1 == 0 ? 1 : q1;
}
static void mode_tiny(int amax, int amaxcg, int kmax, bool widesets) {
    typedef double T; typedef ld W;
    const int n = 2;
    std::vector<std::vector<int>> FS = widesets ? std::vector<std::vector<int>>{{1, 0}, {1, 2}} : std::vector<std::vector<int>>{{1, 2}};
    std::vector<std::vector<int>> XS = widesets ? std::vector<std::vector<int>>{{0, 0}, {1, -1}} : std::vector<std::vector<int>>{{1, -1}};
    std::vector<std::vector<int>> PS = widesets ? std::vector<std::vector<int>>{{1, 0, 0, 1}, {1, 0, 0, 2}, {2, 1, 1, 1}} : std::vector<std::vector<int>>{{1, 0, 0, 1}, {2, 1, 1, 1}};
    struct meth { const char *name; const char *method; const char *side; int M; double damping; };
    std::vector<meth> MS = {{"cg", "cg", "right", 0, 1}, {"bicgstab.left", "bicgstab", "left", 0, 1}, {"bicgstab.right", "bicgstab", "right", 0, 1},
        {"richardson", "richardson", "right", 0, 1.0}, {"richardson.half", "richardson", "right", 0, 0.5},
        {"gmres.left.K", "gmres", "left", -1, 1}, {"gmres.right.1", "gmres", "right", 1, 1}, {"gmres.left.1", "gmres", "left", 1, 1},
        {"gmres.right.K", "gmres", "right", -1, 1}, {"fgmres.K", "fgmres", "right", -1, 1}, {"fgmres.1", "fgmres", "right", 1, 1}};
    long nsys = 0;
    for (auto &m : MS) {
        if (!widesets && (std::string(m.name) == "gmres.left.1" || std::string(m.name) == "gmres.right.K" || std::string(m.name) == "fgmres.1")) continue;
        bool iscg = std::string(m.method) == "cg";
        int am = iscg ? amaxcg : amax, w = 2 * am + 1;
        for (long code = 0; code < (long)w * w * w * w; ++code) {
            int a[4]; long c = code; for (int i = 0; i < 4; ++i) { a[i] = (int)(c % w) - am; c /= w; }
            long det = (long)a[0] * a[3] - (long)a[1] * a[2];
            if (det == 0) continue;
            if (iscg && !(a[1] == a[2] && a[0] > 0 && det > 0)) continue;
            int pidx = 0;
            for (auto &fv : FS) for (auto &xv : XS) for (auto &pv : PS) {
                ++pidx;
                // quick tier: every matrix with one of the two preconditioners (alternating); CG keeps both
                if (!widesets && !iscg && ((code + pidx) % 2)) continue;
                if (iscg && !(pv[1] == pv[2] && pv[0] > 0 && pv[0] * pv[3] - pv[1] * pv[2] > 0)) continue;
                ++nsys;
                problem<T> pb; pb.n = n; pb.A = dmat<W>(n); pb.P = dmat<W>(n);
                for (int i = 0; i < 4; ++i) { pb.A(i / 2, i % 2) = a[i]; pb.P(i / 2, i % 2) = pv[i]; }
                pb.identityP = pv[0] == 1 && pv[1] == 0 && pv[2] == 0 && pv[3] == 1;
                pb.f = {(W)fv[0], (W)fv[1]}; pb.x0 = {(W)xv[0], (W)xv[1]};
                pb.finish();
                for (int k = 1; k <= kmax; ++k) {
                    cfg cf; cf.method = m.method; cf.side = m.side; cf.M = m.M < 0 ? kmax : m.M; cf.damping = m.damping;
                    // tol = 1e-12: an exactly converged iterate (residual 0 in exact arithmetic, rounding noise in
                    // doubles) ends the iteration as it does in the rational program; every other residual of these
                    // small rational systems is far above it
                    std::vector<T> x; result r = run_real(pb, cf, k, 1e-12, x);
                    vr::obj o; o.str("k", "tiny").str("m", m.name).i("n", n).i("kk", k).i("M", cf.M);
                    o.ints("A", a, a + 4).ints("P", pv).ints("f", fv).ints("x0", xv);
                    if (!r.ok) { o.str("exc", r.exc); vr::emit(o.done()); continue; }
                    o.i("it", (long)r.it).i("nan", !r.finite);
                    if (r.finite) {
                        std::vector<long> xp(n), xq(n); ld err = 0;
                        for (int i = 0; i < n; ++i) { rational(x[i], 20000, xp[i], xq[i]); err = std::max(err, std::fabs((ld)x[i] - (ld)xp[i] / xq[i]) / std::max((ld)1, std::fabs((ld)x[i]))); }
                        o.ints("xp", xp).ints("xq", xq).i("err", md(err));
                    }
                    vr::emit(o.done());
                }
            }
        }
    }
    vr::obj o; o.str("k", "tinycount").i("systems", nsys); vr::emit(o.done());
}

int main(int argc, char **argv) {
    vr::install_terminate();
    std::string mode = argc > 1 ? argv[1] : "ref";
    uint64_t seed = vr::env_seed(); bool th = vr::thorough();
    if (mode == "tiny") mode_tiny(vr::env_int("C05_AMAX", 2), vr::env_int("C05_AMAXCG", 3), vr::env_int("C05_KMAX", 2), vr::env_int("C05_WIDE", 0));
    else if (mode == "ref") {
        std::string vt = argc > 2 ? argv[2] : "real";
        vr::rng g(seed * 7907 + (vt == "real" ? 1 : 2));
        if (vt == "real") mode_ref_type<double>(g, "real", th ? 6 : 1); else mode_ref_type<std::complex<double>>(g, "complex", th ? 6 : 1);
    } else if (mode == "prop") {
        std::string vt = argc > 2 ? argv[2] : "real";
        vr::rng g(seed * 6271 + (vt == "real" ? 3 : 4));
        if (vt == "real") mode_prop_type<double>(g, "real", th ? 12 : 3); else mode_prop_type<std::complex<double>>(g, "complex", th ? 12 : 3);
    } else { std::cerr << "unknown mode\n"; return 2; }
    vr::obj o; o.str("e", "End"); vr::emit(o.done());
    return 0;
}
