// C14 recorder (MPI): compile-time vs run-time composition of the DISTRIBUTED solver.
//   -DC14_MPI_TYPED -DPART=k -DNPARTS=n : mpi::make_solver<mpi::amg<B, mpi::coarsening::C<B>, mpi::relaxation::R<B>,
//        mpi::direct::skyline_lu<double>, mpi::partition::merge<B>>, mpi::solver::S<B>>, parameters assigned member by member
//   -DC14_MPI_RT : the same cases through runtime::mpi::{coarsening,relaxation,direct,partition,solver} wrappers
//        (property tree + type strings) and through runtime::mpi::preconditioner (class amg; class relaxation)
// Run under mpirun with 1, 2 and 3 ranks; every rank owns a strip of rows; rank 0 prints one record per
// case with iteration count, residual bits and digests of the gathered solution / preconditioner action.
// checks/C14.py joins the typed and run-time records by (triple, problem, configuration, ranks);
// C14Trace demands bitwise equality.  Covering set: all 9 relaxations, both distributed coarsenings,
// all 9 Krylov wrappers.
#include <vector>
#include <string>
namespace c14 { inline std::vector<std::string>& reported() { static std::vector<std::string> r; return r; } }
#define AMGCL_PARAM_UNKNOWN(name) c14::reported().push_back(std::string(name))
#include <mpi.h>
#include "c14_equiv.hpp"
#include <amgcl/mpi/util.hpp>
#include <amgcl/mpi/make_solver.hpp>
#include <amgcl/mpi/amg.hpp>
#include <amgcl/mpi/coarsening/aggregation.hpp>
#include <amgcl/mpi/coarsening/smoothed_aggregation.hpp>
#include <amgcl/mpi/relaxation/spai0.hpp>
#include <amgcl/mpi/relaxation/spai1.hpp>
#include <amgcl/mpi/relaxation/damped_jacobi.hpp>
#include <amgcl/mpi/relaxation/gauss_seidel.hpp>
#include <amgcl/mpi/relaxation/ilu0.hpp>
#include <amgcl/mpi/relaxation/iluk.hpp>
#include <amgcl/mpi/relaxation/ilup.hpp>
#include <amgcl/mpi/relaxation/ilut.hpp>
#include <amgcl/mpi/relaxation/chebyshev.hpp>
#include <amgcl/mpi/relaxation/as_preconditioner.hpp>
#include <amgcl/mpi/direct_solver/skyline_lu.hpp>
#include <amgcl/mpi/partition/merge.hpp>
#include <amgcl/mpi/solver/cg.hpp>
#include <amgcl/mpi/solver/bicgstab.hpp>
#include <amgcl/mpi/solver/bicgstabl.hpp>
#include <amgcl/mpi/solver/gmres.hpp>
#include <amgcl/mpi/solver/lgmres.hpp>
#include <amgcl/mpi/solver/fgmres.hpp>
#include <amgcl/mpi/solver/idrs.hpp>
#include <amgcl/mpi/solver/richardson.hpp>
#include <amgcl/mpi/solver/preonly.hpp>
#ifdef C14_MPI_RT
#include <amgcl/mpi/coarsening/runtime.hpp>
#include <amgcl/mpi/relaxation/runtime.hpp>
#include <amgcl/mpi/direct_solver/runtime.hpp>
#include <amgcl/mpi/partition/runtime.hpp>
#include <amgcl/mpi/solver/runtime.hpp>
#include <amgcl/mpi/preconditioner.hpp>
#endif
#ifndef PART
#define PART 0
#endif
#ifndef NPARTS
#define NPARTS 1
#endif
using namespace c14e;
namespace mpi = amgcl::mpi;

// X(index, solver, coarsening, relaxation)
#define C14_MPI_TRIPLES(X) \
    X(0, cg,        smoothed_aggregation, spai0)         X(1, bicgstab,   aggregation,          chebyshev)     \
    X(2, bicgstabl, smoothed_aggregation, damped_jacobi) X(3, gmres,      aggregation,          ilu0)          \
    X(4, lgmres,    smoothed_aggregation, chebyshev)     X(5, fgmres,     aggregation,          gauss_seidel)  \
    X(6, idrs,      smoothed_aggregation, iluk)          X(7, richardson, aggregation,          ilup)          \
    X(8, preonly,   smoothed_aggregation, ilut)          X(9, cg,         aggregation,          spai1)         \
    X(10, bicgstab, smoothed_aggregation, gauss_seidel)  X(11, cg,        smoothed_aggregation, chebyshev)

static int RANK = 0, NP = 1;
static MPI_Comm WORLD;

struct strip { ptrdiff_t n = 0, beg = 0; std::vector<ptrdiff_t> ptr, col; std::vector<double> val, rhs; };
static strip take(const problem &pb) {
    ptrdiff_t n = pb.A->nrows, chunk = (n + NP - 1) / NP;
    strip s; s.beg = std::min(n, chunk * RANK); ptrdiff_t end = std::min(n, chunk * (RANK + 1));
    s.n = end - s.beg; s.ptr.push_back(0);
    for (ptrdiff_t i = s.beg; i < end; ++i) {
        for (ptrdiff_t j = pb.A->ptr[i]; j < pb.A->ptr[i + 1]; ++j) { s.col.push_back(pb.A->col[j]); s.val.push_back(pb.A->val[j]); }
        s.ptr.push_back((ptrdiff_t)s.col.size());
    }
    s.rhs.assign(pb.rhs.begin() + s.beg, pb.rhs.begin() + end);
    return s;
}

// digest of a distributed vector: gathered on rank 0 in rank order
static void gather_digest(const double *x, size_t n, vr::digest &d) {
    int cnt = (int)n; std::vector<int> cnts(NP), dis(NP);
    MPI_Gather(&cnt, 1, MPI_INT, cnts.data(), 1, MPI_INT, 0, WORLD);
    int tot = 0; for (int i = 0; i < NP; ++i) { dis[i] = tot; tot += cnts[i]; }
    std::vector<double> all(RANK == 0 ? tot : 1);
    MPI_Gatherv(x, cnt, MPI_DOUBLE, all.data(), cnts.data(), dis.data(), MPI_DOUBLE, 0, WORLD);
    if (RANK == 0) d.vec(all.data(), (size_t)tot);
}

template <class Solver, class Prm> static result run_mpi(const strip &s, const Prm &prm) {
    result r; int bad = 0;
    try {
        mpi::communicator comm(WORLD);
        Solver solve(comm, std::tie(s.n, s.ptr, s.col, s.val), prm);
        std::vector<double> x(s.n, 0.0);
        size_t it; double res;
        std::tie(it, res) = solve(s.rhs, x);
        r.it = (long long)it; r.res.pod(res);
        gather_digest(x.data(), x.size(), r.x);
        amgcl::backend::numa_vector<double> f(s.rhs), y(s.n);
        for (ptrdiff_t i = 0; i < s.n; ++i) y[i] = 1.0 + 0.25 * (double)(i % 7);
        solve.precond().apply(f, y);
        gather_digest(y.data(), s.n, r.px);
        solve.precond().apply(f, y);
        gather_digest(y.data(), s.n, r.px);
        if (RANK == 0) { std::ostringstream os; os << solve.precond(); std::string t = os.str(); r.txt.bytes(t.data(), t.size()); }
        r.bytes = 0;
    } catch (const std::exception &e) { r.threw = true; r.exc = e.what(); bad = 1; }
    int anybad = 0; MPI_Allreduce(&bad, &anybad, 1, MPI_INT, MPI_MAX, WORLD);
    if (anybad && !r.threw) { r.threw = true; r.exc = "another rank threw"; }
    return r;
}

static std::vector<problem> problems;
static std::vector<strip> strips;
static std::string jl(std::vector<std::string> v) {
    std::sort(v.begin(), v.end()); v.erase(std::unique(v.begin(), v.end()), v.end());
    std::string s = "["; for (size_t i = 0; i < v.size(); ++i) { if (i) s += ","; s += "\"" + v[i] + "\""; } return s + "]"; }

template <class S, class C, class R>
static void run_case(int idx, const char *s, const char *c, const char *r, std::true_type) {
    typedef mpi::make_solver<mpi::amg<B, C, R, mpi::direct::skyline_lu<double>, mpi::partition::merge<B>>, S> Typed;
    for (int m = 0; m < (int)problems.size(); ++m) for (int cfg = 0; cfg < nconfigs(); ++cfg) {
        typename Typed::params prm; ptree t;
        configure(prm, t, cfg);
#ifdef C14_MPI_TYPED
        result a = run_mpi<Typed>(strips[m], prm);
        if (RANK == 0) { vr::obj o; o.str("k", "mtyped").i("idx", idx).str("s", s).str("c", c).str("r", r).i("mat", m).i("cfg", cfg).i("np", NP);
            a.json(o, ""); vr::emit(o.done()); }
#endif
#ifdef C14_MPI_RT
        typedef mpi::make_solver<mpi::amg<B, amgcl::runtime::mpi::coarsening::wrapper<B>, amgcl::runtime::mpi::relaxation::wrapper<B>,
                amgcl::runtime::mpi::direct::solver<double>, amgcl::runtime::mpi::partition::wrapper<B>>, amgcl::runtime::mpi::solver::wrapper<B>> RT1;
        typedef mpi::make_solver<amgcl::runtime::mpi::preconditioner<B>, amgcl::runtime::mpi::solver::wrapper<B>> RT2;
        t.put("solver.type", s); t.put("precond.coarsening.type", c); t.put("precond.relax.type", r);
        c14::reported().clear();
        result b1 = run_mpi<RT1>(strips[m], t);
        std::vector<std::string> rep = c14::reported();
        ptree t2 = t; t2.put("precond.class", "amg");
        result b2 = run_mpi<RT2>(strips[m], t2);
        if (RANK == 0) { vr::obj o; o.str("k", "mrt").i("idx", idx).str("s", s).str("c", c).str("r", r).i("mat", m).i("cfg", cfg).i("np", NP);
            b1.json(o, "_r"); b2.json(o, "_p"); o.raw("rep", jl(rep)); vr::emit(o.done()); }
#endif
    }
}
template <class S, class C, class R> static void run_case(int, const char *, const char *, const char *, std::false_type) {}

int main(int argc, char **argv) {
    MPI_Init(&argc, &argv);
    WORLD = MPI_COMM_WORLD;
    MPI_Comm_rank(WORLD, &RANK); MPI_Comm_size(WORLD, &NP);
    vr::install_terminate();
    for (int m = 0; m < 2; ++m) { problems.push_back(make_problem(m)); strips.push_back(take(problems.back())); }
#ifdef C14_MPI_RT
#define C14_SEL(i) std::true_type()
#else
#define C14_SEL(i) std::integral_constant<bool, (i % NPARTS) == PART>()
#endif
#define C14_X(i, s, c, r) run_case<mpi::solver::s<B>, mpi::coarsening::c<B>, mpi::relaxation::r<B>>(i, #s, #c, #r, C14_SEL(i));
    C14_MPI_TRIPLES(C14_X)
    if (RANK == 0) vr::emit("{\"e\":\"End\"}");
    MPI_Finalize();
    return 0;
}
