// C14 recorder (iii): every parameter structure of amgcl, instantiated for the builtin
// backend, is driven through abstract property trees by the REAL params(ptree)
// constructors; members are read back, params::get() exports, AMGCL_PARAM_UNKNOWN is
// redefined (c14_params.hpp, before any amgcl header) to record the reported keys.
// Parts: -DC14_PART_SERIAL (g++), -DC14_PART_MPI (mpicxx; parameter structures only, no
// communication).  -DC14_ONLY_ID='"id"' -DC14_ONLY_TYPE=T_id -DC14_PROBE_EXPORT is a probe translation
// unit that instantiates params::get of ONE component whose exporter did not compile on the
// pinned tree (deflated_solver before aee7805, relaxation::ilut before 44fb554); the main unit never
// instantiates those, so that a broken exporter is one attributed violation, not a build failure.
#include "c14_params.hpp"

#if defined(C14_PART_SERIAL) || defined(C14_PART_MPI)
#include <amgcl/backend/builtin.hpp>
#include <amgcl/amg.hpp>
#include <amgcl/make_solver.hpp>
#include <amgcl/deflated_solver.hpp>
#include <amgcl/solver/runtime.hpp>
#include <amgcl/coarsening/runtime.hpp>
#include <amgcl/relaxation/runtime.hpp>
#include <amgcl/relaxation/as_preconditioner.hpp>
#include <amgcl/preconditioner/cpr.hpp>
#include <amgcl/preconditioner/cpr_drs.hpp>
#include <amgcl/preconditioner/schur_pressure_correction.hpp>
#endif
#ifdef C14_PART_MPI
#include <amgcl/mpi/amg.hpp>
#include <amgcl/mpi/make_solver.hpp>
#include <amgcl/mpi/coarsening/aggregation.hpp>
#include <amgcl/mpi/coarsening/smoothed_aggregation.hpp>
#include <amgcl/mpi/coarsening/pmis.hpp>
#include <amgcl/mpi/relaxation/spai0.hpp>
#include <amgcl/mpi/relaxation/as_preconditioner.hpp>
#include <amgcl/mpi/direct_solver/skyline_lu.hpp>
#include <amgcl/mpi/partition/merge.hpp>
#include <amgcl/mpi/solver/cg.hpp>
#include <amgcl/mpi/subdomain_deflation.hpp>
#include <amgcl/mpi/cpr.hpp>
#include <amgcl/mpi/schur_pressure_correction.hpp>
#endif

#include "c14_gen.hpp"

// ---------------------------------------------------------------------------
// array parameters: transported as pointer (+ size) through the tree; hand-written per
// protocol because each component defines its own companion keys
#if defined(C14_PART_SERIAL) && !defined(C14_ONLY_ID)
static void array_record(const char *comp, const char *field, bool ok, bool threw, const std::vector<std::string> &rep, const std::string &exc) {
    vr::obj o; o.str("k", "array").str("comp", comp).str("field", field).b("ok", ok).b("threw", threw).raw("rep", c14::jlist(rep)).str("exc", exc);
    vr::emit(o.done());
}
template <class F> static void array_case(const char *comp, const char *field, F f) {
    c14::reported().clear(); bool ok = false, threw = false; std::string exc;
    try { ok = f(); } catch (const std::exception &e) { threw = true; exc = e.what(); }
    array_record(comp, field, ok, threw, c14::reported(), exc);
}
static void arrays() {
    using c14::ptree;
    array_case("cpr_drs", "weights", []() {
        std::vector<double> w = {0.5, 0.25, 4.0};
        ptree p; p.put("weights", static_cast<void*>(w.data())); p.put("weights_size", w.size());
        c14g::T_cpr_drs q(p); return q.weights == w; });
    array_case("schur_pressure_correction", "pmask", []() {
        std::vector<char> m = {1, 0, 0, 1, 1};
        ptree p; p.put("pmask", static_cast<void*>(m.data())); p.put("pmask_size", m.size());
        c14g::T_schur_pressure_correction q(p); return q.pmask == m; });
    array_case("schur_pressure_correction", "pmask_pattern", []() {
        ptree p; p.put("pmask_pattern", ">2"); p.put("pmask_size", 5);
        c14g::T_schur_pressure_correction q(p); return q.pmask == std::vector<char>({0, 0, 1, 1, 1}); });
    array_case("coarsening.nullspace", "B", []() {
        std::vector<double> b = {1, 2, 3, 4, 5, 6};
        ptree p; p.put("cols", 2); p.put("rows", 3); p.put("B", b.data());
        c14g::T_coarsening_nullspace q(p); return q.cols == 2 && q.B == b; });
    array_case("deflated_solver", "vec", []() {
        std::vector<double> z = {1, 1, 1, 1};
        ptree p; p.put("nvec", 1); p.put("vec", z.data());
        c14g::T_deflated_solver q(p); return q.nvec == 1 && q.vec == z.data(); });
}
#endif

// Defaults that depend on the environment (ilu_solve / gauss_seidel: serial = omp_get_max_threads() < 4):
// after the thread count has changed IN THIS PROCESS, importing a tree that does not set such a member
// must give what the default constructor gives NOW (family "env:<threads>"; members are read back and
// exported relative to a freshly default-constructed structure).
#include <omp.h>
template <class T> static void env_case(const char *id, int nt) {
    c14::options opt; c14::component< T > c(id, opt);           // c.dflt = T() at the current thread count
    std::string fam = "env:" + std::to_string(nt);
    { c14::plan p; c.run_tree(p, fam.c_str()); }
    { c14::plan p; for (auto &s : c.slots) if (s.ncodes >= 1 && s.name != "serial") p.set(s.path, s.name, 1); c.run_tree(p, fam.c_str()); }
}
static void env_history(const std::vector<int> &threads) {
    for (int nt : threads) {
        omp_set_num_threads(nt);
#define C14_ENV(ID, T) env_case< T >(ID, nt);
#if defined(C14_ONLY_ID)
        C14_ENV(C14_ONLY_ID, c14g::C14_ONLY_TYPE)
#elif defined(C14_PART_SERIAL)
        C14_COMPONENTS_SERIAL(C14_ENV)
#elif defined(C14_PART_MPI)
        C14_COMPONENTS_MPI(C14_ENV)
#endif
    }
}

int main(int argc, char **argv) {
    vr::install_terminate();
    if (argc > 1 && std::string(argv[1]) == "env") {
        // started with OMP_NUM_THREADS >= 4: first imports at the initial count, then cross 4 downwards and back
        int n0 = omp_get_max_threads();
        env_history({n0, 2, n0, 3});
        vr::emit("{\"e\":\"End\"}");
        return 0;
    }
    vr::rng g(vr::env_seed() * 7919 + 14);
    c14::options opt; opt.random_trees = vr::thorough() ? 160 : 20;
#define C14_RUN(ID, T) { c14::component< T > c(ID, opt); c.run(g); }
#if defined(C14_ONLY_ID)
    C14_RUN(C14_ONLY_ID, c14g::C14_ONLY_TYPE)
#elif defined(C14_PART_SERIAL)
    C14_COMPONENTS_SERIAL(C14_RUN)
    arrays();
#elif defined(C14_PART_MPI)
    C14_COMPONENTS_MPI(C14_RUN)
#endif
    // the run above imported at the initial thread count (1 under the driver): cross 4 upwards and back
    env_history({8, 1, 5, 2});
    vr::emit("{\"e\":\"End\"}");
    return 0;
}
