// C14 recorder: block-valued backend (static_matrix<double,2,2>).  The run-time coarsening
// wrapper has an extra decision here: with near-nullspace vectors it must switch to
// coarsening::as_scalar<C> (every aggregation-type coarsening), without them it uses C<Backend>
// directly.  Both branches are compared with the compile-time composition that the branch stands
// for, on the same block system, with the same parameter values ("equivb" records: iteration count,
// residual bits, solution / preconditioner-action / report-text digests, memory footprint).
#include <vector>
#include <string>
namespace c14 { inline std::vector<std::string>& reported() { static std::vector<std::string> r; return r; } }
#define AMGCL_PARAM_UNKNOWN(name) c14::reported().push_back(std::string(name))
#include "c14_equiv.hpp"
#include <amgcl/value_type/static_matrix.hpp>
#include <amgcl/adapter/block_matrix.hpp>
#include <amgcl/coarsening/as_scalar.hpp>
#include <amgcl/solver/runtime.hpp>
#include <amgcl/coarsening/runtime.hpp>
#include <amgcl/relaxation/runtime.hpp>
using namespace c14e;

typedef amgcl::static_matrix<double, 2, 2> V;
typedef amgcl::static_matrix<double, 2, 1> R;
typedef amgcl::backend::builtin<V> BB;
typedef amgcl::make_solver<amgcl::amg<BB, amgcl::runtime::coarsening::wrapper, amgcl::runtime::relaxation::wrapper>,
                           amgcl::runtime::solver::wrapper<BB>> RT;

static problem even_problem(int id) {
    vr::rng g(vr::env_seed() * 7777ull + id);
    problem p;
    int nx = 10 + 2 * g.below(3), ny = 9 + g.below(4);
    p.A = vr::poisson2d(nx, ny, 1 + g.below(2), 1 + id);
    p.rhs.resize(p.A->nrows);
    for (auto &v : p.rhs) v = g.range(-4, 4);
    p.A2 = perturbed(*p.A);
    return p;
}

template <class Solver, class Prm> static result run_block(const problem &pb, const Prm &prm) {
    result r;
    try {
        size_t nb = pb.rhs.size() / 2;
        auto Ab = amgcl::adapter::block_matrix<V>(*pb.A);
        Solver solve(Ab, prm);
        std::vector<double> x(pb.rhs.size(), 0.0);
        auto F = amgcl::make_iterator_range(reinterpret_cast<const R*>(pb.rhs.data()), reinterpret_cast<const R*>(pb.rhs.data()) + nb);
        auto X = amgcl::make_iterator_range(reinterpret_cast<R*>(x.data()), reinterpret_cast<R*>(x.data()) + nb);
        size_t it; double res;
        std::tie(it, res) = solve(F, X);
        r.it = (long long)it; r.res.pod(res); r.x.vec(x.data(), x.size());
        amgcl::backend::numa_vector<R> f(nb), y(nb);
        for (size_t i = 0; i < nb; ++i) { f[i](0) = pb.rhs[2 * i]; f[i](1) = pb.rhs[2 * i + 1]; y[i](0) = 1.0 + (double)(i % 3); y[i](1) = -2.0; }
        solve.precond().apply(f, y);
        r.px.vec(&y[0], nb);
        solve.precond().apply(f, y);
        r.px.vec(&y[0], nb);
        r.describe(solve);
        try {
            auto Ab2 = amgcl::adapter::block_matrix<V>(*pb.A2);
            solve.precond().rebuild(Ab2);
            std::vector<double> x2(pb.rhs.size(), 0.0);
            auto X2 = amgcl::make_iterator_range(reinterpret_cast<R*>(x2.data()), reinterpret_cast<R*>(x2.data()) + nb);
            std::tie(it, res) = solve(Ab2, F, X2);
            r.rit = (long long)it; r.rres.pod(res); r.rx.vec(x2.data(), x2.size());
            amgcl::backend::numa_vector<R> y2(nb);
            solve.precond().apply(f, y2);
            r.rpx.vec(&y2[0], nb);
        } catch (const std::exception &e) { r.rthrew = true; r.exc = std::string("rebuild: ") + e.what(); }
    } catch (const std::exception &e) { r.threw = true; r.exc = e.what(); }
    return r;
}

template <class Typed> static void one(const char *c, const char *r, const char *s, bool ns, const problem &pb, int m) {
    size_t n = pb.rhs.size();
    std::vector<double> Bv(2 * n);
    for (size_t i = 0; i < n; ++i) { Bv[2 * i] = (i % 2 == 0); Bv[2 * i + 1] = (i % 2 == 1); }
    typename Typed::params tp; ptree t;
    tp.precond.coarse_enough = 12; t.put("precond.coarse_enough", 12);
    tp.precond.npre = 2; t.put("precond.npre", 2);
    tp.solver.maxiter = 60; t.put("solver.maxiter", 60);
    t.put("solver.type", s); t.put("precond.coarsening.type", c); t.put("precond.relax.type", r);
    if (ns) {
        tp.precond.coarsening.nullspace.cols = 2; tp.precond.coarsening.nullspace.B = Bv;
        t.put("precond.coarsening.nullspace.cols", 2); t.put("precond.coarsening.nullspace.rows", n);
        t.put("precond.coarsening.nullspace.B", Bv.data());
    }
    c14::reported().clear();
    result a = run_block<Typed>(pb, tp);
    result b = run_block<RT>(pb, t);
    std::string rep = "["; { auto v = c14::reported(); std::sort(v.begin(), v.end()); v.erase(std::unique(v.begin(), v.end()), v.end());
        for (size_t i = 0; i < v.size(); ++i) { if (i) rep += ","; rep += "\"" + v[i] + "\""; } } rep += "]";
    vr::obj o; o.str("k", "equivb").str("c", c).str("r", r).str("s", s).b("nullspace", ns).i("mat", m);
    a.json(o, "_t"); b.json(o, "_r"); o.raw("rep", rep);
    vr::emit(o.done());
}

#define C14_BLOCK(c, r, s) \
    one<amgcl::make_solver<amgcl::amg<BB, amgcl::coarsening::c, amgcl::relaxation::r>, amgcl::solver::s<BB>>>(#c, #r, #s, false, pb, m); \
    one<amgcl::make_solver<amgcl::amg<BB, amgcl::coarsening::as_scalar<amgcl::coarsening::c>::type, amgcl::relaxation::r>, amgcl::solver::s<BB>>>(#c, #r, #s, true, pb, m);

int main() {
    vr::install_terminate();
    for (int m = 0; m < (vr::thorough() ? 3 : 1); ++m) {
        problem pb = even_problem(m);
        C14_BLOCK(aggregation, spai0, cg)
        C14_BLOCK(smoothed_aggregation, ilu0, bicgstab)
        C14_BLOCK(smoothed_aggr_emin, damped_jacobi, cg)
    }
    vr::emit("{\"e\":\"End\"}");
    return 0;
}
