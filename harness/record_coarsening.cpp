// C04 recorder: pushes the enumerated CoPatterns matrices (same bit encoding as
// spec/CoPatterns.tla) and seeded random graphs through the PUBLIC coarsening classes
//   amgcl::coarsening::plain_aggregates, pointwise_aggregates,
//   aggregation / smoothed_aggregation / smoothed_aggr_emin / ruge_stuben ::transfer_operators
// and logs input/output as integer-only ndjson.  The verdict is taken by TLC (spec/C04Trace.tla).
//
// usage: record_coarsening enum <n> <sym 0|1> <kinds> <modes> [stride]   kinds: letters of p,l,a,s,e,r
//        record_coarsening random | ns | poison
//
// Doubles that are not integers (P of smoothed aggregation / Ruge-Stuben) are logged as 40-bit
// fixed point: val = floor(v * 2^20), lo = floor((v * 2^20 - val) * 2^20)   (spec/Fix.tla).
//
// Every `new` of this process is pre-filled with g_fill (0 by default) so that memory the
// library forgets to initialise has a *deterministic* content; mode `poison` re-runs
// Ruge-Stuben with 0xFF fill in a forked child (a crash / heap overflow is reported, not fatal).
#include <vrec.hpp>
#include <amgcl/coarsening/plain_aggregates.hpp>
#include <amgcl/coarsening/pointwise_aggregates.hpp>
#include <amgcl/coarsening/aggregation.hpp>
#include <amgcl/coarsening/smoothed_aggregation.hpp>
#include <amgcl/coarsening/smoothed_aggr_emin.hpp>
#include <amgcl/coarsening/ruge_stuben.hpp>
#include <new>
#include <limits>
#include <sys/wait.h>

// ------------------------------------------------------------------ deterministic heap
static unsigned char g_fill = 0;
static const size_t HDR = 32, TAIL = 64;
static const unsigned char CANARY = 0xC5;
static void *v_alloc(size_t n) {
    unsigned char *p = (unsigned char*)std::malloc(HDR + n + TAIL);
    if (!p) throw std::bad_alloc();
    *(size_t*)p = n;
    std::memset(p + HDR, g_fill, n);
    std::memset(p + HDR + n, CANARY, TAIL);
    return p + HDR;
}
static void v_free(void *q) noexcept {
    if (!q) return;
    unsigned char *p = (unsigned char*)q - HDR;
    size_t n = *(size_t*)p;
    for (size_t i = 0; i < TAIL; ++i) if (p[HDR + n + i] != CANARY) _exit(77);   // write past the end of an array
    std::free(p);
}
void *operator new(size_t n) { return v_alloc(n); }
void *operator new[](size_t n) { return v_alloc(n); }
void operator delete(void *p) noexcept { v_free(p); }
void operator delete[](void *p) noexcept { v_free(p); }
void operator delete(void *p, size_t) noexcept { v_free(p); }
void operator delete[](void *p, size_t) noexcept { v_free(p); }

using namespace amgcl;
typedef backend::builtin<double> Backend;
typedef vr::crsd M;

// ------------------------------------------------------------------ generators (CoPatterns.tla)
static bool cbit(uint64_t mask, int k) { return (mask >> k) & 1ull; }
static int off_slot(int n, int i, int j) { return i * (n - 1) + (j < i ? j : j - 1); }
static int pair_idx(int n, int i, int j) { return i * n - (i * (i + 1)) / 2 + (j - i - 1); }
static bool pair_on(int n, bool sym, uint64_t mask, int i, int j) {
    return sym ? cbit(mask, i < j ? pair_idx(n, i, j) : pair_idx(n, j, i)) : cbit(mask, off_slot(n, i, j));
}
static int off_val(int n, bool sym, uint64_t mask, int mode, int i, int j) {
    int weak = mode % 2, sgn = (mode / 2) % 3, mag = (mode / 12) % 2;
    int big = (mag == 0 || (i + j) % 2 == 0) ? 4 : 2;
    int mg = pair_on(n, sym, mask, i, j) ? big : (weak ? 1 : 0);
    bool pos = sgn == 0 ? false : (sgn == 1 ? (i + j) % 3 == 0 : (i == 0 || j == 0));
    return pos ? mg : -mg;
}
static std::shared_ptr<M> co_mat(int n, bool sym, uint64_t mask, int mode) {
    int dg = (mode / 6) % 2;
    std::vector<std::vector<std::pair<int,double>>> rows(n);
    for (int i = 0; i < n; ++i) {
        int s = 0;
        for (int j = 0; j < n; ++j) if (j != i) s += off_val(n, sym, mask, mode, i, j);
        int d = (dg == 1 && -s > 0) ? -s : 4;
        for (int j = 0; j < n; ++j) {
            int v = j == i ? d : off_val(n, sym, mask, mode, i, j);
            if (v != 0) rows[i].push_back(std::make_pair(j, (double)v));
        }
    }
    return vr::from_rows(n, n, rows);
}
static std::shared_ptr<M> lift(const M &A, int b) {     // A (x) I_b
    std::vector<std::vector<std::pair<int,double>>> rows(A.nrows * b);
    for (size_t i = 0; i < A.nrows; ++i) for (int k = 0; k < b; ++k)
        for (ptrdiff_t p = A.ptr[i]; p < A.ptr[i+1]; ++p)
            rows[i * b + k].push_back(std::make_pair((int)(A.col[p] * b + k), A.val[p]));
    return vr::from_rows(A.nrows * b, A.ncols * b, rows);
}

// ------------------------------------------------------------------ JSON helpers
static std::string J(const M &A, vr::obj &o) { bool ex = true; std::string s = vr::crs_json(A, ex, 0); if (!ex) o.exact = false; return s; }
// matrix with non-integer values: 40-bit fixed point (val, lo); vals = false: structure only
static std::string JF(const M &A, vr::obj &o, bool vals = true) {
    vr::obj x;
    x.i("n", A.nrows).i("m", A.ncols);
    bool sane = A.ptr[0] == 0;
    for (size_t i = 0; i < A.nrows && sane; ++i) if (A.ptr[i+1] < A.ptr[i]) sane = false;
    size_t nnz = sane && A.nrows ? (size_t)A.ptr[A.nrows] : 0;
    x.ints("ptr", A.ptr, A.ptr + A.nrows + 1);
    x.ints("col", A.col, A.col + nnz);
    std::vector<long long> hi(nnz, 0), lo(nnz, 0);
    if (vals) for (size_t p = 0; p < nnz; ++p) {
        double v = A.val[p];
        if (!std::isfinite(v) || std::fabs(v) >= 500.0) { o.exact = false; continue; }
        double s = std::ldexp(v, 20), h = std::floor(s);
        hi[p] = (long long)h; lo[p] = (long long)std::floor(std::ldexp(s - h, 20));
    }
    x.ints("val", hi).ints("lo", lo);
    return x.done();
}
static void put(vr::obj &o) { if (o.exact) vr::emit(o.done()); else { vr::obj x; x.str("e", "Inexact"); vr::emit(x.done()); } }

struct eps_t { int num, den; float f() const { return (float)num / (float)den; } };
struct caseid { const char *tag; int n, sym; uint64_t mask; int mode; };
static void head(vr::obj &o, const char *k, const caseid &c, eps_t e) {
    o.str("k", k).str("tag", c.tag);
    if (c.mode >= 0) o.i("cn", c.n).b("sym", c.sym).i("mask", (long long)c.mask).i("mode", c.mode);
    o.i("en", e.num).i("ed", e.den);
}
template <class Ag> static std::string ag_json(const Ag &a, bool flags = true) {
    vr::obj x; x.i("count", (long long)a.count).ints("id", a.id);
    if (flags) { std::vector<int> s(a.strong_connection.begin(), a.strong_connection.end()); for (auto &v : s) v = v ? 1 : 0; x.ints("strong", s); }
    else x.raw("strong", "[]");
    x.b("empty", false);
    return x.done();
}
static const char *EMPTY_AG = "{\"count\":0,\"id\":[],\"strong\":[],\"empty\":true}";

// ------------------------------------------------------------------ one case per public entry point
static void c_plain(const M &A, eps_t e, const caseid &c) {
    coarsening::plain_aggregates::params prm; prm.eps_strong = e.f();
    vr::obj o; head(o, "plain", c, e); o.raw("A", J(A, o));
    try { coarsening::plain_aggregates ag(A, prm); o.raw("out", ag_json(ag)); }
    catch (const error::empty_level&) { o.raw("out", EMPTY_AG); }
    put(o);
}
static std::string pw_json(const M &A, eps_t e, int bs, int minaggr, bool flags = true) {
    coarsening::pointwise_aggregates::params prm; prm.eps_strong = e.f(); prm.block_size = bs;
    try { coarsening::pointwise_aggregates ag(A, prm, minaggr); return ag_json(ag, flags); }
    catch (const error::empty_level&) { return EMPTY_AG; }
}
// block_size b on A (x) I_b against plain aggregation of A
static void c_lift(const M &A, eps_t e, int b, const caseid &c) {
    auto Ab = lift(A, b);
    coarsening::plain_aggregates::params p1; p1.eps_strong = e.f();
    vr::obj o; head(o, "lift", c, e); o.i("bs", b).i("minaggr", 0).raw("base", J(A, o)).raw("A", J(*Ab, o));
    try { coarsening::plain_aggregates ag(A, p1); o.raw("r1", ag_json(ag)); }
    catch (const error::empty_level&) { o.raw("r1", EMPTY_AG); }
    o.raw("out", pw_json(*Ab, e, b, 0));
    put(o);
}
// general block matrix through pointwise_aggregates
static void c_pw(const M &A, eps_t e, int bs, int minaggr, const caseid &c) {
    vr::obj o; head(o, "pw", c, e); o.i("bs", bs).i("minaggr", minaggr).raw("A", J(A, o)).raw("out", pw_json(A, e, bs, minaggr));
    put(o);
}
static void c_agg(const M &A, eps_t e, int bs, const caseid &c) {
    coarsening::aggregation<Backend>::params prm; prm.aggr.eps_strong = e.f(); prm.aggr.block_size = bs;
    coarsening::aggregation<Backend> C(prm);
    vr::obj o; head(o, "agg", c, e); o.i("bs", bs).raw("A", J(A, o));
    try { auto PR = C.transfer_operators(A); o.b("empty", false).raw("P", J(*std::get<0>(PR), o)).raw("R", J(*std::get<1>(PR), o)); }
    catch (const error::empty_level&) { o.b("empty", true); }
    put(o);
}
// relax code: 0 -> relax 1 (omega = 2/3), 1 -> relax 0.75 (omega = 1/2), 2 -> relax 1.5 (omega = 1)
static const float RELAX[3] = {1.0f, 0.75f, 1.5f};
static const int   OMN[3] = {2, 1, 1}, OMD[3] = {3, 2, 1};
static void c_sa(const M &A, eps_t e, int bs, int rc, const caseid &c) {
    coarsening::smoothed_aggregation<Backend>::params prm; prm.aggr.eps_strong = e.f(); prm.aggr.block_size = bs; prm.relax = RELAX[rc];
    coarsening::smoothed_aggregation<Backend> C(prm);
    vr::obj o; head(o, "sa", c, e); o.i("bs", bs).i("on", OMN[rc]).i("od", OMD[rc]).raw("A", J(A, o)).raw("ag", pw_json(A, e, bs, 0, false));
    try { auto PR = C.transfer_operators(A); o.b("empty", false).raw("P", JF(*std::get<0>(PR), o)); }
    catch (const error::empty_level&) { o.b("empty", true); }
    put(o);
}
static void c_emin(const M &A, eps_t e, int bs, const caseid &c) {
    coarsening::smoothed_aggr_emin<Backend>::params prm; prm.aggr.eps_strong = e.f(); prm.aggr.block_size = bs;
    coarsening::smoothed_aggr_emin<Backend> C(prm);
    vr::obj o; head(o, "emin", c, e); o.i("bs", bs).raw("A", J(A, o)).raw("ag", pw_json(A, e, bs, 0, true));
    try {
        auto PR = C.transfer_operators(A);
        const M &P = *std::get<0>(PR), &R = *std::get<1>(PR);
        bool fin = true; for (size_t p = 0; p < (size_t)P.ptr[P.nrows]; ++p) if (!std::isfinite(P.val[p])) fin = false;
        o.b("empty", false).b("finite", fin).raw("P", JF(P, o, false)).raw("R", JF(R, o, false));
    } catch (const error::empty_level&) { o.b("empty", true); }
    put(o);
}
// td: 0 = no truncation, d = eps_trunc 1/d
static void rs_body(vr::obj &o, const M &A, eps_t e, int td) {
    coarsening::ruge_stuben<Backend>::params prm; prm.eps_strong = e.f(); prm.do_trunc = td != 0; prm.eps_trunc = td ? 1.0f / td : 0.2f;
    coarsening::ruge_stuben<Backend> C(prm);
    try { auto PR = C.transfer_operators(A); o.b("empty", false).raw("P", JF(*std::get<0>(PR), o)); }
    catch (const error::empty_level&) { o.b("empty", true); }
}
static void c_rs(const M &A, eps_t e, int td, const caseid &c) {
    vr::obj o; head(o, "rs", c, e); o.i("td", td).b("poison", false).b("crashed", false).raw("A", J(A, o));
    rs_body(o, A, e, td);
    put(o);
}
// the same call with every fresh allocation pre-filled with 0xFF, in a child process
static void c_rs_poison(const M &A, eps_t e, int td, const caseid &c) {
    std::cout.flush();
    pid_t pid = fork();
    if (pid == 0) {
        vr::obj o; head(o, "rs", c, e); o.i("td", td).b("poison", true).b("crashed", false).raw("A", J(A, o));
        g_fill = 0xFF;
        rs_body(o, A, e, td);
        g_fill = 0;
        put(o);
        std::cout.flush();
        _exit(0);
    }
    int st = 0; waitpid(pid, &st, 0);
    if (!(WIFEXITED(st) && WEXITSTATUS(st) == 0)) {
        vr::obj o; head(o, "rs", c, e); o.i("td", td).b("poison", true).b("crashed", true)
            .i("why", WIFSIGNALED(st) ? WTERMSIG(st) : 1000 + WEXITSTATUS(st)).raw("A", J(A, o)).b("empty", false);
        put(o);
    }
}

// ------------------------------------------------------------------ enumerated spaces
static const eps_t EPS[2] = {{1, 4}, {1, 2}};
static const int TD[3] = {0, 4, 2};
static void mode_enum(int n, bool sym, const std::string &kinds, const std::vector<int> &modes, int stride, int phase) {
    int bits = sym ? n * (n - 1) / 2 : n * (n - 1);
    uint64_t nm = 1ull << bits, cnt = 0;
    for (uint64_t mask = 0; mask < nm; ++mask) for (int mode : modes) {
        auto A = co_mat(n, sym, mask, mode);
        caseid c = {"enum", n, sym, mask, mode};
        for (int ei = 0; ei < 2; ++ei, ++cnt) {
            eps_t e = EPS[ei];
            bool pick = stride <= 1 || (int)((cnt + phase) % stride) == 0;    // expensive kinds may be thinned, cycling the knobs
            int knob = (int)((mask + mode + ei) % 3);
            bool full = stride <= 1 && n <= 2;                                 // full cross of the knobs on the tiny cases
            caseid cl = {"enumlift", n, sym, mask, -1};
            for (char k : kinds) switch (k) {
                case 'p': if (pick) c_plain(*A, e, c); break;
                case 'l': if (pick) { c_lift(*A, e, 2, c); if (n <= 3 && knob == 0) c_lift(*A, e, 3, c); } break;
                case 'a': if (pick) { c_agg(*A, e, 1, c); } break;
                case 's': if (pick) { if (full) for (int rc = 0; rc < 3; ++rc) c_sa(*A, e, 1, rc, c); else c_sa(*A, e, 1, knob, c); } break;
                case 'S': if (pick) { int b = (n <= 3 && knob == 2) ? 3 : 2; auto Ab = lift(*A, b); c_sa(*Ab, e, b, knob, cl); } break;
                case 'e': if (pick) { c_emin(*A, e, 1, c); } break;
                case 'r': if (pick) { if (full) for (int t = 0; t < 3; ++t) c_rs(*A, e, TD[t], c); else c_rs(*A, e, TD[knob], c); } break;
            }
        }
    }
}

// ------------------------------------------------------------------ random graphs
// non-symmetric: random digraph, off-diagonals +-1..3, diagonal 4..9 or sum |off| (+1)
static std::shared_ptr<M> random_digraph(vr::rng &g, int n, double dens, bool allneg) {
    std::vector<std::vector<std::pair<int,double>>> rows(n);
    for (int i = 0; i < n; ++i) {
        double s = 0; std::vector<std::pair<int,double>> off;
        for (int j = 0; j < n; ++j) if (j != i && (g.coin(dens) || j == (i + 1) % n)) {
            int v = g.range(1, 3); if (allneg || g.coin(0.8)) v = -v; off.push_back(std::make_pair(j, (double)v)); s += std::abs(v); }
        double d = g.coin() ? (double)g.range(4, 9) : s + g.range(0, 1);
        if (d <= 0) d = 4;
        bool placed = false;
        for (auto &x : off) { if (!placed && x.first > i) { rows[i].push_back(std::make_pair(i, d)); placed = true; } rows[i].push_back(x); }
        if (!placed) rows[i].push_back(std::make_pair(i, d));
    }
    return vr::from_rows(n, n, rows);
}
// block-structured matrix: random node graph, each stored block gets bs*bs random entries (some absent)
static std::shared_ptr<M> random_blocks(vr::rng &g, int nb, int bs, double dens) {
    int n = nb * bs;
    std::vector<std::vector<std::pair<int,double>>> rows(n);
    for (int I = 0; I < nb; ++I) for (int J = 0; J < nb; ++J) {
        bool on = I == J || g.coin(dens) || J == I + 1;
        if (!on) continue;
        for (int r = 0; r < bs; ++r) for (int q = 0; q < bs; ++q) {
            bool dia = I == J && r == q;
            if (!dia && !g.coin(0.7)) continue;
            int v = dia ? g.range(4, 8) : (g.coin(0.85) ? -g.range(1, 4) : g.range(1, 4));
            rows[I * bs + r].push_back(std::make_pair(J * bs + q, (double)v));
        }
    }
    return vr::from_rows(n, n, rows);
}
static void mode_random(uint64_t seed, int reps, int nmax) {
    vr::rng g(seed + 4000);
    caseid c = {"rand", 0, 0, 0, -1};
    for (int r = 0; r < reps; ++r) {
        int n = g.range(2, nmax);
        double dens = std::min(0.9, (1.5 + 3 * g.unit()) / n);
        eps_t e = EPS[g.below(2)];
        int kind = g.below(3);
        std::shared_ptr<M> A = kind == 0 ? vr::random_mmatrix(g, n, dens, 3, 0, true)                 // symmetric, zero row sums
                             : kind == 1 ? vr::random_mmatrix(g, n, dens, 3, g.range(0, 2), g.coin())  // symmetric M-matrix
                             : random_digraph(g, n, dens, g.coin());
        if (kind == 0 && g.coin(0.5)) {   // a few Dirichlet-like rows: identity row, column kept (non-symmetric) or symmetric elimination
            int i = g.below(n);
            for (ptrdiff_t p = A->ptr[i]; p < A->ptr[i+1]; ++p) if (A->col[p] != i) A->val[p] = 0; else A->val[p] = 1;
        }
        c_plain(*A, e, c); c_agg(*A, e, 1, c); c_sa(*A, e, 1, g.below(3), c); c_emin(*A, e, 1, c);
        c_rs(*A, e, TD[g.below(3)], c); c_rs(*A, e, TD[g.below(3)], c);
        // block problems: Kronecker lift and general blocks, block sizes 2 and 3
        int b = g.range(2, 3), nb = g.range(2, std::max(2, nmax / (2 * b)));
        auto B0 = kind == 2 ? random_digraph(g, nb, std::min(0.9, 2.5 / nb), true) : vr::random_mmatrix(g, nb, std::min(0.9, 2.5 / nb), 3, 0, true);
        c_lift(*B0, e, b, c);
        auto Bb = lift(*B0, b); c_sa(*Bb, e, b, g.below(3), c); c_agg(*Bb, e, b, c); c_emin(*Bb, e, b, c);
        auto G = random_blocks(g, nb, b, std::min(0.9, 2.0 / nb));
        c_pw(*G, e, b, 0, c); c_pw(*G, e, b, g.range(2, 3 * b), c); c_sa(*G, e, b, g.below(3), c); c_agg(*G, e, b, c);
    }
}

// ------------------------------------------------------------------ near-null space (class O)
typedef long double LD;
static long long quant(LD x) {               // units of 2^-40, rounded up, capped
    if (!(x == x)) return 1073741823;
    LD q = std::ceil(x * 1099511627776.0L);
    return q > 1073741823.0L ? 1073741823 : (long long)q;
}
// NaN / inf aware maximum (std::max silently drops a NaN)
static void upd(LD &m, LD v) { if (!(v == v) || std::isinf(v)) m = std::numeric_limits<LD>::infinity(); else if (v > m) m = v; }
// bmode: how the near-null space B (n x cols, row major) is chosen
//   0 generic: first column constant, others random (full-rank local blocks)
//   1 component-wise constants B(i,k) = [i % cols == k] (A has `cols` unknowns per node, scalar aggregation:
//     aggregates hold one component only, so the other columns vanish identically on them)
//   2 generic, but one column is zeroed on every second aggregate
//   3 linearly dependent columns: column 1 = 2 * column 0 (constant or random)
// Modes 1-3 give rank-deficient local blocks: the per-aggregate QR must still return an orthonormal Q and
// Q*R = B exactly (a zero sub-column is the identity reflector).
static void c_ns(vr::rng &g, const M &A, eps_t e, int bs, int cols, int rc, int bmode = 0) {
    const int n = A.nrows;
    caseid c = {bmode ? "nsdef" : "ns", 0, 0, 0, -1};
    vr::obj o; head(o, "ns", c, e); o.i("bs", bs).i("cols", cols).i("bmode", bmode).i("on", OMN[rc]).i("od", OMD[rc]).raw("A", J(A, o));
    coarsening::pointwise_aggregates::params ap; ap.eps_strong = e.f(); ap.block_size = bs;
    std::vector<ptrdiff_t> id; std::vector<char> strong; size_t count = 0;
    try { coarsening::pointwise_aggregates ag(A, ap, cols); id = ag.id; strong = ag.strong_connection; count = ag.count; o.raw("ag", ag_json(ag, false)); }
    catch (const error::empty_level&) { o.raw("ag", EMPTY_AG).b("empty", true); put(o); return; }
    std::vector<double> B(n * cols);
    for (int i = 0; i < n; ++i) for (int k = 0; k < cols; ++k) B[i * cols + k] = k == 0 ? 1.0 : 2 * g.unit() - 1;
    if (bmode == 1) for (int i = 0; i < n; ++i) for (int k = 0; k < cols; ++k) B[i * cols + k] = (i % cols == k) ? 1.0 : 0.0;
    if (bmode == 2) { int kz = g.below(cols); for (int i = 0; i < n; ++i) if (id[i] >= 0 && (id[i] / bs) % 2 == 0) B[i * cols + kz] = 0.0; }
    if (bmode == 3) { bool rnd = g.coin(); for (int i = 0; i < n; ++i) { if (rnd) B[i * cols] = 2 * g.unit() - 1; B[i * cols + 1] = 2 * B[i * cols]; } }
    coarsening::aggregation<Backend>::params prm; prm.aggr = ap; prm.nullspace.cols = cols; prm.nullspace.B = B;
    coarsening::aggregation<Backend> C(prm);
    coarsening::smoothed_aggregation<Backend>::params sp; sp.aggr = ap; sp.nullspace.cols = cols; sp.nullspace.B = B; sp.relax = RELAX[rc];
    coarsening::smoothed_aggregation<Backend> S(sp);
    try {
        auto PR = C.transfer_operators(A);
        const M &P = *std::get<0>(PR);
        const std::vector<double> &Bc = C.prm.nullspace.B;
        bool fin = true;
        for (size_t p = 0; p < (size_t)P.ptr[P.nrows]; ++p) if (!std::isfinite(P.val[p])) fin = false;
        for (double v : Bc) if (!std::isfinite(v)) fin = false;
        // orthonormality of the columns and reproduction of B, in long double
        std::vector<LD> G(P.ncols * P.ncols, 0.0L);
        LD repro = 0, orth = 0;
        for (int i = 0; i < n; ++i) {
            for (ptrdiff_t p = P.ptr[i]; p < P.ptr[i+1]; ++p) for (ptrdiff_t q = P.ptr[i]; q < P.ptr[i+1]; ++q)
                G[P.col[p] * P.ncols + P.col[q]] += (LD)P.val[p] * (LD)P.val[q];
            if (id[i] < 0) continue;
            for (int k = 0; k < cols; ++k) {
                LD s = 0; for (ptrdiff_t p = P.ptr[i]; p < P.ptr[i+1]; ++p) s += (LD)P.val[p] * (LD)Bc[P.col[p] * cols + k];
                upd(repro, std::fabs(s - (LD)B[i * cols + k]));
            }
        }
        for (size_t a = 0; a < P.ncols; ++a) for (size_t b = 0; b < P.ncols; ++b) upd(orth, std::fabs(G[a * P.ncols + b] - (a == b ? 1.0L : 0.0L)));
        o.b("empty", false).raw("P", JF(P, o, false)).i("bc", (long long)Bc.size()).i("orth", quant(orth)).i("repro", quant(repro));
        // smoothed aggregation with the same near-null space against (I - w D_F^-1 A_F) P_tent in long double
        auto SR = S.transfer_operators(A);
        const M &Q = *std::get<0>(SR);
        for (size_t p = 0; p < (size_t)Q.ptr[Q.nrows]; ++p) if (!std::isfinite(Q.val[p])) fin = false;
        for (double v : S.prm.nullspace.B) if (!std::isfinite(v)) fin = false;
        LD om = (LD)OMN[rc] / (LD)OMD[rc], diff = 0;
        bool shape = Q.nrows == P.nrows && Q.ncols == P.ncols;
        for (int i = 0; i < n && shape; ++i) {
            std::vector<LD> ref(P.ncols, 0.0L); std::vector<char> used(P.ncols, 0);
            LD dia = 0; for (ptrdiff_t j = A.ptr[i]; j < A.ptr[i+1]; ++j) if (A.col[j] == i || !strong[j]) dia += A.val[j];
            for (ptrdiff_t j = A.ptr[i]; j < A.ptr[i+1]; ++j) {
                ptrdiff_t ca = A.col[j];
                if (ca != i && !strong[j]) continue;
                LD va = ca == i ? 1 - om : (dia != 0 ? -om * (LD)A.val[j] / dia : 0.0L);
                for (ptrdiff_t p = P.ptr[ca]; p < P.ptr[ca+1]; ++p) { ref[P.col[p]] += va * (LD)P.val[p]; used[P.col[p]] = 1; }
            }
            for (ptrdiff_t p = Q.ptr[i]; p < Q.ptr[i+1]; ++p) { ref[Q.col[p]] -= (LD)Q.val[p]; used[Q.col[p]] = 1; }
            for (size_t k = 0; k < P.ncols; ++k) if (used[k]) upd(diff, std::fabs(ref[k]));
        }
        o.b("sashape", shape).i("sadiff", quant(diff)).b("finite", fin);
    } catch (const error::empty_level&) { o.b("empty", true); }
    put(o);
}
static void mode_ns(uint64_t seed, int reps, int nmax) {
    vr::rng g(seed + 9000);
    for (int r = 0; r < reps; ++r) {
        int bs = g.range(1, 3), cols = g.range(1, 3), nb = g.range(3, std::max(3, nmax / bs));
        eps_t e = EPS[g.below(2)];
        auto A0 = g.coin(0.7) ? vr::random_mmatrix(g, nb, std::min(0.9, (2.0 + 2 * g.unit()) / nb), 3, g.range(0, 1), true)
                              : random_digraph(g, nb, std::min(0.9, 2.5 / nb), true);
        std::shared_ptr<M> A = bs == 1 ? A0 : (g.coin() ? lift(*A0, bs) : random_blocks(g, nb, bs, std::min(0.9, 2.0 / nb)));
        c_ns(g, *A, e, bs, cols, g.below(3));
    }
    // rank-deficient local blocks (own generator stream, so the cases above do not move)
    vr::rng h(seed + 9500);
    for (int r = 0; r < reps; ++r) {
        int bmode = 1 + r % 3, cols = h.range(2, 3);
        eps_t e = EPS[h.below(2)];
        if (bmode == 1) {   // `cols` unknowns per node, decoupled (Kronecker lift) or weakly coupled, scalar aggregation
            int nb = h.range(3, std::max(3, nmax / cols));
            auto A0 = vr::random_mmatrix(h, nb, std::min(0.9, (2.0 + 2 * h.unit()) / nb), 3, h.range(0, 1), true);
            c_ns(h, *lift(*A0, cols), e, 1, cols, h.below(3), 1);
        } else {
            int bs = h.range(1, 3), nb = h.range(3, std::max(3, nmax / bs));
            auto A0 = vr::random_mmatrix(h, nb, std::min(0.9, (2.0 + 2 * h.unit()) / nb), 3, h.range(0, 1), true);
            std::shared_ptr<M> A = bs == 1 ? A0 : lift(*A0, bs);
            c_ns(h, *A, e, bs, cols, h.below(3), bmode);
        }
    }
}

// ------------------------------------------------------------------ Ruge-Stuben with recycled-heap contents
static void mode_poison(uint64_t seed, int reps) {
    // enumerated: every symmetric 4-node pattern in the modes that have positive-only rows (sgn = 2) or 1x1 systems
    const int pm[4] = {4, 5, 10, 23};
    for (uint64_t mask = 0; mask < 64; ++mask) for (int mi = 0; mi < 4; ++mi) {
        auto A = co_mat(4, true, mask, pm[mi]);
        caseid c = {"poison", 4, 1, mask, pm[mi]};
        c_rs_poison(*A, EPS[(mask + mi) % 2], TD[(mask + mi) % 3], c);
    }
    { auto A = co_mat(1, true, 0, 0); caseid c = {"poison", 1, 1, 0, 0}; c_rs_poison(*A, EPS[0], 0, c); }
    vr::rng g(seed + 12000);
    caseid c = {"poisonrand", 0, 0, 0, -1};
    for (int r = 0; r < reps; ++r) {
        int n = g.range(3, 40);
        auto A = vr::random_mmatrix(g, n, std::min(0.9, 3.0 / n), 3, 0, true);
        // flip the off-diagonals of a few rows (and the matching column entries) to positive
        for (int t = 0; t < 1 + n / 10; ++t) { int i = g.below(n);
            for (size_t a = 0; a < A->nrows; ++a) for (ptrdiff_t p = A->ptr[a]; p < A->ptr[a+1]; ++p)
                if (((int)a == i) != (A->col[p] == i)) A->val[p] = std::fabs(A->val[p]); }
        c_rs_poison(*A, EPS[g.below(2)], TD[g.below(3)], c);
    }
}

static std::vector<int> parse_modes(const std::string &s) {
    std::vector<int> m;
    if (s == "all") { for (int i = 0; i < 24; ++i) m.push_back(i); return m; }
    std::stringstream ss(s); std::string t;
    while (std::getline(ss, t, ',')) if (!t.empty()) m.push_back(atoi(t.c_str()));
    return m;
}

int main(int argc, char **argv) {
    vr::install_terminate();
    std::string mode = argc > 1 ? argv[1] : "enum";
    uint64_t seed = vr::env_seed();
    bool th = vr::thorough();
    if (mode == "enum") {
        int n = argc > 2 ? atoi(argv[2]) : 3; bool sym = argc > 3 && atoi(argv[3]);
        std::string kinds = argc > 4 ? argv[4] : "plasSer";
        std::vector<int> modes = parse_modes(argc > 5 ? argv[5] : "all");
        int stride = argc > 6 ? atoi(argv[6]) : 1;
        mode_enum(n, sym, kinds, modes, stride, (int)(seed % (uint64_t)std::max(1, stride)));
    }
    else if (mode == "random") mode_random(seed, vr::env_int("VERIF_REPS", th ? 60 : 14), vr::env_int("VERIF_NMAX", th ? 300 : 100));
    else if (mode == "ns") mode_ns(seed, vr::env_int("VERIF_REPS", th ? 400 : 60), vr::env_int("VERIF_NMAX", th ? 240 : 90));
    else if (mode == "poison") mode_poison(seed, vr::env_int("VERIF_REPS", th ? 200 : 40));
    vr::obj o; o.str("e", "End"); vr::emit(o.done());
    return 0;
}
