// X03 (extra coverage): amgcl/mpi/partition/util.hpp on every rank count mpirun gives us.
// For seeded random local sizes (empty ranks included), part vectors and integer matrices:
//   perm   graph_perm_index: the renumbering and the new row range of every rank
//   pmat   graph_perm_matrix: the distributed permutation matrix I
//   rep    I^T A I through mpi::transpose / mpi::product, as the repartitioning callers form it
//   graph  symm_graph: the symmetrised adjacency handed to the partitioner
//   merge  partition::merge: is_needed and the (identity-numbered) permutation matrix
// Everything is recorded as integers; Repartition.tla / X03Trace.tla say what is right.
#include <dist_common.hpp>
#include "pmpi_shim.c"
#include <amgcl/adapter/crs_tuple.hpp>
#include <amgcl/mpi/partition/util.hpp>
#include <amgcl/mpi/partition/merge.hpp>

using namespace amgcl;
typedef backend::builtin<double> BD;
typedef mpi::distributed_matrix<BD> DM;
using dv::ll; using dv::crsd;

static std::string triples(const crsd &A) {
    std::ostringstream s; s << "["; bool f = true;
    for (ptrdiff_t i = 0; i < (ptrdiff_t)A.nrows; ++i) for (ptrdiff_t j = A.ptr[i]; j < A.ptr[i + 1]; ++j) {
        if (!f) s << ","; f = false; s << "[" << i << "," << A.col[j] << "," << (ll)A.val[j] << "]"; }
    s << "]"; return s.str();
}

int main(int argc, char **argv) {
    dv::world w(&argc, &argv);
    mpi::communicator comm = w.comm;
    int np = comm.size, R = comm.rank;
    int reps = vr::env_int("VERIF_REPS", vr::thorough() ? 400 : 120);
    if (argc > 1 && std::string(argv[1]) == "exh") {
        // the whole input space of RepartitionModel for this rank count: every vector of local sizes 0..MaxLoc, every
        // npart <= np and every part vector (odometer over all positions), perm + pmat records only
        int maxloc = vr::env_int("VERIF_MAXLOC", 2);
        std::vector<int> sz(np, 0);
        for (;;) {
            int n = 0; for (int v : sz) n += v;
            std::vector<int> off(np + 1, 0); for (int r = 0; r < np; ++r) off[r + 1] = off[r] + sz[r];
            for (int npart = 1; npart <= np; ++npart) {
                std::vector<int> flat(n, 0);
                for (;;) {
                    std::vector<std::string> pj; for (int r = 0; r < np; ++r) pj.push_back(dv::jints(std::vector<int>(flat.begin() + off[r], flat.begin() + off[r + 1])));
                    std::vector<int> part(flat.begin() + off[R], flat.begin() + off[R + 1]);
                    std::vector<ptrdiff_t> perm; ptrdiff_t beg, end;
                    std::tie(beg, end) = mpi::partition::graph_perm_index(comm, npart, part, perm);
                    std::string permj = dv::gather_lists(std::vector<ll>(perm.begin(), perm.end()));
                    std::string rngj = dv::gather_lists(std::vector<ll>{(ll)beg, (ll)end});
                    { vr::obj o; o.str("k", "perm").i("np", np).i("npart", npart).i("style", 9).raw("parts", dv::jlist(pj)).raw("perm", permj).raw("rng", rngj); dv::emit(o.done()); }
                    bool exact = true;
                    auto I = mpi::partition::graph_perm_matrix<BD>(comm, beg, end, perm);
                    std::string Ij = dv::gather_dm(*I, n, exact);
                    { vr::obj o; o.str("k", "pmat").i("np", np).raw("perm", permj).raw("rng", rngj).raw("I", Ij).b("exact", exact)
                        .raw("sizes", dv::gather_lists(std::vector<ll>{(ll)I->loc_rows(), (ll)I->loc_cols(), (ll)I->glob_rows(), (ll)I->glob_cols()})); dv::emit(o.done()); }
                    int k = 0; while (k < n && ++flat[k] == npart) flat[k++] = 0;
                    if (k == n) break;
                }
            }
            int k = 0; while (k < np && ++sz[k] > maxloc) sz[k++] = 0;
            if (k == np) break;
        }
        vr::obj o; o.str("e", "End"); dv::emit(o.done());
        return 0;
    }
    for (int rep = 0; rep < reps; ++rep) {
        vr::rng g(vr::env_seed() * 1000003ull + rep * 977 + np * 31);       // same stream on every rank
        int maxloc = rep % 5 == 0 ? 2 : 6;
        dv::part rp(np + 1, 0);
        for (int r = 0; r < np; ++r) rp[r + 1] = rp[r] + (g.coin(0.2) ? 0 : g.range(0, maxloc));
        int n = rp[np];
        int npart = g.range(1, np);
        int style = g.below(4);     // 0 random, 1 everything to one part, 2 round robin, 3 identity-like (part = own rank when possible)
        std::vector<std::vector<int>> parts(np);
        int one = g.below(npart);
        for (int r = 0; r < np; ++r) for (int i = rp[r]; i < rp[r + 1]; ++i)
            parts[r].push_back(style == 0 ? g.below(npart) : style == 1 ? one : style == 2 ? i % npart : std::min(r, npart - 1));
        // global integer matrix (no duplicate columns, non-zero values, not symmetric)
        crsd A; A.set_size(n, n, true);
        std::vector<std::vector<std::pair<int,int>>> rows(n);
        for (int i = 0; i < n; ++i) {
            if (g.coin(0.8)) rows[i].push_back({i, g.range(1, 9)});
            int extra = g.range(0, 3);
            for (int e = 0; e < extra; ++e) { int c = g.below(n); bool dup = false; for (auto &x : rows[i]) if (x.first == c) dup = true; if (!dup) rows[i].push_back({c, g.coin() ? g.range(1, 9) : -g.range(1, 9)}); }
            if (g.coin()) std::reverse(rows[i].begin(), rows[i].end());
            A.ptr[i + 1] = rows[i].size();
        }
        A.set_nonzeros(A.scan_row_sizes());
        for (int i = 0; i < n; ++i) { ptrdiff_t h = A.ptr[i]; for (auto &x : rows[i]) { A.col[h] = x.first; A.val[h] = x.second; ++h; } }

        std::vector<ll> sizes(rp.begin(), rp.end());
        std::vector<std::string> pj; for (auto &p : parts) pj.push_back(dv::jints(p));

        // ---- graph_perm_index
        std::vector<int> part(parts[R].begin(), parts[R].end());
        std::vector<ptrdiff_t> perm;
        ptrdiff_t beg, end;
        std::tie(beg, end) = mpi::partition::graph_perm_index(comm, npart, part, perm);
        std::string permj = dv::gather_lists(std::vector<ll>(perm.begin(), perm.end()));
        std::string rngj = dv::gather_lists(std::vector<ll>{(ll)beg, (ll)end});
        { vr::obj o; o.str("k", "perm").i("np", np).i("npart", npart).i("style", style).raw("parts", dv::jlist(pj)).raw("perm", permj).raw("rng", rngj); dv::emit(o.done()); }

        // ---- graph_perm_matrix
        bool exact = true;
        auto I = mpi::partition::graph_perm_matrix<BD>(comm, beg, end, perm);
        std::string Ij = dv::gather_dm(*I, n, exact);
        { vr::obj o; o.str("k", "pmat").i("np", np).raw("perm", permj).raw("rng", rngj).raw("I", Ij).b("exact", exact)
            .raw("sizes", dv::gather_lists(std::vector<ll>{(ll)I->loc_rows(), (ll)I->loc_cols(), (ll)I->glob_rows(), (ll)I->glob_cols()})); dv::emit(o.done()); }

        // ---- I^T A I
        dv::strip s = dv::take_rows(A, rp[R], rp[R + 1]);
        auto D = std::make_shared<DM>(comm, std::tie(s.n, s.ptr, s.col, s.val), (ptrdiff_t)(rp[R + 1] - rp[R]));
        {
            std::vector<ptrdiff_t> gp; std::vector<ptrdiff_t> gc;
            mpi::partition::symm_graph(*D, gp, gc);
            std::vector<ll> pk; pk.push_back(gp.size()); pk.insert(pk.end(), gp.begin(), gp.end()); pk.insert(pk.end(), gc.begin(), gc.begin() + (gp.empty() ? 0 : gp.back()));
            pk.push_back((ll)gc.size());
            vr::obj o; o.str("k", "graph").i("np", np).ints("rp", sizes).raw("A", triples(A)).raw("g", dv::gather_lists(pk)); dv::emit(o.done());
        }
        auto B = mpi::product(*mpi::transpose(*I), *mpi::product(*D, *I));
        exact = true;
        std::string Bj = dv::gather_dm(*B, n, exact);
        { vr::obj o; o.str("k", "rep").i("np", np).i("n", n).ints("rp", sizes).raw("parts", dv::jlist(pj)).raw("perm", permj).raw("rng", rngj).raw("A", triples(A)).raw("B", Bj).b("exact", exact)
            .raw("sizes", dv::gather_lists(std::vector<ll>{(ll)B->loc_rows(), (ll)B->loc_cols(), (ll)B->glob_rows(), (ll)B->glob_cols()})); dv::emit(o.done()); }

        // ---- merge
        {
            mpi::partition::merge<BD>::params mp;
            mp.min_per_proc = g.range(0, 6); mp.shrink_ratio = g.range(1, 4); mp.enable = !g.coin(0.1);
            mpi::partition::merge<BD> M(mp);
            bool need = M.is_needed(*D);
            auto J = M(*D);
            exact = true;
            std::string Jj = dv::gather_dm(*J, n, exact);
            vr::obj o; o.str("k", "merge").i("np", np).ints("rp", sizes).i("minpp", mp.min_per_proc).i("shrink", mp.shrink_ratio).b("enable", mp.enable)
                .raw("need", dv::gather_lists(std::vector<ll>{need ? 1 : 0})).raw("I", Jj).b("exact", exact)
                .raw("sizes", dv::gather_lists(std::vector<ll>{(ll)J->loc_rows(), (ll)J->loc_cols(), (ll)J->glob_rows(), (ll)J->glob_cols()})); dv::emit(o.done());
        }
    }
    { vr::obj o; o.str("e", "End"); dv::emit(o.done()); }
    return 0;
}
