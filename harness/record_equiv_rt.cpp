// C14 recorder: RUN-TIME compositions and the run-time wrappers' own tables.
//  * "rt"     for every triple of the covering set (c14_equiv.hpp), every problem and configuration:
//             make_solver<amg<B, runtime::coarsening::wrapper, runtime::relaxation::wrapper>,
//             runtime::solver::wrapper<B>> configured by the property tree alone (+ the three "type"
//             keys), and the same through runtime::preconditioner (class = amg)  ["rt2"]
//  * "equivp" runtime::preconditioner classes relaxation / dummy / nested against the C++ types
//  * "enum"   operator<< / operator>> of the four enumerations, value by value
//  * "badtype" invalid enumeration strings at every "type" / "class" key must throw
//  * "unkrt"  one unknown key at each nesting level of the run-time composition must reach
//             AMGCL_PARAM_UNKNOWN (redefined below, before any amgcl header)
#include <vector>
#include <string>
namespace c14 { inline std::vector<std::string>& reported() { static std::vector<std::string> r; return r; } }
#define AMGCL_PARAM_UNKNOWN(name) c14::reported().push_back(std::string(name))
#include "c14_equiv.hpp"
#include <amgcl/solver/runtime.hpp>
#include <amgcl/coarsening/runtime.hpp>
#include <amgcl/relaxation/runtime.hpp>
#include <amgcl/preconditioner/runtime.hpp>
#include <amgcl/relaxation/as_preconditioner.hpp>
#include <amgcl/preconditioner/dummy.hpp>
using namespace c14e;

typedef amgcl::amg<B, amgcl::runtime::coarsening::wrapper, amgcl::runtime::relaxation::wrapper> RAMG;
typedef amgcl::runtime::solver::wrapper<B> RSolver;
typedef amgcl::make_solver<RAMG, RSolver> RT1;
typedef amgcl::make_solver<amgcl::runtime::preconditioner<B>, RSolver> RT2;

static std::vector<problem> problems;

static std::string jl(std::vector<std::string> v) {
    std::sort(v.begin(), v.end()); v.erase(std::unique(v.begin(), v.end()), v.end());
    std::string s = "["; for (size_t i = 0; i < v.size(); ++i) { if (i) s += ","; s += "\"" + v[i] + "\""; } return s + "]"; }

template <class S, template <class> class C, template <class> class R>
void run_rt(int idx, const char *s, const char *c, const char *r) {
    typedef amgcl::make_solver<amgcl::amg<B, C, R>, S> Typed;   // parameter structure only
    for (int m = 0; m < (int)problems.size(); ++m) for (int cfg = 0; cfg < nconfigs(); ++cfg) {
        typename Typed::params prm; ptree t;
        configure(prm, t, cfg);
        t.put("solver.type", s); t.put("precond.coarsening.type", c); t.put("precond.relax.type", r);
        c14::reported().clear();
        result r1 = run_solver<RT1>(problems[m], t);
        std::vector<std::string> rep = c14::reported();
        ptree t2 = t; t2.put("precond.class", "amg");
        result r2 = run_solver<RT2>(problems[m], t2);
        vr::obj o; o.str("k", "rt").i("idx", idx).str("s", s).str("c", c).str("r", r).i("mat", m).i("cfg", cfg);
        r1.json(o, "_r"); r2.json(o, "_p"); o.raw("rep", jl(rep));
        vr::emit(o.done());
    }
}

// ---------------------------------------------------------------- preconditioner classes
template <class P, class Prm> static result apply_only(const problem &pb, const Prm &prm) {
    result r;
    try {
        P p(*pb.A, prm);
        // repeated apply() into vectors pre-filled with different junk: the result must not depend on it
        amgcl::backend::numa_vector<double> f(pb.rhs), y(pb.rhs.size()), z(pb.rhs.size());
        for (size_t i = 0; i < pb.rhs.size(); ++i) { y[i] = 1.0 + 0.25 * (double)(i % 7); z[i] = -3.0 + (double)(i % 5); }
        p.apply(f, y); r.px.vec(y.data(), y.size());
        p.apply(f, z); r.px.vec(z.data(), z.size());
        p.apply(f, y); r.px.vec(y.data(), y.size()); r.it = 0;
        r.describe(p);
    } catch (const std::exception &e) { r.threw = true; r.exc = e.what(); }
    return r;
}
template <class Typed> static void precond_class(const char *cls, const char *what, ptree t, const typename Typed::params &tp) {
    for (int m = 0; m < (int)problems.size(); ++m) {
        result a = apply_only<Typed>(problems[m], tp);
        ptree rt = t; rt.put("class", cls);
        result b = apply_only<amgcl::runtime::preconditioner<B>>(problems[m], rt);
        vr::obj o; o.str("k", "equivp").str("cls", cls).str("what", what).i("mat", m);
        a.json(o, "_t"); b.json(o, "_r");
        vr::emit(o.done());
    }
}
static void precond_classes() {
    {   typedef amgcl::relaxation::as_preconditioner<B, amgcl::relaxation::ilu0> T; T::params p; p.damping = 0.875;
        ptree t; t.put("type", "ilu0"); t.put("damping", 0.875); precond_class<T>("relaxation", "ilu0", t, p); }
    {   typedef amgcl::relaxation::as_preconditioner<B, amgcl::relaxation::damped_jacobi> T; T::params p; p.damping = 0.625;
        ptree t; t.put("type", "damped_jacobi"); t.put("damping", 0.625); precond_class<T>("relaxation", "damped_jacobi", t, p); }
    {   typedef amgcl::relaxation::as_preconditioner<B, amgcl::relaxation::spai0> T; T::params p;
        ptree t; precond_class<T>("relaxation", "spai0(default)", t, p); }
#define C14_RELAX_DEFAULT(r) { typedef amgcl::relaxation::as_preconditioner<B, amgcl::relaxation::r> T; T::params p; \
        ptree t; t.put("type", #r); precond_class<T>("relaxation", #r, t, p); }
    C14_RELAX_DEFAULT(gauss_seidel) C14_RELAX_DEFAULT(iluk) C14_RELAX_DEFAULT(ilup) C14_RELAX_DEFAULT(ilut)
    C14_RELAX_DEFAULT(spai1) C14_RELAX_DEFAULT(chebyshev)
    {   // near-nullspace vectors travel as a pointer through the tree
        typedef amgcl::amg<B, amgcl::coarsening::smoothed_aggregation, amgcl::relaxation::spai0> T;
        for (int m = 0; m < (int)problems.size(); ++m) {
            size_t n = problems[m].rhs.size();
            std::vector<double> Bv(2 * n); for (size_t i = 0; i < n; ++i) { Bv[2 * i] = 1; Bv[2 * i + 1] = (double)(i % 7) - 3; }
            T::params p; p.coarse_enough = 20; p.coarsening.nullspace.cols = 2; p.coarsening.nullspace.B = Bv;
            result a = apply_only<T>(problems[m], p);
            ptree rt; rt.put("coarse_enough", 20); rt.put("coarsening.type", "smoothed_aggregation"); rt.put("relax.type", "spai0");
            rt.put("coarsening.nullspace.cols", 2); rt.put("coarsening.nullspace.rows", n); rt.put("coarsening.nullspace.B", Bv.data());
            result b = apply_only<amgcl::runtime::preconditioner<B>>(problems[m], rt);
            vr::obj o; o.str("k", "equivp").str("cls", "amg").str("what", "nullspace").i("mat", m);
            a.json(o, "_t"); b.json(o, "_r"); vr::emit(o.done());
        } }
    {   typedef amgcl::preconditioner::dummy<B> T; T::params p; ptree t; precond_class<T>("dummy", "dummy", t, p); }
    {   typedef amgcl::make_solver<amgcl::amg<B, amgcl::coarsening::smoothed_aggregation, amgcl::relaxation::spai0>, amgcl::solver::cg<B>> T;
        T::params p; p.solver.maxiter = 3; p.precond.coarse_enough = 20; p.precond.npre = 2;
        ptree t; t.put("solver.type", "cg"); t.put("solver.maxiter", 3); t.put("precond.class", "amg");
        t.put("precond.coarse_enough", 20); t.put("precond.npre", 2);
        t.put("precond.coarsening.type", "smoothed_aggregation"); t.put("precond.relax.type", "spai0");
        precond_class<T>("nested", "amg+cg", t, p); }
    {   // the defaults: class absent = amg with smoothed_aggregation + spai0
        typedef amgcl::amg<B, amgcl::coarsening::smoothed_aggregation, amgcl::relaxation::spai0> T; T::params p; p.coarse_enough = 20;
        for (int m = 0; m < (int)problems.size(); ++m) {
            result a = apply_only<T>(problems[m], p);
            ptree rt; rt.put("coarse_enough", 20);
            result b = apply_only<amgcl::runtime::preconditioner<B>>(problems[m], rt);
            vr::obj o; o.str("k", "equivp").str("cls", "(absent)").str("what", "defaults").i("mat", m);
            a.json(o, "_t"); b.json(o, "_r"); vr::emit(o.done());
        } }
    // rebuild history for aggregation with non-default over_interp: build(A) -> rebuild(2A) -> apply.
    // typed vs run-time (both flavours) bitwise, and the rebuilt typed object against a typed object
    // freshly built from 2A with the same parameters (scaling by 2 keeps the transfer operators)
    for (float oi : {1.25f, 3.0f}) {
        typedef amgcl::amg<B, amgcl::coarsening::aggregation, amgcl::relaxation::spai0> T;
        for (int m = 0; m < (int)problems.size(); ++m) {
            const problem &pb = problems[m];
            auto A2 = std::make_shared<vr::crsd>(*pb.A);
            for (ptrdiff_t j = 0; j < (ptrdiff_t)A2->nnz; ++j) A2->val[j] *= 2.0;
            amgcl::backend::numa_vector<double> f(pb.rhs);
            auto hist = [&](auto &P, result &r) {
                amgcl::backend::numa_vector<double> y(pb.rhs.size()), y2(pb.rhs.size());
                P.apply(f, y); r.px.vec(y.data(), y.size()); r.it = 0; r.describe(P);
                try { P.rebuild(*A2); P.apply(f, y2); r.rpx.vec(y2.data(), y2.size()); r.rit = 0; }
                catch (const std::exception &e) { r.rthrew = true; r.exc = std::string("rebuild: ") + e.what(); }
            };
            T::params p; p.coarse_enough = 20; p.coarsening.over_interp = oi;
            ptree t; t.put("coarse_enough", 20); t.put("coarsening.type", "aggregation"); t.put("relax.type", "spai0");
            t.put("coarsening.over_interp", oi);
            result a, b1, b2, fr;
            try { T P(*pb.A, p); hist(P, a); } catch (const std::exception &e) { a.threw = true; a.exc = e.what(); }
            try { RAMG P(*pb.A, t); hist(P, b1); } catch (const std::exception &e) { b1.threw = true; b1.exc = e.what(); }
            try { ptree t2 = t; t2.put("class", "amg"); amgcl::runtime::preconditioner<B> P(*pb.A, t2); hist(P, b2); }
            catch (const std::exception &e) { b2.threw = true; b2.exc = e.what(); }
            try { T P(*A2, p); amgcl::backend::numa_vector<double> y(pb.rhs.size()); P.apply(f, y); fr.px.vec(y.data(), y.size()); }
            catch (const std::exception &e) { fr.threw = true; fr.exc = e.what(); }
            const char *what = oi == 3.0f ? "aggregation over_interp=3 rebuild(2A)" : "aggregation over_interp=1.25 rebuild(2A)";
            { vr::obj o; o.str("k", "equivp").str("cls", "amg-wrappers").str("what", what).i("mat", m); a.json(o, "_t"); b1.json(o, "_r"); vr::emit(o.done()); }
            { vr::obj o; o.str("k", "equivp").str("cls", "amg").str("what", what).i("mat", m); a.json(o, "_t"); b2.json(o, "_r"); vr::emit(o.done()); }
            { vr::obj o; o.str("k", "rebuilt").str("what", what).i("mat", m).b("threw", a.threw || a.rthrew || fr.threw)
                .i("rpx_lo", a.rpx.lo()).i("rpx_hi", a.rpx.hi()).i("fpx_lo", fr.px.lo()).i("fpx_hi", fr.px.hi()); vr::emit(o.done()); }
        }
    }
    {   // default solver type = bicgstab
        typedef amgcl::make_solver<amgcl::amg<B, amgcl::coarsening::smoothed_aggregation, amgcl::relaxation::spai0>, amgcl::solver::bicgstab<B>> T;
        for (int m = 0; m < (int)problems.size(); ++m) {
            T::params p; p.precond.coarse_enough = 20;
            result a = run_solver<T>(problems[m], p);
            ptree rt; rt.put("precond.coarse_enough", 20);
            result b = run_solver<RT1>(problems[m], rt);
            vr::obj o; o.str("k", "equivp").str("cls", "(absent)").str("what", "default-types").i("mat", m);
            a.json(o, "_t"); b.json(o, "_r"); vr::emit(o.done());
        } }
}

// ---------------------------------------------------------------- enumerations
template <class E> static void enum_table(const char *w) {
    for (int u = 0; u < 32; ++u) {
        E e = static_cast<E>(u);
        std::ostringstream os; os << e;
        long long back = -1; bool threw = false;
        try { std::istringstream is(os.str()); E b; is >> b; back = (long long)b; } catch (const std::exception &) { threw = true; }
        vr::obj o; o.str("k", "enum").str("w", w).i("u", u).str("printed", os.str()).i("back", back).b("threw", threw);
        vr::emit(o.done());
        if (os.str() == "???") break;
    }
}

// ---------------------------------------------------------------- bad strings / unknown keys
static ptree base_tree() {
    ptree t; t.put("solver.type", "cg"); t.put("precond.coarsening.type", "aggregation"); t.put("precond.relax.type", "ilu0");
    t.put("precond.coarse_enough", 20); return t;
}
template <class Solver> static void construct(const char *kind, const char *flavour, const std::string &key, const std::string &val, ptree t) {
    t.put(key, val);
    c14::reported().clear();
    bool threw = false; std::string exc;
    try { Solver s(*problems[0].A, t); } catch (const std::exception &e) { threw = true; exc = e.what(); }
    std::string leaf = key.substr(key.rfind('.') == std::string::npos ? 0 : key.rfind('.') + 1);
    vr::obj o; o.str("k", kind).str("flavour", flavour).str("key", key).str("leaf", leaf).b("threw", threw).str("exc", exc).raw("rep", jl(c14::reported()));
    vr::emit(o.done());
}
static void bad_and_unknown() {
    for (const char *k : {"solver.type", "precond.coarsening.type", "precond.relax.type"}) {
        construct<RT1>("badtype", "amg", k, "nonsense", base_tree());
        ptree t = base_tree(); t.put("precond.class", "amg");
        construct<RT2>("badtype", "preconditioner", k, "nonsense", t);
    }
    construct<RT2>("badtype", "preconditioner", "precond.class", "nonsense", base_tree());
    { ptree t; t.put("solver.type", "cg"); t.put("precond.class", "relaxation"); construct<RT2>("badtype", "preconditioner", "precond.type", "nonsense", t); }
    // sanity: the same trees with valid strings do not throw and report nothing
    construct<RT1>("unkrt", "amg", "precond.npre", "1", base_tree());
    for (const char *lvl : {"", "precond.", "precond.coarsening.", "precond.coarsening.aggr.", "precond.coarsening.nullspace.",
                            "precond.relax.", "precond.relax.solve.", "solver."}) {
        std::string key = std::string(lvl) + "zz_" + std::to_string((int)std::string(lvl).size());
        construct<RT1>("unkrt", "amg", key, "1", base_tree());
        ptree t = base_tree(); t.put("precond.class", "amg");
        construct<RT2>("unkrt", "preconditioner", key, "1", t);
    }
    // the other classes of runtime::preconditioner
    { ptree t; t.put("solver.type", "cg"); t.put("precond.class", "dummy");
      construct<RT2>("unkrt", "class-dummy", "precond.zz_d", "1", t); }
    { ptree t; t.put("solver.type", "cg"); t.put("precond.class", "relaxation"); t.put("precond.type", "ilu0");
      construct<RT2>("unkrt", "class-relaxation", "precond.zz_r", "1", t);
      construct<RT2>("unkrt", "class-relaxation", "precond.solve.zz_rs", "1", t);
      construct<RT2>("unkrt", "class-relaxation", "precond.damping", "0.5", t); }
    { ptree t; t.put("solver.type", "cg"); t.put("precond.class", "nested"); t.put("precond.solver.type", "bicgstab");
      t.put("precond.precond.class", "amg"); t.put("precond.precond.coarse_enough", 20);
      construct<RT2>("unkrt", "class-nested", "precond.zz_n", "1", t);
      construct<RT2>("unkrt", "class-nested", "precond.solver.zz_ns", "1", t);
      construct<RT2>("unkrt", "class-nested", "precond.precond.zz_np", "1", t);
      construct<RT2>("unkrt", "class-nested", "precond.precond.relax.zz_npr", "1", t);
      construct<RT2>("unkrt", "class-nested", "precond.solver.maxiter", "3", t); }
}

// ---------------- the caller's tree after construction; export -> re-import
template <class F> static void ctor_case(const char *w, const ptree &t0, F make) {
    ptree t = t0;                         // a NON-const tree owned by the caller
    bool threw = false; std::string exc; long long t1 = -1, t2 = -2;
    try { t1 = make(t); t2 = make(t); } catch (const std::exception &e) { threw = true; exc = e.what(); }
    vr::obj o; o.str("k", "rtctor").str("w", w).b("threw", threw).str("exc", exc).b("unchanged", t == t0).b("same_type", t1 == t2).i("type", t1);
    vr::emit(o.done());
}
static void ctor_cases() {
    const problem &pb = problems[0];
    { ptree t; t.put("type", "gmres"); t.put("M", 7);
      ctor_case("solver", t, [&](ptree &q) { RSolver s(pb.rhs.size(), q); return (long long)s.s; }); }
    { ptree t; t.put("type", "ilu0"); t.put("damping", 0.5);
      ctor_case("relaxation", t, [&](ptree &q) { amgcl::runtime::relaxation::wrapper<B> s(*pb.A, q); return (long long)s.r; }); }
    { ptree t; t.put("type", "aggregation"); t.put("over_interp", 1.25);
      ctor_case("coarsening", t, [&](ptree &q) { amgcl::runtime::coarsening::wrapper<B> s(q); return (long long)s.c; }); }
    { ptree t; t.put("class", "relaxation"); t.put("type", "damped_jacobi");
      ctor_case("preconditioner", t, [&](ptree &q) { amgcl::runtime::preconditioner<B> s(*pb.A, q);
            amgcl::backend::numa_vector<double> f(pb.rhs), y(pb.rhs.size()); s.apply(f, y); vr::digest d; d.vec(y.data(), y.size()); return d.lo(); }); }
    { ptree t = base_tree(); t.put("solver.type", "gmres");
      ctor_case("make_solver", t, [&](ptree &q) { RT1 s(*pb.A, q); std::vector<double> x(pb.rhs.size(), 0.0); size_t it; double res;
            std::tie(it, res) = s(pb.rhs, x); vr::digest d; d.vec(x.data(), x.size()); return d.lo(); }); }
    // export the stored parameters of a run-time composition and build a second one from them
    for (const char *st : {"cg", "gmres", "idrs", "richardson", "bicgstab"}) for (int fl = 0; fl < 2; ++fl) {
        ptree t = base_tree(); t.put("solver.type", st); t.put("solver.maxiter", 9);
        if (fl) t.put("precond.class", "amg");
        result a, b; ptree ex;
        try {
            if (fl) { RT2 s(*pb.A, t); s.get_params(ex); } else { RT1 s(*pb.A, t); s.get_params(ex); }
        } catch (const std::exception &e) { a.threw = true; a.exc = e.what(); }
        a = fl ? run_solver<RT2>(pb, t) : run_solver<RT1>(pb, t);
        b = fl ? run_solver<RT2>(pb, ex) : run_solver<RT1>(pb, ex);
        vr::obj o; o.str("k", "reimport").str("s", st).str("flavour", fl ? "preconditioner" : "amg")
            .str("exported_type", ex.get("solver.type", std::string("(absent)")));
        a.json(o, "_t"); b.json(o, "_r"); vr::emit(o.done());
    }
}

int main() {
    vr::install_terminate();
    for (int m = 0; m < nproblems(); ++m) problems.push_back(make_problem(m));
    enum_table<amgcl::runtime::solver::type>("solver");
    enum_table<amgcl::runtime::relaxation::type>("relaxation");
    enum_table<amgcl::runtime::coarsening::type>("coarsening");
    enum_table<amgcl::runtime::precond_class::type>("precond");
    bad_and_unknown();
    ctor_cases();
    precond_classes();
#define C14_X(i, s, c, r) run_rt<amgcl::solver::s<B>, amgcl::coarsening::c, amgcl::relaxation::r>(i, #s, #c, #r);
    C14_TRIPLES(C14_X)
    vr::emit("{\"e\":\"End\"}");
    return 0;
}
