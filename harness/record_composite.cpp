// C18 recorder: the composite preconditioners of amgcl (schur_pressure_correction, cpr, cpr_drs,
// deflated_solver) are instantiated with a harness class `probe` as their inner solver /
// preconditioner template arguments.  A probe stores the matrix the composite hands to it and
//  - SCRIPTED: logs every right-hand side it is asked to solve for and answers with a vector
//    chosen by the recorder (integer data => every quantity the composite computes around the
//    inner solves is exact and is compared with the TLA+ definitions, spec/C18Trace.tla), or
//  - EXACT: solves with the stored matrix (or with the operator it is given, column by column)
//    by dense LU with partial pivoting in long double (class O: apply(K x) = x within 1e-9).
//
// usage: record_composite <mode>     mode: schur | schurO | pattern | cpr | cprO | defl | deflmt | reuse | schurK
#include <vrec.hpp>
#include <deque>
#include <map>
#include <functional>
#include <boost/property_tree/ptree.hpp>
#include <amgcl/value_type/static_matrix.hpp>
#include <amgcl/adapter/crs_tuple.hpp>
#include <amgcl/adapter/block_matrix.hpp>
#include <amgcl/preconditioner/schur_pressure_correction.hpp>
#include <amgcl/preconditioner/cpr.hpp>
#include <amgcl/preconditioner/cpr_drs.hpp>
#include <amgcl/deflated_solver.hpp>
#include <amgcl/make_solver.hpp>
#include <amgcl/relaxation/spai0.hpp>
#include <amgcl/relaxation/as_preconditioner.hpp>
#include <amgcl/solver/cg.hpp>
#include <amgcl/solver/bicgstab.hpp>
#include <amgcl/solver/gmres.hpp>
#include <amgcl/solver/fgmres.hpp>
#include <amgcl/solver/lgmres.hpp>
#include <amgcl/preconditioner/dummy.hpp>
#include <sys/wait.h>
#include <signal.h>
#include <omp.h>

using namespace amgcl;
typedef long double ld;
typedef backend::builtin<double> BE;
using vr::crsd;

// ---------------------------------------------------------------- scalar views of (block) values
template <class V> struct sv { static const int B = 1; static double get(const V &v, int, int) { return v; } static void set(V &v, int, int, double x) { v = x; } };
template <int N, int M> struct sv<static_matrix<double, N, M>> {
    static const int B = N;
    static double get(const static_matrix<double, N, M> &v, int r, int c) { return v(r, c); }
    static void set(static_matrix<double, N, M> &v, int r, int c, double x) { v(r, c) = x; }
};
template <class Vec> std::vector<double> flat(const Vec &v, size_t n) {
    typedef typename std::decay<decltype(v[0])>::type T; const int B = sv<T>::B;
    std::vector<double> f(n * B); for (size_t i = 0; i < n; ++i) for (int k = 0; k < B; ++k) f[i * B + k] = sv<T>::get(v[i], k, 0); return f;
}
template <class Vec> void unflat(const std::vector<double> &f, Vec &v, size_t n) {
    typedef typename std::decay<decltype(v[0])>::type T; const int B = sv<T>::B;
    for (size_t i = 0; i < n; ++i) for (int k = 0; k < B; ++k) sv<T>::set(v[i], k, 0, f[i * B + k]);
}
template <class M> std::shared_ptr<crsd> scalar_copy(const M &A) {       // expand block values
    typedef typename backend::value_type<M>::type V; const int B = sv<V>::B;
    std::vector<std::vector<std::pair<int, double>>> rows(A.nrows * B);
    for (size_t i = 0; i < A.nrows; ++i) for (ptrdiff_t p = A.ptr[i]; p < A.ptr[i + 1]; ++p)
        for (int r = 0; r < B; ++r) for (int c = 0; c < B; ++c) rows[i * B + r].push_back({(int)(A.col[p] * B + c), sv<V>::get(A.val[p], r, c)});
    return vr::from_rows(A.nrows * B, A.ncols * B, rows);
}

// ---------------------------------------------------------------- dense LU in long double
struct DenseLU {
    int n = 0; std::vector<ld> a; std::vector<int> piv; bool ok = true;
    void factor(const std::vector<std::vector<ld>> &D) {
        n = D.size(); a.assign(n * n, 0); piv.resize(n); ok = true;
        ld amax = 0;
        for (int i = 0; i < n; ++i) for (int j = 0; j < n; ++j) { a[i * n + j] = D[i][j]; amax = std::max(amax, fabsl(D[i][j])); }
        for (int k = 0; k < n; ++k) {
            int p = k; for (int i = k + 1; i < n; ++i) if (fabsl(a[i * n + k]) > fabsl(a[p * n + k])) p = i;
            // a (nearly) vanishing pivot: the system is singular or too ill-conditioned for a 1e-9 verdict -> not judged
            piv[k] = p; if (!(fabsl(a[p * n + k]) > 1e-6L * amax)) { ok = false; return; }
            if (p != k) for (int j = 0; j < n; ++j) std::swap(a[k * n + j], a[p * n + j]);
            for (int i = k + 1; i < n; ++i) { ld l = a[i * n + k] /= a[k * n + k]; if (l != 0) for (int j = k + 1; j < n; ++j) a[i * n + j] -= l * a[k * n + j]; }
        }
    }
    std::vector<ld> solve(std::vector<ld> b) const {
        for (int k = 0; k < n; ++k) std::swap(b[k], b[piv[k]]);          // whole rows were exchanged: permute first
        for (int k = 0; k < n; ++k) for (int i = k + 1; i < n; ++i) b[i] -= a[i * n + k] * b[k];
        for (int i = n - 1; i >= 0; --i) { for (int j = i + 1; j < n; ++j) b[i] -= a[i * n + j] * b[j]; b[i] /= a[i * n + i]; }
        return b;
    }
};
static std::vector<std::vector<ld>> dense_of(const crsd &A) {
    std::vector<std::vector<ld>> D(A.nrows, std::vector<ld>(A.ncols, 0));
    for (size_t i = 0; i < A.nrows; ++i) for (ptrdiff_t p = A.ptr[i]; p < A.ptr[i + 1]; ++p) D[i][A.col[p]] += A.val[p];
    return D;
}

// ---------------------------------------------------------------- the probe
struct Registry {
    std::vector<std::shared_ptr<crsd>> seen;          // matrices handed to the constructors
    std::vector<std::vector<double>> rhs;             // right-hand sides, in call order
    std::deque<std::vector<double>> script;           // scripted answers; empty => exact solve
    std::vector<std::vector<double>> opcols;          // columns of a matrix-free operator solved exactly
    bool singular = false;
    void reset() { seen.clear(); rhs.clear(); script.clear(); opcols.clear(); singular = false; }
};
template <int Tag> Registry& reg() { static Registry r; return r; }

struct probe_params {
    probe_params() {}
    probe_params(const boost::property_tree::ptree&) {}
    void get(boost::property_tree::ptree&, const std::string&) const {}
};

template <class Backend, int Tag>
class probe {
    public:
        typedef Backend backend_type;
        typedef typename Backend::value_type value_type;
        typedef typename Backend::matrix matrix;
        typedef typename Backend::vector vector;
        typedef typename math::scalar_of<value_type>::type scalar_type;
        typedef typename math::rhs_of<value_type>::type rhs_type;
        typedef typename backend::builtin<value_type>::matrix build_matrix;
        typedef typename Backend::params backend_params;
        typedef probe_params params;

        template <class Matrix>
        probe(const Matrix &M, const params& = params(), const backend_params &bprm = backend_params())
            : A(std::make_shared<build_matrix>(M)) { init(bprm); }
        probe(std::shared_ptr<build_matrix> M, const params& = params(), const backend_params &bprm = backend_params())
            : A(M) { init(bprm); }

        // preconditioner concept
        template <class Vec1, class Vec2> void apply(const Vec1 &rhs, Vec2 &&x) const { answer(rhs, x, nullptr); }
        // solver concept: (rhs, x) with the own matrix, (Op, rhs, x) with a matrix-free operator
        template <class Vec1, class Vec2>
        std::tuple<size_t, scalar_type> operator()(const Vec1 &rhs, Vec2 &&x) const { answer(rhs, x, nullptr); return std::make_tuple(size_t(1), scalar_type(0)); }
        template <class Op, class Vec1, class Vec2>
        std::tuple<size_t, scalar_type> operator()(const Op &S, const Vec1 &rhs, Vec2 &&x) const {
            Registry &R = reg<Tag>();
            if (!R.script.empty()) { answer(rhs, x, nullptr); return std::make_tuple(size_t(1), scalar_type(0)); }
            // exact solve with the operator: dense columns by spmv on unit vectors
            const size_t n = A->nrows; const int B = sv<value_type>::B;
            backend::numa_vector<rhs_type> e(n), y(n);
            std::vector<std::vector<ld>> D(n * B, std::vector<ld>(n * B, 0));
            R.opcols.clear();
            for (size_t j = 0; j < n * B; ++j) {
                std::vector<double> ej(n * B, 0.0); ej[j] = 1; unflat(ej, e, n);
                backend::spmv(1.0, S, e, 0.0, y);
                auto col = flat(y, n); R.opcols.push_back(col);
                for (size_t i = 0; i < n * B; ++i) D[i][j] = col[i];
            }
            DenseLU lu; lu.factor(D);
            answer(rhs, x, &lu);
            return std::make_tuple(size_t(1), scalar_type(0));
        }
        std::shared_ptr<matrix> system_matrix_ptr() const { return Ab; }
        const matrix& system_matrix() const { return *Ab; }
        size_t bytes() const { return 0; }
        friend std::ostream& operator<<(std::ostream &os, const probe&) { return os << "probe"; }
    private:
        std::shared_ptr<build_matrix> A;
        std::shared_ptr<matrix> Ab;
        DenseLU own;
        void init(const backend_params &bprm) {
            Ab = Backend::copy_matrix(A, bprm);
            auto S = scalar_copy(*A);
            reg<Tag>().seen.push_back(S);
            if (S->nrows == S->ncols) own.factor(dense_of(*S)); else own.ok = false;
        }
        template <class Vec1, class Vec2> void answer(const Vec1 &rhs, Vec2 &x, const DenseLU *op) const {
            Registry &R = reg<Tag>(); const size_t n = A->nrows;
            auto f = flat(rhs, n); R.rhs.push_back(f);
            std::vector<double> ans(f.size(), 0.0);
            if (!R.script.empty()) { ans = R.script.front(); R.script.pop_front(); ans.resize(f.size(), 0.0); }
            else {
                const DenseLU &lu = op ? *op : own;
                if (!lu.ok) R.singular = true;
                else { std::vector<ld> b(f.begin(), f.end()); auto s = lu.solve(b); for (size_t i = 0; i < s.size(); ++i) ans[i] = (double)s[i]; }
            }
            unflat(ans, x, n);
        }
};

// ---------------------------------------------------------------- helpers
static std::string J(const crsd &A, vr::obj &o, int shift = 0) { bool ex = true; std::string s = vr::crs_json(A, ex, shift); if (!ex) o.exact = false; return s; }
static std::string cols_json(const std::vector<std::vector<double>> &c, bool &exact, int shift = 0) {
    std::string s = "["; for (size_t j = 0; j < c.size(); ++j) { vr::obj o; o.dbls("c", c[j], shift); if (!o.exact) exact = false; std::string d = o.done(); s += (j ? "," : "") + d.substr(5, d.size() - 6); } return s + "]";
}
static void put(vr::obj &o) { if (o.exact) vr::emit(o.done()); else { vr::obj x; x.str("e", "Inexact"); vr::emit(x.done()); } }
static long e12(ld err) { ld q = ceill(err * 1e12L); if (!(q < 1e9L)) q = 1e9L; return (long)q; }   // error in units of 1e-12, saturated
static std::vector<double> ivec(vr::rng &g, int n, int lo = -3, int hi = 3) { std::vector<double> v(n); for (auto &x : v) x = g.range(lo, hi); return v; }
static std::vector<double> matvec(const crsd &A, const std::vector<double> &x) { std::vector<double> y(A.nrows, 0.0); for (size_t i = 0; i < A.nrows; ++i) for (ptrdiff_t p = A.ptr[i]; p < A.ptr[i + 1]; ++p) y[i] += A.val[p] * x[A.col[p]]; return y; }
static std::vector<ld> matvecl(const crsd &A, const std::vector<ld> &x) { std::vector<ld> y(A.nrows, 0); for (size_t i = 0; i < A.nrows; ++i) for (ptrdiff_t p = A.ptr[i]; p < A.ptr[i + 1]; ++p) y[i] += (ld)A.val[p] * x[A.col[p]]; return y; }

// run f in a child with an alarm; returns its text, "" + hang/crash flags otherwise
struct ChildRes { std::string text; bool hang = false, crash = false; int sig = 0; };
static ChildRes in_child(const std::function<std::string()> &f, int seconds) {
    int fd[2]; if (pipe(fd)) { perror("pipe"); exit(2); }
    std::cout << std::flush;
    pid_t pid = fork();
    if (pid == 0) { close(fd[0]); vr::cpu_alarm(seconds); std::string s = f(); size_t off = 0; while (off < s.size()) { ssize_t w = write(fd[1], s.data() + off, s.size() - off); if (w <= 0) break; off += w; } _exit(0); }
    close(fd[1]); ChildRes r; char buf[65536]; ssize_t k; while ((k = read(fd[0], buf, sizeof buf)) > 0) r.text.append(buf, k); close(fd[0]);
    int st = 0; waitpid(pid, &st, 0);
    if (WIFSIGNALED(st)) { r.sig = WTERMSIG(st); if (r.sig == SIGALRM) r.hang = true; else r.crash = true; }
    else if (WEXITSTATUS(st) != 0) { r.crash = true; r.sig = -WEXITSTATUS(st); }
    return r;
}

// ================================================================== Schur
typedef probe<BE, 0> UProbe;
typedef probe<BE, 1> PProbe;
typedef preconditioner::schur_pressure_correction<UProbe, PProbe> Schur;

static Schur::params schur_prm(const std::vector<char> &pm, int type, int adjust, bool approx, bool simplec) {
    Schur::params prm; prm.pmask = pm; prm.type = type; prm.adjust_p = adjust; prm.approx_schur = approx; prm.simplec_dia = simplec; return prm;
}
// V: scripted inner solves, integer data
static void schur_case(vr::rng &g, const crsd &K, const std::vector<char> &pm, int type, int adjust, bool approx, bool simplec, const char *tag) {
    const int n = K.nrows; int np = 0; for (char c : pm) np += c ? 1 : 0; const int nu = n - np;
    reg<0>().reset(); reg<1>().reset();
    Schur P(K, schur_prm(pm, type, adjust, approx, simplec));
    vr::obj o; o.str("k", "schur").str("tag", tag).i("type", type).i("adjust", adjust).b("approx", approx).b("simplec", simplec);
    o.raw("K", J(K, o)).ints("pm", pm);
    o.raw("Kuu", J(*reg<0>().seen.at(0), o));
    { vr::obj t; std::string pj = J(*reg<1>().seen.at(0), t, 16); o.b("pexact", t.exact).raw("Pmat", t.exact ? pj : J(*vr::from_rows(np, np, std::vector<std::vector<std::pair<int,double>>>(np)), t)); }
    // a twin with approx_schur = false lets the scripted U see Kup x and feed u into Kpu u
    reg<0>().reset(); reg<1>().reset();
    Schur T(K, schur_prm(pm, type, adjust, false, simplec));
    std::vector<std::vector<double>> kup, base, kpu; bool bexact = true;
    backend::numa_vector<double> x(np), y(np);
    for (int j = 0; j < np; ++j) {
        for (int i = 0; i < np; ++i) x[i] = (i == j);
        reg<0>().rhs.clear(); reg<0>().script.assign(1, std::vector<double>(nu, 0.0));
        T.spmv(1.0, x, 0.0, y);
        kup.push_back(reg<0>().rhs.at(0)); base.push_back(flat(y, np));
    }
    for (int k = 0; k < nu; ++k) {
        for (int i = 0; i < np; ++i) x[i] = 0;
        std::vector<double> ek(nu, 0.0); ek[k] = 1; reg<0>().script.assign(1, ek);
        T.spmv(1.0, x, 0.0, y);
        auto c = flat(y, np); for (auto &v : c) v = -v; kpu.push_back(c);
    }
    o.raw("kup", cols_json(kup, o.exact)).raw("kpu", cols_json(kpu, o.exact));
    { bool ex = true; std::string b = cols_json(base, ex, 16); o.b("bexact", ex).raw("base", ex ? b : "[]"); }
    // the apply() program with scripted answers
    reg<0>().reset(); reg<1>().reset();
    Schur Q(K, schur_prm(pm, type, adjust, approx, simplec));
    reg<0>().rhs.clear(); reg<1>().rhs.clear();
    auto f = ivec(g, n), u1 = ivec(g, nu), u2 = ivec(g, nu), p = ivec(g, np);
    if (type == 1) { reg<0>().script.push_back(u1); reg<0>().script.push_back(u2); } else reg<0>().script.push_back(u2);
    reg<1>().script.push_back(p);
    backend::numa_vector<double> rhs(f), out(n);
    for (int i = 0; i < n; ++i) out[i] = 777;           // apply must overwrite
    Q.apply(rhs, out);
    o.dbls("f", f).dbls("u1", u1).dbls("u2", u2).dbls("p", p);
    bool ex = true; o.raw("rhsU", cols_json(reg<0>().rhs, ex)).raw("rhsP", cols_json(reg<1>().rhs, ex)); if (!ex) o.exact = false;
    o.dbls("x", flat(out, n));
    put(o);
}

static std::shared_ptr<crsd> schur_matrix(vr::rng &g, int n, const std::vector<char> &pm, bool pdiag, int kind) {
    // integer saddle-point style matrix: u-rows diagonally dominant with |row| sum a power of two in the uu block
    // (so that simplec_dia is dyadic) and a power-of-two diagonal for kind 1 (inverted diagonal dyadic)
    std::vector<std::vector<std::pair<int, double>>> rows(n);
    for (int i = 0; i < n; ++i) {
        double uusum = 0;
        for (int j = 0; j < n; ++j) {
            if (j == i) continue;
            double dens = (pm[i] || pm[j]) ? 0.5 : 0.35;
            if (!g.coin(dens)) continue;
            int v = g.range(1, 2); if (g.coin()) v = -v;
            if (!pm[i] && !pm[j]) { if (uusum + std::abs(v) > 3) continue; uusum += std::abs(v); }
            rows[i].push_back({j, (double)v});
        }
        if (!pm[i]) { double d = kind == 1 ? 4.0 : ((uusum <= 1 ? 4.0 : 8.0) - uusum); rows[i].push_back({i, d}); }
        else if (pdiag || g.coin(0.5)) rows[i].push_back({i, (double)g.range(2, 5)});
        std::sort(rows[i].begin(), rows[i].end());
    }
    return vr::from_rows(n, n, rows);
}
static std::vector<std::vector<char>> masks_for(vr::rng &g, int n) {
    std::vector<std::vector<char>> M;
    { std::vector<char> m(n, 0); for (int i = 2; i < n; i += 3) m[i] = 1; M.push_back(m); }               // interleaved %2:3
    { std::vector<char> m(n, 0); for (int i = n - std::max(1, n / 3); i < n; ++i) m[i] = 1; M.push_back(m); }    // contiguous tail  >k
    { std::vector<char> m(n, 0); for (int i = 0; i < std::max(1, n / 4); ++i) m[i] = 1; M.push_back(m); }         // contiguous head  <k
    { std::vector<char> m(n, 0); int c = 0; for (int i = 0; i < n; ++i) { m[i] = g.coin(0.4); c += m[i]; } if (c == 0) m[0] = 1; if (c == n) m[n - 1] = 0; M.push_back(m); }
    return M;
}
static void mode_schur() {
    vr::rng g(vr::env_seed() + 18);
    // the small exhaustive family of SchurModel through the real code: 3x3 patterns (stride), all masks
    int stride = vr::thorough() ? 1 : 3;
    for (unsigned km = 0; km < 512; km += stride) {
        auto P = vr::mk_pattern(3, 3, km, 1, false);
        for (size_t i = 0; i < P->nrows; ++i) for (ptrdiff_t p = P->ptr[i]; p < P->ptr[i + 1]; ++p) P->val[p] = (P->col[p] == (ptrdiff_t)i) ? (double)(3 + (int)(i % 2)) : (double)vr::pat_val((int)i, (int)P->col[p], 1);
        for (int m = 1; m < 7; ++m) {
            std::vector<char> pm = {(char)(m & 1), (char)((m >> 1) & 1), (char)((m >> 2) & 1)};
            // Kuu needs a stored diagonal for the inverted-diagonal variant and a non-zero row for simplec
            bool udiag = true, urow = true;
            for (int i = 0; i < 3; ++i) if (!pm[i]) { bool d = false, r = false; for (ptrdiff_t p = P->ptr[i]; p < P->ptr[i + 1]; ++p) if (!pm[P->col[p]]) { r = true; if (P->col[p] == i) d = true; } udiag &= d; urow &= r; }
            for (int adjust = 0; adjust < 3; ++adjust) for (int sc = 0; sc < 2; ++sc) {
                if (sc ? !urow : !udiag) continue;
                schur_case(g, *P, pm, 1 + (km + m + adjust) % 2, adjust, false, sc, "small");
            }
        }
    }
    int reps = vr::env_int("VERIF_REPS", vr::thorough() ? 60 : 10);
    for (int r = 0; r < reps; ++r) {
        int n = g.range(4, 14);
        for (auto &pm : masks_for(g, n)) for (int adjust = 0; adjust < 3; ++adjust) {
            int kind = g.below(2); bool sc = kind == 0;
            auto K = schur_matrix(g, n, pm, g.coin(0.7), kind);
            schur_case(g, *K, pm, 1 + g.below(2), adjust, g.coin(0.3), sc, "rand");
        }
    }
}

// O: exact inner solves
static void schurO_case(vr::rng &g, const crsd &K, const std::vector<char> &pm, int type, int adjust, bool simplec, const char *tag, const std::string &pattern = "") {
    const int n = K.nrows; int np = 0; for (char c : pm) np += c ? 1 : 0; const int nu = n - np;
    reg<0>().reset(); reg<1>().reset();
    Schur::params prm;
    if (!pattern.empty()) {
        boost::property_tree::ptree pt; pt.put("pmask_size", n); pt.put("pmask_pattern", pattern); pt.put("type", type); pt.put("adjust_p", adjust); pt.put("simplec_dia", simplec);
        prm = Schur::params(pt);
    } else prm = schur_prm(pm, type, adjust, false, simplec);
    Schur P(K, prm);
    // long double reference: blocks from the definition
    std::vector<int> idx(n); { int a = 0, b = 0; for (int i = 0; i < n; ++i) idx[i] = pm[i] ? a++ : b++; }
    auto D = dense_of(K);
    std::vector<std::vector<ld>> Duu(nu, std::vector<ld>(nu)), Dup(nu, std::vector<ld>(np)), Dpu(np, std::vector<ld>(nu)), Dpp(np, std::vector<ld>(np));
    for (int i = 0; i < n; ++i) for (int j = 0; j < n; ++j) { ld v = D[i][j]; if (pm[i]) { if (pm[j]) Dpp[idx[i]][idx[j]] = v; else Dpu[idx[i]][idx[j]] = v; } else { if (pm[j]) Dup[idx[i]][idx[j]] = v; else Duu[idx[i]][idx[j]] = v; } }
    DenseLU luu; luu.factor(Duu);
    std::vector<std::vector<ld>> S = Dpp;
    if (luu.ok) for (int j = 0; j < np; ++j) { std::vector<ld> c(nu); for (int i = 0; i < nu; ++i) c[i] = Dup[i][j]; auto w = luu.solve(c); for (int i = 0; i < np; ++i) { ld s = 0; for (int k = 0; k < nu; ++k) s += Dpu[i][k] * w[k]; S[i][j] -= s; } }
    ld worst = 0, sworst = 0; bool singular = !luu.ok;
    for (int rep = 0; rep < 3 && !singular; ++rep) {
        std::vector<double> xs(n); for (auto &v : xs) v = g.range(-8, 8) / 4.0;
        std::vector<double> f = type == 1 ? matvec(K, xs) : xs;
        backend::numa_vector<double> rhs(f), out(n); for (int i = 0; i < n; ++i) out[i] = 555;
        P.apply(rhs, out);
        if (reg<0>().singular || reg<1>().singular) { singular = true; break; }
        ld scale = 1; for (double v : f) scale = std::max<ld>(scale, fabsl(v));
        if (type == 1) { for (int i = 0; i < n; ++i) worst = std::max(worst, fabsl((ld)out[i] - xs[i]) / scale); }
        else {   // [Kuu Kup; 0 S] (u, p) = (fu, fp)
            std::vector<ld> u(nu), p(np), fu(nu), fp(np);
            for (int i = 0; i < n; ++i) { if (pm[i]) { p[idx[i]] = out[i]; fp[idx[i]] = f[i]; } else { u[idx[i]] = out[i]; fu[idx[i]] = f[i]; } }
            for (int i = 0; i < nu; ++i) { ld s = -fu[i]; for (int j = 0; j < nu; ++j) s += Duu[i][j] * u[j]; for (int j = 0; j < np; ++j) s += Dup[i][j] * p[j]; worst = std::max(worst, fabsl(s) / scale); }
            for (int i = 0; i < np; ++i) { ld s = -fp[i]; for (int j = 0; j < np; ++j) s += S[i][j] * p[j]; worst = std::max(worst, fabsl(s) / scale); }
        }
        // the operator the P solver was given against the definition of the Schur complement
        auto &oc = reg<1>().opcols;
        for (size_t j = 0; j < oc.size(); ++j) for (int i = 0; i < np; ++i) sworst = std::max(sworst, fabsl((ld)oc[j][i] - S[i][j]));
    }
    // the matrix-free Schur complement as an operator: y = beta y + alpha S x and r = rhs - S x against the dense S
    ld operr = 0, reserr = 0;
    if (!singular) {
        const double alphas[] = {1, -1, 2.5}, betas[] = {0, 1, -0.5};
        for (double alpha : alphas) for (double beta : betas) {
            std::vector<double> xv(np), y0(np); for (auto &v : xv) v = g.range(-8, 8) / 4.0; for (auto &v : y0) v = g.range(-8, 8) / 2.0;
            backend::numa_vector<double> x(xv), y(y0), r(np);
            backend::spmv(alpha, P, x, beta, y);
            backend::residual(y0, P, x, r);
            ld scale = 1; for (int i = 0; i < np; ++i) { ld sx = 0; for (int j = 0; j < np; ++j) sx += S[i][j] * xv[j]; scale = std::max(scale, fabsl(sx)); }
            for (int i = 0; i < np; ++i) {
                ld sx = 0; for (int j = 0; j < np; ++j) sx += S[i][j] * xv[j];
                operr = std::max(operr, fabsl((ld)y[i] - (beta * (ld)y0[i] + alpha * sx)) / scale);
                reserr = std::max(reserr, fabsl((ld)r[i] - ((ld)y0[i] - sx)) / scale);
            }
        }
        if (reg<0>().singular) singular = true;
    }
    vr::obj o; o.str("k", "schurO").str("tag", tag).i("n", n).i("np", np).i("type", type).i("adjust", adjust).b("simplec", simplec).b("singular", singular)
              .i("err", e12(worst)).i("serr", e12(sworst)).i("operr", e12(operr)).i("reserr", e12(reserr)).str("pattern", pattern);
    // does Kpp have a stored diagonal entry in every row?
    bool ppdiag = true; for (int i = 0; i < n; ++i) if (pm[i]) { bool d = false; for (ptrdiff_t p = K.ptr[i]; p < K.ptr[i + 1]; ++p) if (K.col[p] == i) d = true; ppdiag &= d; }
    o.b("ppdiag", ppdiag);
    put(o);
}
static std::shared_ptr<crsd> dominant_matrix(vr::rng &g, int n, const std::vector<char> &pm, bool pdiag);
// exact U (probe), the pressure system solved by a restarted Krylov method on the matrix-free Schur complement
// (small restart length: the solver calls backend::residual(rhs, S, x, r) with x != 0 at every restart)
template <class Krylov> static void schurK_case(vr::rng &g, const crsd &K, const std::vector<char> &pm, int type, int adjust, bool simplec, const char *kname, int M) {
    typedef make_solver<preconditioner::dummy<BE>, Krylov> PS;
    typedef preconditioner::schur_pressure_correction<UProbe, PS> SK;
    const int n = K.nrows; int np = 0; for (char c : pm) np += c ? 1 : 0; const int nu = n - np;
    reg<0>().reset();
    typename SK::params prm; prm.pmask = pm; prm.type = type; prm.adjust_p = adjust; prm.approx_schur = false; prm.simplec_dia = simplec;
    prm.psolver.solver.M = M; prm.psolver.solver.tol = 1e-12; prm.psolver.solver.maxiter = 400;
    vr::obj o; o.str("k", "schurK").str("krylov", kname).i("M", M).i("n", n).i("np", np).i("type", type).i("adjust", adjust).b("simplec", simplec);
    try {
        SK P(K, prm);
        std::vector<int> idx(n); { int a = 0, b = 0; for (int i = 0; i < n; ++i) idx[i] = pm[i] ? a++ : b++; }
        auto D = dense_of(K);
        std::vector<std::vector<ld>> Duu(nu, std::vector<ld>(nu)), Dup(nu, std::vector<ld>(np)), Dpu(np, std::vector<ld>(nu)), S(np, std::vector<ld>(np));
        for (int i = 0; i < n; ++i) for (int j = 0; j < n; ++j) { ld v = D[i][j]; if (pm[i]) { if (pm[j]) S[idx[i]][idx[j]] = v; else Dpu[idx[i]][idx[j]] = v; } else { if (pm[j]) Dup[idx[i]][idx[j]] = v; else Duu[idx[i]][idx[j]] = v; } }
        DenseLU luu; luu.factor(Duu); bool singular = !luu.ok;
        if (luu.ok) for (int j = 0; j < np; ++j) { std::vector<ld> c(nu); for (int i = 0; i < nu; ++i) c[i] = Dup[i][j]; auto w = luu.solve(c); for (int i = 0; i < np; ++i) { ld t = 0; for (int k = 0; k < nu; ++k) t += Dpu[i][k] * w[k]; S[i][j] -= t; } }
        DenseLU ls; ls.factor(S); if (!ls.ok) singular = true;
        ld worst = 0;
        for (int rep = 0; rep < 2 && !singular; ++rep) {
            std::vector<double> xs(n); for (auto &v : xs) v = g.range(-8, 8) / 4.0;
            std::vector<double> f = type == 1 ? matvec(K, xs) : xs;
            backend::numa_vector<double> rhs(f), out(n); for (int i = 0; i < n; ++i) out[i] = 0;
            P.apply(rhs, out);
            if (reg<0>().singular) { singular = true; break; }
            ld scale = 1; for (double v : f) scale = std::max<ld>(scale, fabsl(v));
            if (type == 1) { for (int i = 0; i < n; ++i) worst = std::max(worst, fabsl((ld)out[i] - xs[i]) / scale); }
            else {
                std::vector<ld> u(nu), p(np), fu(nu), fp(np);
                for (int i = 0; i < n; ++i) { if (pm[i]) { p[idx[i]] = out[i]; fp[idx[i]] = f[i]; } else { u[idx[i]] = out[i]; fu[idx[i]] = f[i]; } }
                for (int i = 0; i < nu; ++i) { ld t = -fu[i]; for (int j = 0; j < nu; ++j) t += Duu[i][j] * u[j]; for (int j = 0; j < np; ++j) t += Dup[i][j] * p[j]; worst = std::max(worst, fabsl(t) / scale); }
                for (int i = 0; i < np; ++i) { ld t = -fp[i]; for (int j = 0; j < np; ++j) t += S[i][j] * p[j]; worst = std::max(worst, fabsl(t) / scale); }
            }
        }
        o.b("singular", singular).i("err", e12(worst)).str("exc", "");
    } catch (const std::exception &e) { o.b("singular", false).i("err", 0).str("exc", e.what()); }
    put(o);
}
static void mode_schurK() {
    vr::rng g(vr::env_seed() + 1810);
    int reps = vr::env_int("VERIF_REPS", vr::thorough() ? 20 : 5);
    for (int r = 0; r < reps; ++r) {
        int n = g.range(12, vr::thorough() ? 60 : 36);
        auto Ms = masks_for(g, n);
        for (size_t mi = 0; mi < 3; ++mi) for (int adjust = 0; adjust < 3; ++adjust) for (int type = 1; type <= 2; ++type) {
            auto K = dominant_matrix(g, n, Ms[mi], true);
            int which = (r + (int)mi + adjust + type) % 3; bool sc = g.coin();
            if (which == 0) schurK_case<solver::gmres<BE>>(g, *K, Ms[mi], type, adjust, sc, "gmres", 3);
            else if (which == 1) schurK_case<solver::fgmres<BE>>(g, *K, Ms[mi], type, adjust, sc, "fgmres", 3);
            else schurK_case<solver::lgmres<BE>>(g, *K, Ms[mi], type, adjust, sc, "lgmres", 4);
        }
    }
}
static std::shared_ptr<crsd> dominant_matrix(vr::rng &g, int n, const std::vector<char> &pm, bool pdiag) {
    std::vector<std::vector<std::pair<int, double>>> rows(n);
    for (int i = 0; i < n; ++i) {
        double s = 0;
        for (int j = 0; j < n; ++j) if (j != i && g.coin(std::min(0.9, 4.0 / n))) { int v = g.range(1, 3); if (g.coin()) v = -v; rows[i].push_back({j, (double)v}); s += std::abs(v); }
        if (!pm[i] || pdiag) rows[i].push_back({i, s + g.range(1, 4)});
        std::sort(rows[i].begin(), rows[i].end());
    }
    return vr::from_rows(n, n, rows);
}
static void mode_schurO() {
    vr::rng g(vr::env_seed() + 1818);
    int reps = vr::env_int("VERIF_REPS", vr::thorough() ? 40 : 8);
    for (int r = 0; r < reps; ++r) {
        int n = g.range(6, vr::thorough() ? 60 : 30);
        auto M = masks_for(g, n);
        for (size_t mi = 0; mi < M.size(); ++mi) for (int adjust = 0; adjust < 3; ++adjust) for (int type = 1; type <= 2; ++type) {
            bool pdiag = !(mi == 3 && r % 2 == 1);            // a quarter of the random masks: pressure rows without stored diagonal
            auto K = dominant_matrix(g, n, M[mi], pdiag);
            std::string pat = mi == 0 ? "%2:3" : mi == 1 ? ">" + std::to_string(n - std::max(1, n / 3)) : mi == 2 ? "<" + std::to_string(std::max(1, n / 4)) : "";
            schurO_case(g, *K, M[mi], type, adjust, g.coin(), pdiag ? "diag" : "nodiag", (r % 2) ? pat : "");
        }
    }
}

// pattern strings through the real parser, each in its own child with an alarm (all children run
// concurrently: a parser that never returns costs one alarm period in total)
static void mode_pattern() {
    const int As[] = {0, 1, 2, 3, 5, 10, 12}, Bs[] = {1, 2, 3, 4, 10, 12}, Ns[] = {1, 6, 13, 20};
    struct Job { std::string pat; int kind, a, b, n; pid_t pid; int fd; };
    std::vector<Job> jobs;
    for (int kind : {37, 60, 62}) for (int a : As) for (int b : Bs) for (int n : Ns) {
        if (kind != 37 && b != 1) continue;
        std::string pat = kind == 37 ? "%" + std::to_string(a) + ":" + std::to_string(b) : std::string(1, (char)kind) + std::to_string(a);
        jobs.push_back(Job{pat, kind, a, b, n, 0, -1});
    }
    std::cout << std::flush;
    for (auto &j : jobs) {
        int fd[2]; if (pipe(fd)) { perror("pipe"); exit(2); }
        pid_t pid = fork();
        if (pid == 0) {
            close(fd[0]); vr::cpu_alarm(5);
            vr::obj o;
            try {
                boost::property_tree::ptree pt; pt.put("pmask_size", j.n); pt.put("pmask_pattern", j.pat);
                Schur::params prm(pt);
                o.str("st", "ok").ints("mask", prm.pmask);
            } catch (const std::exception &e) { o.str("st", "exc").str("what", e.what()).raw("mask", "[]"); }
            std::string s = o.done(); ssize_t w = write(fd[1], s.data(), s.size()); (void)w; _exit(0);
        }
        close(fd[1]); j.pid = pid; j.fd = fd[0];
    }
    for (auto &j : jobs) {
        std::string text; char buf[4096]; ssize_t k; while ((k = read(j.fd, buf, sizeof buf)) > 0) text.append(buf, k); close(j.fd);
        int st = 0; waitpid(j.pid, &st, 0);
        bool hang = WIFSIGNALED(st) && WTERMSIG(st) == SIGALRM, crash = (WIFSIGNALED(st) && !hang) || (WIFEXITED(st) && WEXITSTATUS(st) != 0);
        vr::obj o; o.str("k", "pattern").str("pattern", j.pat).i("kind", j.kind).i("a", j.a).i("b", j.b).i("n", j.n).b("hang", hang).b("crash", crash);
        o.raw("res", (hang || crash || text.empty()) ? std::string("{\"st\":\"") + (hang ? "hang" : "crash") + "\",\"mask\":[]}" : text);
        vr::emit(o.done());
    }
}

// ================================================================== CPR
typedef probe<BE, 1> CP;                 // pressure preconditioner (scalar)
typedef probe<BE, 0> CS;                 // global preconditioner, scalar input
template <int B> struct blk { typedef backend::builtin<static_matrix<double, B, B>> BEb; typedef probe<BEb, 0> S; };

// integer matrix with unimodular diagonal blocks (product of unit lower and unit upper triangular
// integer matrices: the inverse is an integer matrix and the pivot-free LU meets no zero pivot)
static std::shared_ptr<crsd> cpr_matrix(vr::rng &g, int nb, int B, int extra, bool sparse_diag = false) {
    // sparse_diag: more zeros inside the (still unimodular) diagonal blocks, and they are not stored
    int n = nb * B + extra;
    std::vector<std::vector<double>> D(n, std::vector<double>(n, 0.0));
    for (int ib = 0; ib < nb; ++ib) {
        std::vector<std::vector<double>> L(B, std::vector<double>(B, 0)), U = L;
        for (int i = 0; i < B; ++i) { L[i][i] = U[i][i] = 1; for (int j = 0; j < i; ++j) L[i][j] = (sparse_diag && g.coin(0.4)) ? 0 : g.range(-1, 1); for (int j = i + 1; j < B; ++j) U[i][j] = (sparse_diag && g.coin(0.4)) ? 0 : g.range(-1, 1); }
        for (int i = 0; i < B; ++i) for (int j = 0; j < B; ++j) { double s = 0; for (int k = 0; k < B; ++k) s += L[i][k] * U[k][j]; D[ib * B + i][ib * B + j] = s; }
        for (int jb = 0; jb < nb; ++jb) if (jb != ib && g.coin(std::min(0.8, 2.5 / nb))) for (int i = 0; i < B; ++i) for (int j = 0; j < B; ++j) if (g.coin(0.6)) D[ib * B + i][jb * B + j] = g.range(-2, 2);
    }
    for (int i = nb * B; i < n; ++i) { D[i][i] = 2; for (int j = 0; j < n; ++j) if (j != i && g.coin(0.3)) { D[i][j] = g.range(-1, 1); D[j][i] = g.range(-1, 1); } }
    std::vector<std::vector<std::pair<int, double>>> rows(n);
    for (int i = 0; i < n; ++i) for (int j = 0; j < n; ++j) {
        bool indiag = i < nb * B && j < nb * B && i / B == j / B;
        // the diagonal blocks are stored in full, or (sparse_diag) without their zero entries
        if ((indiag && !sparse_diag) || D[i][j] != 0) rows[i].push_back({j, D[i][j]});
    }
    return vr::from_rows(n, n, rows);
}
// integer matrix for the DRS criterion: full diagonal blocks with positive, negative and zero (k,0) entries of
// magnitude 0..6, off-diagonal blocks with first-column entries of magnitude 0..3, first rows of varying weight
static std::shared_ptr<crsd> drs_matrix(vr::rng &g, int nb, int B) {
    int n = nb * B; std::vector<std::vector<std::pair<int, double>>> rows(n);
    for (int ib = 0; ib < nb; ++ib) for (int i = 0; i < B; ++i) {
        int r = ib * B + i;
        for (int jb = 0; jb < nb; ++jb) {
            bool diag = jb == ib; if (!diag && !g.coin(std::min(0.9, 2.5 / nb))) continue;
            for (int j = 0; j < B; ++j) {
                double v;
                if (diag) v = (i == j) ? g.range(1, 6) * (j == 0 || g.coin(0.8) ? 1 : -1) : (j == 0 ? g.range(-6, 6) : (g.coin(0.5) ? g.range(-2, 2) : 0));
                else v = g.coin(0.6) ? g.range(-3, 3) : 0;
                if (diag || v != 0) rows[r].push_back({jb * B + j, v});
            }
        }
    }
    return vr::from_rows(n, n, rows);
}
struct CprObs { std::shared_ptr<crsd> App; std::vector<std::vector<double>> fpp, scat, prog; std::vector<double> x; bool ok = true; std::string exc; };
// probe a constructed CPR-like object: Fpp columns, Scatter columns, one scripted program
template <class Cpr, class VecT>
static void cpr_probe(Cpr &C, int nflat, int np, const std::vector<double> &f, const std::vector<double> &s, const std::vector<double> &p, CprObs &obs, int nvec) {
    backend::numa_vector<VecT> rhs(nvec), out(nvec);
    for (int j = 0; j < nflat; ++j) {
        std::vector<double> e(nflat, 0.0); e[j] = 1; unflat(e, rhs, nvec);
        reg<0>().script.assign(1, std::vector<double>(nflat, 0.0)); reg<1>().script.assign(1, std::vector<double>(np, 0.0)); reg<1>().rhs.clear();
        C.apply(rhs, out); obs.fpp.push_back(reg<1>().rhs.at(0));
    }
    for (int k = 0; k < np; ++k) {
        std::vector<double> z(nflat, 0.0), ek(np, 0.0); ek[k] = 1; unflat(z, rhs, nvec);
        reg<0>().script.assign(1, z); reg<1>().script.assign(1, ek);
        C.apply(rhs, out); obs.scat.push_back(flat(out, nvec));
    }
    unflat(f, rhs, nvec); reg<0>().script.assign(1, s); reg<1>().script.assign(1, p); reg<1>().rhs.clear();
    C.apply(rhs, out); obs.prog.push_back(reg<1>().rhs.at(0)); obs.x = flat(out, nvec);
}
// the DRS thresholds (cpr_drs only; dyadic values in units of 1/64 so that eps * integer is exact)
static int g_dd64 = 16, g_ps64 = 2;       // eps_dd = 0.25, eps_ps = 1/32
template <class P> auto set_eps(P &p, int) -> decltype(p.eps_dd, void()) { p.eps_dd = g_dd64 / 64.0; p.eps_ps = g_ps64 / 64.0; }
template <class P> void set_eps(P &, long) {}
static void pick_eps(vr::rng &g) { const int dd[] = {16, 32, 64, 8, 128}, ps[] = {2, 16, 32, 0, 64}; g_dd64 = dd[g.below(5)]; g_ps64 = ps[g.below(5)]; }

template <template <class, class> class CPR, int B>
static void cpr_case(vr::rng &g, const crsd &K, int act, const char *variant) {
    const int n = K.nrows; const int N = act ? act : n; const int np = N / B;
    auto f = ivec(g, n), s = ivec(g, n), p = ivec(g, np);
    std::vector<std::vector<double>> sfpp; bool sfpp_set = false;      // Fpp columns observed with scalar input
    vr::obj o; o.str("k", "cpr").str("variant", variant).i("B", B).i("act", act).i("dd64", g_dd64).i("ps64", g_ps64); o.raw("K", J(K, o));
    o.dbls("f", f).dbls("s", s).dbls("p", p);
    {   // scalar input, block_size = B
        typedef CPR<CP, CS> C; reg<0>().reset(); reg<1>().reset();
        typename C::params prm; prm.block_size = B; prm.active_rows = act; set_eps(prm, 0);
        C cpr(K, prm);
        CprObs obs; obs.App = reg<1>().seen.at(0);
        o.raw("Ks", J(*reg<0>().seen.at(0), o));
        cpr_probe<C, double>(cpr, n, np, f, s, p, obs, n);
        sfpp = obs.fpp; sfpp_set = true;
        o.raw("App", J(*obs.App, o)).raw("fpp", cols_json(obs.fpp, o.exact)).raw("scat", cols_json(obs.scat, o.exact)).raw("rp", cols_json(obs.prog, o.exact)).dbls("x", obs.x);
    }
    bool blockrun = act == 0 && n % B == 0;
    o.b("block", blockrun);
    if (blockrun) {   // B x B block-valued input: the same action
        typedef typename blk<B>::BEb BEb; typedef CPR<CP, typename blk<B>::S> C; reg<0>().reset(); reg<1>().reset();
        typedef static_matrix<double, B, B> VT;
        auto Kb = adapter::block_matrix<VT>(K);
        typename C::params prm; set_eps(prm, 0);
        C cpr(Kb, prm);
        CprObs obs; obs.App = reg<1>().seen.at(0);
        cpr_probe<C, static_matrix<double, B, 1>>(cpr, n, np, f, s, p, obs, n / B);
        o.raw("bApp", J(*obs.App, o)).raw("bfpp", cols_json(obs.fpp, o.exact)).raw("bscat", cols_json(obs.scat, o.exact)).raw("brp", cols_json(obs.prog, o.exact)).dbls("bx", obs.x);
        (void)sizeof(BEb);
    }
    if (o.exact || !sfpp_set) { put(o); return; }
    // With unimodular diagonal blocks and integer data every observed quantity is an integer. A non-integer
    // observation cannot be passed to TLC exactly: report how far the observed weights are from the first
    // row of the inverse diagonal block (long double) instead, so that the rejection names the right clause.
    auto D = dense_of(K); ld werr = 0;
    for (int ip = 0; ip < np; ++ip) {
        std::vector<std::vector<ld>> T(B, std::vector<ld>(B)); for (int i = 0; i < B; ++i) for (int c = 0; c < B; ++c) T[c][i] = D[ip * B + i][ip * B + c];
        DenseLU lu; lu.factor(T); if (!lu.ok) continue; std::vector<ld> e(B, 0); e[0] = 1; auto w = lu.solve(e);
        for (int j = 0; j < n; ++j) { ld want = (j / B == ip && j < N) ? w[j % B] : 0; werr = std::max(werr, fabsl((ld)sfpp[j][ip] - want)); }
    }
    vr::obj d; d.str("k", "cprdev").str("variant", variant).i("B", B).i("act", act).i("n", n).i("werr", e12(werr)); vr::emit(d.done());
}
// partial_update with the unchanged matrix: the global preconditioner S is scripted (it answers with chosen
// vectors, so that the residual f - A S f the transfer operator Fpp is applied to is far from zero), the
// pressure preconditioner is exact.  What P is asked for (Fpp (f - A S f)) and the action are compared
// bitwise before / after partial_update(K, transfer); scalar input and B x B block-valued input.
// a copy of K with the entries of every row in random order (a valid CRS matrix; amgcl sorts its own copy)
static std::shared_ptr<crsd> shuffled_rows(vr::rng &g, const crsd &K) {
    std::vector<std::vector<std::pair<int, double>>> rows(K.nrows);
    for (size_t i = 0; i < K.nrows; ++i) {
        for (ptrdiff_t p = K.ptr[i]; p < K.ptr[i + 1]; ++p) rows[i].push_back({(int)K.col[p], K.val[p]});
        for (size_t k = rows[i].size(); k > 1; --k) std::swap(rows[i][k - 1], rows[i][g.below((int)k)]);
    }
    return vr::from_rows(K.nrows, K.ncols, rows);
}
template <template <class, class> class CPR, int B, bool Block>
static void cpr_update_case(vr::rng &g, const crsd &K, int act, const char *variant, bool shuffle = false) {
    const int n = K.nrows;
    // shuffle: the object is built from the sorted K, partial_update gets the same matrix with unsorted rows
    // (scalar input only: the block adapter documents sorted rows as a requirement)
    auto Kupd = (shuffle && !Block) ? shuffled_rows(g, K) : std::shared_ptr<crsd>();
    const crsd &Ku = Kupd ? *Kupd : K;
    std::vector<std::vector<double>> F, Sv;
    for (int r = 0; r < 3; ++r) { F.push_back(ivec(g, n, -4, 4)); Sv.push_back(ivec(g, n, -3, 3)); }
    for (int transfer = 0; transfer < 2; ++transfer) {
        ChildRes r = in_child([&]() {
            vr::digest d0, d1; bool same = true, rpsame = true;
            auto run = [&](auto &cpr, auto tagv, int nvec, auto &Kin) {
                typedef decltype(tagv) VecT;
                backend::numa_vector<VecT> rhs(nvec), out(nvec);
                std::vector<std::vector<double>> before, rpb;
                for (size_t k = 0; k < F.size(); ++k) {
                    unflat(F[k], rhs, nvec); reg<0>().script.assign(1, Sv[k]); reg<1>().script.clear(); reg<1>().rhs.clear();
                    cpr.apply(rhs, out); before.push_back(flat(out, nvec)); rpb.push_back(reg<1>().rhs.at(0)); d0.vec(before.back().data(), before.back().size());
                }
                cpr.partial_update(Kin, transfer == 1);
                for (size_t k = 0; k < F.size(); ++k) {
                    unflat(F[k], rhs, nvec); reg<0>().script.assign(1, Sv[k]); reg<1>().script.clear(); reg<1>().rhs.clear();
                    cpr.apply(rhs, out); auto a = flat(out, nvec); d1.vec(a.data(), a.size());
                    if (memcmp(a.data(), before[k].data(), a.size() * sizeof(double))) same = false;
                    auto &rp = reg<1>().rhs.at(0);
                    if (rp.size() != rpb[k].size() || memcmp(rp.data(), rpb[k].data(), rp.size() * sizeof(double))) rpsame = false;
                }
            };
            reg<0>().reset(); reg<1>().reset();
            if (!Block) { typedef CPR<CP, CS> C; typename C::params prm; prm.block_size = B; prm.active_rows = act; set_eps(prm, 0); C cpr(K, prm); run(cpr, double(), n, Ku); }
            else { typedef CPR<CP, typename blk<B>::S> C; typedef static_matrix<double, B, B> VT; auto Kb = adapter::block_matrix<VT>(K);
                   typename C::params prm; set_eps(prm, 0); C cpr(Kb, prm); run(cpr, static_matrix<double, B, 1>(), n / B, Kb); }
            vr::obj o; o.b("same", same).b("rpsame", rpsame).i("d0lo", d0.lo()).i("d0hi", d0.hi()).i("d1lo", d1.lo()).i("d1hi", d1.hi()); return o.done();
        }, 20);
        vr::obj o; o.str("k", "cprupd").str("variant", variant).i("B", B).i("act", act).i("n", n).i("dd64", g_dd64).i("ps64", g_ps64).b("block", Block).b("shuffled", (bool)Kupd).b("transfer", transfer == 1).b("hang", r.hang).b("crash", r.crash).i("sig", r.sig);
        o.raw("res", (r.hang || r.crash || r.text.empty()) ? "{\"same\":false,\"rpsame\":false,\"d0lo\":0,\"d0hi\":0,\"d1lo\":1,\"d1hi\":1}" : r.text);
        vr::emit(o.done());
    }
}
static void mode_cpr() {
    vr::rng g(vr::env_seed() + 1801);
    int reps = vr::env_int("VERIF_REPS", vr::thorough() ? 40 : 8);
    using preconditioner::cpr; using preconditioner::cpr_drs;
    for (int r = 0; r < reps; ++r) {
        int nb = g.range(2, 4);
        { auto K = cpr_matrix(g, nb, 2, 0); cpr_case<cpr, 2>(g, *K, 0, "cpr"); cpr_case<cpr_drs, 2>(g, *K, 0, "drs"); cpr_update_case<cpr, 2, false>(g, *K, 0, "cpr"); cpr_update_case<cpr_drs, 2, false>(g, *K, 0, "drs"); cpr_update_case<cpr, 2, true>(g, *K, 0, "cpr");
          cpr_update_case<cpr, 2, false>(g, *K, 0, "cpr", true); cpr_update_case<cpr_drs, 2, false>(g, *K, 0, "drs", true); }
        { auto K = cpr_matrix(g, nb, 3, 0); cpr_case<cpr, 3>(g, *K, 0, "cpr"); cpr_case<cpr_drs, 3>(g, *K, 0, "drs"); cpr_update_case<cpr, 3, false>(g, *K, 0, "cpr"); cpr_update_case<cpr, 3, true>(g, *K, 0, "cpr"); cpr_update_case<cpr, 3, false>(g, *K, 0, "cpr", true); }
        { auto K = cpr_matrix(g, nb, 4, 0); cpr_case<cpr, 4>(g, *K, 0, "cpr"); if (r % 2 == 0) cpr_update_case<cpr, 4, true>(g, *K, 0, "cpr"); }
        // diagonal blocks with structurally missing entries (scalar input only stores the non-zeros;
        // the block adapter fills them in): the same weights, the same pressure matrix, the same action
        { auto K = cpr_matrix(g, nb + 1, 2, 0, true); cpr_case<cpr, 2>(g, *K, 0, "cpr"); cpr_update_case<cpr, 2, false>(g, *K, 0, "cpr"); }
        { auto K = cpr_matrix(g, nb + 1, 3, 0, true); cpr_case<cpr, 3>(g, *K, 0, "cpr"); cpr_case<cpr_drs, 3>(g, *K, 0, "drs"); cpr_update_case<cpr, 3, false>(g, *K, 0, "cpr"); cpr_update_case<cpr, 3, true>(g, *K, 0, "cpr"); }
        { auto K = cpr_matrix(g, nb + 1, 4, 0, true); cpr_case<cpr, 4>(g, *K, 0, "cpr"); cpr_update_case<cpr, 4, false>(g, *K, 0, "cpr"); cpr_update_case<cpr, 4, false>(g, *K, 0, "cpr", true); }
        // cpr_drs with block-valued input and sign-indefinite diagonal blocks: negative (k,0) entries of various
        // magnitudes relative to eps_dd * (off-diagonal column sum); thresholds varied
        for (int q = 0; q < 2; ++q) {
            pick_eps(g);
            { auto K = drs_matrix(g, nb + 1, 2); cpr_case<cpr_drs, 2>(g, *K, 0, "drs"); cpr_update_case<cpr_drs, 2, true>(g, *K, 0, "drs"); cpr_update_case<cpr_drs, 2, false>(g, *K, 0, "drs"); }
            { auto K = drs_matrix(g, nb + 1, 3); cpr_case<cpr_drs, 3>(g, *K, 0, "drs"); cpr_update_case<cpr_drs, 3, true>(g, *K, 0, "drs"); cpr_update_case<cpr_drs, 3, false>(g, *K, 0, "drs", true); }
            { auto K = drs_matrix(g, nb, 4); cpr_case<cpr_drs, 4>(g, *K, 0, "drs"); cpr_update_case<cpr_drs, 4, true>(g, *K, 0, "drs"); }
        }
        g_dd64 = 16; g_ps64 = 2;
        // active_rows: trailing rows (wells) that are not part of the blocked reservoir unknowns
        { int ex = g.range(1, 3); auto K = cpr_matrix(g, nb, 2, ex); cpr_case<cpr, 2>(g, *K, nb * 2, "cpr"); cpr_case<cpr_drs, 2>(g, *K, nb * 2, "drs"); cpr_update_case<cpr, 2, false>(g, *K, nb * 2, "cpr"); cpr_update_case<cpr, 2, false>(g, *K, nb * 2, "cpr", true); }
        { int ex = g.range(1, 2); auto K = cpr_matrix(g, nb, 3, ex, r % 2 == 1); cpr_case<cpr, 3>(g, *K, nb * 3, "cpr"); }
    }
}
// O: the two-stage formula against a long double recomputation, scripted non-integer S, exact P
template <int B> static void cprO_case(vr::rng &g, const crsd &K, int act) {
    typedef preconditioner::cpr<CP, CS> C; const int n = K.nrows, N = act ? act : n, np = N / B;
    reg<0>().reset(); reg<1>().reset();
    typename C::params prm; prm.block_size = B; prm.active_rows = act; C cpr(K, prm);
    auto App = reg<1>().seen.at(0);
    // reference weights: first row of the inverse of each diagonal block
    auto D = dense_of(K); std::vector<std::vector<ld>> W(np, std::vector<ld>(B));
    for (int ip = 0; ip < np; ++ip) { std::vector<std::vector<ld>> T(B, std::vector<ld>(B)); for (int i = 0; i < B; ++i) for (int c = 0; c < B; ++c) T[c][i] = D[ip * B + i][ip * B + c]; DenseLU lu; lu.factor(T); std::vector<ld> e(B, 0); e[0] = 1; W[ip] = lu.solve(e); }
    // reference App = Fpp K Scatter
    std::vector<std::vector<ld>> A(np, std::vector<ld>(np, 0));
    for (int ip = 0; ip < np; ++ip) for (int jp = 0; jp < np; ++jp) for (int i = 0; i < B; ++i) A[ip][jp] += W[ip][i] * D[ip * B + i][jp * B];
    DenseLU la; la.factor(A);
    ld worst = 0; bool singular = !la.ok;
    for (int rep = 0; rep < 3 && !singular; ++rep) {
        std::vector<double> f(n), s(n); for (auto &v : f) v = (g.unit() - 0.5) * 4; for (auto &v : s) v = (g.unit() - 0.5) * 4;
        reg<0>().script.assign(1, s); reg<1>().script.clear();
        backend::numa_vector<double> rhs(f), out(n); cpr.apply(rhs, out);
        if (reg<1>().singular) { singular = true; break; }
        std::vector<ld> sl(s.begin(), s.end()); auto Ks = matvecl(K, sl);
        std::vector<ld> rp(np, 0); for (int ip = 0; ip < np; ++ip) for (int i = 0; i < B; ++i) rp[ip] += W[ip][i] * ((ld)f[ip * B + i] - Ks[ip * B + i]);
        auto xp = la.solve(rp);
        for (int i = 0; i < n; ++i) { ld want = s[i] + ((i < N && i % B == 0) ? xp[i / B] : 0); worst = std::max(worst, fabsl((ld)out[i] - want)); }
    }
    vr::obj o; o.str("k", "cprO").i("B", B).i("n", n).i("act", act).b("singular", singular).i("err", e12(worst)); put(o);
}
static void mode_cprO() {
    vr::rng g(vr::env_seed() + 1802);
    int reps = vr::env_int("VERIF_REPS", vr::thorough() ? 60 : 12);
    for (int r = 0; r < reps; ++r) {
        int nb = g.range(2, 12);
        { auto K = cpr_matrix(g, nb, 2, 0, r % 3 == 1); cprO_case<2>(g, *K, 0); }
        { auto K = cpr_matrix(g, nb, 3, g.range(0, 2), r % 2 == 1); cprO_case<3>(g, *K, nb * 3); }
        { auto K = cpr_matrix(g, nb, 4, 0, r % 2 == 0); cprO_case<4>(g, *K, 0); }
    }
}

// ================================================================== deflated solver
// row-wise strictly diagonally dominant, numerically non-symmetric (convection-like) M-matrix
static std::shared_ptr<crsd> nonsym_matrix(vr::rng &g, int n) {
    std::vector<std::vector<std::pair<int, double>>> rows(n);
    for (int i = 0; i < n; ++i) {
        double s = 0;
        for (int j = 0; j < n; ++j) {
            if (j == i) continue;
            bool on = std::abs(i - j) == 1 || g.coin(2.0 / n);
            if (!on) continue;
            double w = (j > i ? 1.0 : 3.0) * g.range(1, 3) * 0.5 + g.unit() * 0.25;      // upwind: a_ij != a_ji
            rows[i].push_back({j, -w}); s += w;
        }
        rows[i].push_back({i, s + 1.0 + g.unit()});
        std::sort(rows[i].begin(), rows[i].end());
    }
    return vr::from_rows(n, n, rows);
}
template <class Solver> static void defl_case(vr::rng &g, const crsd &A, int nvec, const char *sname, bool symmetric = true) {
    typedef relaxation::as_preconditioner<BE, relaxation::spai0> Precond;
    typedef deflated_solver<Precond, Solver> DS;
    const int n = A.nrows;
    std::vector<double> Z(n * nvec, 0.0);
    for (int j = 0; j < nvec; ++j) { int b = j * n / nvec, e = (j + 1) * n / nvec; for (int i = b; i < e; ++i) Z[j * n + i] = 1; }
    if (nvec > 1 && g.coin()) for (int i = 0; i < n; ++i) Z[(nvec - 1) * n + i] = g.range(-2, 2) + (i == 0);     // one non-indicator vector
    typename DS::params prm; prm.nvec = nvec; prm.vec = Z.data(); prm.solver.tol = 1e-10; prm.solver.maxiter = 2000;
    vr::obj o; o.str("k", "defl").str("solver", sname).i("n", n).i("nvec", nvec).b("symmetric", symmetric);
    try {
        DS ds(A, prm);
        std::vector<double> b(n), x(n, 0.0); for (auto &v : b) v = g.range(-4, 4) + g.unit();
        size_t iters; double resid; std::tie(iters, resid) = ds(b, x);
        std::vector<ld> xl(x.begin(), x.end()); auto Ax = matvecl(A, xl);
        ld rn = 0, bn = 0; for (int i = 0; i < n; ++i) { rn += (b[i] - Ax[i]) * (b[i] - Ax[i]); bn += (ld)b[i] * b[i]; }
        ld rel = sqrtl(rn / bn);
        o.i("iters", (long)iters).i("rel12", e12(rel)).i("rep12", e12(resid));
        // projection: residual orthogonal to every deflation vector, for random x
        ld worst = 0;
        for (int rep = 0; rep < 3; ++rep) {
            std::vector<double> y(n); for (auto &v : y) v = (g.unit() - 0.5) * 6;
            backend::numa_vector<double> bb(b), yy(y);
            ds.project(bb, yy);
            std::vector<ld> yl(n); for (int i = 0; i < n; ++i) yl[i] = yy[i];
            auto Ay = matvecl(A, yl); ld bnorm = sqrtl(bn);
            for (int j = 0; j < nvec; ++j) { ld s = 0, zn = 0; for (int i = 0; i < n; ++i) { s += (ld)Z[j * n + i] * ((ld)b[i] - Ay[i]); zn += (ld)Z[j * n + i] * Z[j * n + i]; } worst = std::max(worst, fabsl(s) / (sqrtl(zn) * (bnorm + 6 * sqrtl((ld)n) * 20))); }
        }
        o.i("orth12", e12(worst));
        // the public init() called again on the same object (same data): the object has to behave like a fresh one
        ld reorth = 0, redx = 0;
        {
            std::vector<double> y(n); for (auto &v : y) v = (g.unit() - 0.5) * 6;
            backend::numa_vector<double> bb(b), y1(y), y2(y);
            ds.project(bb, y1);
            ds.init(A, typename BE::params());
            ds.project(bb, y2);
            std::vector<ld> yl(n); ld ym = 1; for (int i = 0; i < n; ++i) { yl[i] = y2[i]; ym = std::max(ym, fabsl((ld)y1[i])); redx = std::max(redx, fabsl((ld)y2[i] - (ld)y1[i])); }
            redx /= ym;
            auto Ay = matvecl(A, yl); ld bnorm = sqrtl(bn);
            for (int j = 0; j < nvec; ++j) { ld sd = 0; for (int i = 0; i < n; ++i) sd += (ld)Z[j * n + i] * ((ld)b[i] - Ay[i]); reorth = std::max(reorth, fabsl(sd) / bnorm); }
        }
        o.i("reorth12", e12(reorth)).i("redx12", e12(redx)).str("exc", "");
    } catch (const std::exception &e) { o.i("iters", 0).i("rel12", 0).i("rep12", 0).i("orth12", 0).i("reorth12", 0).i("redx12", 0).str("exc", e.what()); }
    put(o);
}
// One solver object, built for A0, then asked to solve with ANOTHER matrix A1 through the
// operator()(A1, rhs, x) overload (time stepping with changing coefficients): the returned x has to
// solve A1 x = b.  The residuals with respect to A1 and to A0 are logged.
static std::shared_ptr<crsd> perturbed(vr::rng &g, const crsd &A0) {
    auto A1 = std::make_shared<crsd>(A0);
    for (size_t i = 0; i < A1->nrows; ++i) for (ptrdiff_t p = A1->ptr[i]; p < A1->ptr[i + 1]; ++p)
        A1->val[p] *= (A1->col[p] == (ptrdiff_t)i) ? 1.3 + 0.4 * g.unit() : 0.6 + 0.4 * g.unit();      // stays row-dominant
    return A1;
}
static ld rel_residual(const crsd &A, const std::vector<double> &b, const std::vector<double> &x) {
    std::vector<ld> xl(x.begin(), x.end()); auto Ax = matvecl(A, xl); ld rn = 0, bn = 0;
    for (size_t i = 0; i < b.size(); ++i) { rn += (b[i] - Ax[i]) * (b[i] - Ax[i]); bn += (ld)b[i] * b[i]; }
    return sqrtl(rn / bn);
}
template <class F> static void reuse_record(vr::rng &g, const char *wrapper, const char *sname, const crsd &A0, int nvec, F solve_with) {
    const int n = A0.nrows; auto A1 = perturbed(g, A0);
    std::vector<double> b(n); for (auto &v : b) v = g.range(-4, 4) + g.unit();
    vr::obj o; o.str("k", "reuse").str("wrapper", wrapper).str("solver", sname).i("n", n).i("nvec", nvec);
    try {
        std::vector<double> x1(n, 0.0), x0(n, 0.0); double rep1 = 0, rep0 = 0;
        solve_with(*A1, b, x1, rep1, true);       // operator()(A1, rhs, x)
        solve_with(A0, b, x0, rep0, false);       // operator()(rhs, x): the matrix of the constructor
        o.i("rel12", e12(rel_residual(*A1, b, x1))).i("relother12", e12(rel_residual(A0, b, x1))).i("rep12", e12(rep1))
         .i("own12", e12(rel_residual(A0, b, x0))).str("exc", "");
    } catch (const std::exception &e) { o.i("rel12", 0).i("relother12", 0).i("rep12", 0).i("own12", 0).str("exc", e.what()); }
    put(o);
}
static void mode_reuse() {
    vr::rng g(vr::env_seed() + 1809);
    typedef relaxation::as_preconditioner<BE, relaxation::spai0> Pre;
    int reps = vr::env_int("VERIF_REPS", vr::thorough() ? 12 : 3);
    for (int r = 0; r < reps; ++r) for (int nvec = 1; nvec <= 5; nvec += 2) {
        int n = 2 * g.range(10, vr::thorough() ? 100 : 40);
        auto A0 = nonsym_matrix(g, n);
        std::vector<double> Z(n * nvec, 0.0);
        for (int j = 0; j < nvec; ++j) for (int i = j * n / nvec; i < (j + 1) * n / nvec; ++i) Z[j * n + i] = 1;
        {   typedef deflated_solver<Pre, solver::bicgstab<BE>> DS; typename DS::params prm; prm.nvec = nvec; prm.vec = Z.data(); prm.solver.tol = 1e-10; prm.solver.maxiter = 2000;
            DS ds(*A0, prm);
            reuse_record(g, "deflated_solver", "bicgstab", *A0, nvec, [&](const crsd &A, const std::vector<double> &b, std::vector<double> &x, double &rep, bool with) {
                size_t it; if (with) std::tie(it, rep) = ds(A, b, x); else std::tie(it, rep) = ds(b, x); }); }
        {   typedef deflated_solver<Pre, solver::gmres<BE>> DS; typename DS::params prm; prm.nvec = nvec; prm.vec = Z.data(); prm.solver.tol = 1e-10; prm.solver.maxiter = 2000;
            DS ds(*A0, prm);
            reuse_record(g, "deflated_solver", "gmres", *A0, nvec, [&](const crsd &A, const std::vector<double> &b, std::vector<double> &x, double &rep, bool with) {
                size_t it; if (with) std::tie(it, rep) = ds(A, b, x); else std::tie(it, rep) = ds(b, x); }); }
        if (nvec == 1) {
            {   typedef make_solver<Pre, solver::bicgstab<BE>> MS; typename MS::params prm; prm.solver.tol = 1e-10; prm.solver.maxiter = 2000;
                MS ms(*A0, prm);
                reuse_record(g, "make_solver", "bicgstab", *A0, 0, [&](const crsd &A, const std::vector<double> &b, std::vector<double> &x, double &rep, bool with) {
                    size_t it; if (with) std::tie(it, rep) = ms(A, b, x); else std::tie(it, rep) = ms(b, x); }); }
            {   typedef make_solver<preconditioner::cpr<Pre, Pre>, solver::bicgstab<BE>> MS; typename MS::params prm; prm.precond.block_size = 2; prm.solver.tol = 1e-10; prm.solver.maxiter = 2000;
                MS ms(*A0, prm);
                reuse_record(g, "make_solver+cpr", "bicgstab", *A0, 0, [&](const crsd &A, const std::vector<double> &b, std::vector<double> &x, double &rep, bool with) {
                    size_t it; if (with) std::tie(it, rep) = ms(A, b, x); else std::tie(it, rep) = ms(b, x); }); }
        }
    }
}
static void mode_defl() {
    vr::rng g(vr::env_seed() + 1803);
    int reps = vr::env_int("VERIF_REPS", vr::thorough() ? 30 : 6);
    for (int r = 0; r < reps; ++r) for (int nvec = 1; nvec <= 5; ++nvec) {
        int n = g.range(20, vr::thorough() ? 300 : 120);
        auto A = (r % 2) ? vr::poisson2d(std::max(3, (int)std::sqrt((double)n)), std::max(3, (int)std::sqrt((double)n))) : vr::random_mmatrix(g, n, 3.0 / n, 3, 1);
        defl_case<solver::cg<BE>>(g, *A, nvec, "cg");
        defl_case<solver::bicgstab<BE>>(g, *A, nvec, "bicgstab");
        if (r % 2 == 0) defl_case<solver::gmres<BE>>(g, *A, nvec, "gmres");
        // numerically non-symmetric systems: E = Z^T A Z is not symmetric either
        auto N = nonsym_matrix(g, g.range(20, vr::thorough() ? 200 : 80));
        defl_case<solver::bicgstab<BE>>(g, *N, nvec, "bicgstab", false);
        defl_case<solver::gmres<BE>>(g, *N, nvec, "gmres", false);
    }
}

// The set-up of the deflated solver (E = Z^T A Z) and project() with several OpenMP threads on systems that
// are large enough for the threads to overlap: the projected residual stays orthogonal to Z and the projected
// vector agrees with the one of a solver object built and applied with ONE thread (repeated: a data race is
// a matter of timing).  Run with OMP_NUM_THREADS=4 OMP_WAIT_POLICY=passive.
static void deflmt_case(vr::rng &g, const crsd &A, int nvec, int threads, int rep, const char *mname) {
    typedef relaxation::as_preconditioner<BE, relaxation::spai0> Precond;
    typedef deflated_solver<Precond, solver::bicgstab<BE>> DS;
    const int n = A.nrows;
    std::vector<double> Z((size_t)n * nvec, 0.0);
    for (int j = 0; j < nvec; ++j) { int b = (int)((long long)j * n / nvec), e = (int)((long long)(j + 1) * n / nvec); for (int i = b; i < e; ++i) Z[(size_t)j * n + i] = 1 + ((i * 7 + j) % 3); }
    typename DS::params prm; prm.nvec = nvec; prm.vec = Z.data();
    std::vector<double> b(n), x0(n); for (int i = 0; i < n; ++i) { b[i] = ((i * 13 + rep) % 9) - 4 + 0.5; x0[i] = ((i * 5 + nvec) % 7) - 3; }
    vr::obj o; o.str("k", "deflmt").str("matrix", mname).i("n", n).i("nvec", nvec).i("threads", threads).i("rep", rep);
    try {
        auto projected = [&](int nt) {
            omp_set_num_threads(nt);
            DS ds(A, prm);
            backend::numa_vector<double> bb(b), xx(x0);
            ds.project(bb, xx);
            return std::vector<double>(xx.data(), xx.data() + n);
        };
        auto x1 = projected(1);
        auto xt = projected(threads);
        omp_set_num_threads(threads);
        ld bn = 0; for (double v : b) bn += (ld)v * v; bn = sqrtl(bn);
        std::vector<ld> xl(xt.begin(), xt.end()); auto Ax = matvecl(A, xl);
        ld worst = 0; for (int j = 0; j < nvec; ++j) { ld sdot = 0; for (int i = 0; i < n; ++i) sdot += (ld)Z[(size_t)j * n + i] * ((ld)b[i] - Ax[i]); worst = std::max(worst, fabsl(sdot) / bn); }
        ld dx = 0, xm = 1; for (int i = 0; i < n; ++i) { dx = std::max(dx, fabsl((ld)xt[i] - x1[i])); xm = std::max(xm, fabsl((ld)x1[i])); }
        o.i("orth12", e12(worst)).i("dx12", e12(dx / xm)).str("exc", "");
    } catch (const std::exception &e) { o.i("orth12", 0).i("dx12", 0).str("exc", e.what()); }
    put(o);
}
static void mode_deflmt() {
    vr::rng g(vr::env_seed() + 1806);
    int threads = std::max(2, vr::env_int("OMP_NUM_THREADS", 4));
    int side = vr::thorough() ? 800 : 640;
    auto P2 = vr::poisson2d(side, side);                       // 409 600 (640 000) unknowns
    auto N1 = nonsym_matrix(g, 60);                            // small: the race is rare here, the clause must hold anyway
    std::vector<std::vector<std::pair<int, double>>> rows(200000);
    for (int i = 0; i < 200000; ++i) { if (i > 0) rows[i].push_back({i - 1, -1.5}); rows[i].push_back({i, 3.0}); if (i + 1 < 200000) rows[i].push_back({i + 1, -0.5}); }
    auto C1 = vr::from_rows(200000, 200000, rows);             // 1-D convection-diffusion, non-symmetric
    int reps = vr::thorough() ? 4 : 2;
    for (int rep = 0; rep < reps; ++rep) for (int nvec : {2, 3, 5}) {
        deflmt_case(g, *P2, nvec, threads, rep, "poisson2d");
        deflmt_case(g, *C1, nvec, threads, rep, "convection1d");
        deflmt_case(g, *N1, nvec, threads, rep, "small");
    }
}

int main(int argc, char **argv) {
    vr::install_terminate();
    std::string mode = argc > 1 ? argv[1] : "schur";
    if (mode == "schur") mode_schur();
    else if (mode == "schurO") mode_schurO();
    else if (mode == "pattern") mode_pattern();
    else if (mode == "cpr") mode_cpr();
    else if (mode == "cprO") mode_cprO();
    else if (mode == "defl") mode_defl();
    else if (mode == "deflmt") mode_deflmt();
    else if (mode == "reuse") mode_reuse();
    else if (mode == "schurK") mode_schurK();
    else { std::cerr << "unknown mode\n"; return 2; }
    vr::obj o; o.str("e", "End"); vr::emit(o.done());
    return 0;
}
