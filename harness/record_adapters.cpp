// C17 recorder (part 1): matrix adapters seen through the backend interface, zero-copy
// ownership.  Modes:
//   small   every 3x3 pattern with EVERY order of the entries inside each row (same encoding as
//           Patterns.tla / AdaptersModel.tla) through the adapters (rotating index types)
//   random  seeded random integer matrices (to ~40 rows), all adapters and index types
//   own     seeded random sequences of {empty, borrowed, owned, copy, move, assign, moveassign,
//           destroy} over 3 handles of backend::crs<double> with every new[] / delete[] observed
//           and canaries around the user's arrays
// The verdict is taken by TLC (spec/C17Trace.tla).
#include <vrec.hpp>
#include <map>
#include <set>
#include <new>
#include <limits>
#include <amgcl/adapter/crs_tuple.hpp>
#include <amgcl/adapter/zero_copy.hpp>
#include <amgcl/adapter/eigen.hpp>
#include <amgcl/adapter/crs_builder.hpp>
#include <amgcl/adapter/reorder.hpp>
#include <amgcl/adapter/scaled_problem.hpp>
#include <amgcl/adapter/block_matrix.hpp>
#include <amgcl/value_type/static_matrix.hpp>
#include <amgcl/adapter/ublas.hpp>
#include <Eigen/SparseCore>
#include <omp.h>

using namespace amgcl;
typedef backend::crs<double, ptrdiff_t, ptrdiff_t> M;

// ---------------------------------------------------------------- new[] / delete[] observation
static bool  g_track = false;
static char *g_user_lo = 0, *g_user_hi = 0;
static int   g_userfree = 0, g_dfree = 0;
static std::set<void*> *g_live = 0, *g_freed = 0;
void* operator new[](std::size_t n) {
    void *p = std::malloc(n ? n : 1);
    if (!p) throw std::bad_alloc();
    if (g_track) { g_track = false; g_live->insert(p); g_freed->erase(p); g_track = true; }
    return p;
}
void operator delete[](void *p) noexcept {
    if (!p) return;
    if (g_track) {
        g_track = false;
        if ((char*)p >= g_user_lo && (char*)p < g_user_hi) ++g_userfree;           // the user's memory: never really freed
        else if (g_freed->count(p)) ++g_dfree;                                       // second delete of the same block
        else if (g_live->count(p)) { g_live->erase(p); g_freed->insert(p); }       // kept (not recycled) while tracking
        else std::free(p);                                                           // allocated before tracking started
        g_track = true;
        return;
    }
    std::free(p);
}
void operator delete[](void *p, std::size_t) noexcept { operator delete[](p); }

// ---------------------------------------------------------------- helpers
static std::string J(const M &A, vr::obj &o) { bool ex = true; std::string s = vr::crs_json(A, ex); if (!ex) o.exact = false; return s; }
static void put(vr::obj &o) { if (o.exact) vr::emit(o.done()); else { vr::obj x; x.str("e", "Inexact"); vr::emit(x.done()); } }

// the k-th permutation (factorial number system, same as NthPerm of AdaptersModel.tla)
static long fact(int n) { long f = 1; for (int i = 2; i <= n; ++i) f *= i; return f; }
template <class T> std::vector<T> nth_perm(std::vector<T> s, long k) {
    std::vector<T> r;
    while (!s.empty()) { long f = fact((int)s.size() - 1); size_t idx = (size_t)(k / f); r.push_back(s[idx]); s.erase(s.begin() + idx); k %= f; }
    return r;
}
static std::shared_ptr<M> pattern_ord(int r, int c, unsigned long mask, const std::vector<long> &ord) {
    std::vector<std::vector<std::pair<int,double>>> rows(r);
    for (int i = 0; i < r; ++i) {
        std::vector<std::pair<int,double>> row;
        for (int j = 0; j < c; ++j) if ((mask >> (i * c + j)) & 1ul) row.push_back(std::make_pair(j, (double)vr::pat_val(i, j, 0)));
        rows[i] = nth_perm(row, ord[i]);
    }
    return vr::from_rows(r, c, rows);
}

// what the backend interface shows of a view: rows / cols / nonzeros, the rows as enumerated by
// row_begin, the CRS built by the generic copy constructor, and y = 1 * V * x + 0 * (NaN)
// spmv directly on the view when the adapter supports it (builtin matrix ops), else on the CRS built from it
template <class View> bool spmv_if(const View &V, const M &, const std::vector<double> &x, std::vector<double> &y, std::true_type) { backend::spmv(1.0, V, x, 0.0, y); return true; }
template <class View> bool spmv_if(const View &, const M &C, const std::vector<double> &x, std::vector<double> &y, std::false_type) { backend::spmv(1.0, C, x, 0.0, y); return false; }
template <class View>
void rec_view(const char *ad, const char *it, const char *tag, const M &A, const View &V, const std::string &extra = "", int shift = 0) {
    vr::obj o; o.str("k", "view").str("ad", ad).str("it", it).str("tag", tag);
    try {
        size_t n = backend::rows(V), m = backend::cols(V);
        o.i("rows", n).i("cols", m).i("nnz", backend::nonzeros(V));
        std::vector<long long> ptr(1, 0), col; std::vector<double> val;
        for (size_t i = 0; i < n; ++i) { for (auto a = backend::row_begin(V, i); a; ++a) { col.push_back((long long)a.col()); val.push_back((double)a.value()); } ptr.push_back((long long)col.size()); }
        // row iterators are independent objects: two iterators (rows i and i+1, and twice the same row) are alive at the same
        // time on this thread and advanced in turn; each must enumerate exactly what it enumerates when read alone
        bool indep = true;
        for (size_t i = 0; indep && i < n; ++i) for (int same_row = 0; indep && same_row < 2; ++same_row) {
            size_t j = same_row ? i : (i + 1) % n;
            auto a = backend::row_begin(V, i); auto b = backend::row_begin(V, j);
            size_t la = (size_t)(ptr[i + 1] - ptr[i]), lb = (size_t)(ptr[j + 1] - ptr[j]);
            for (size_t t = 0; indep && t < std::max(la, lb); ++t) {
                if (t < la) { indep = (bool)a && (long long)a.col() == col[ptr[i] + t] && (double)a.value() == val[ptr[i] + t]; if (indep) ++a; }
                if (indep && t < lb) { indep = (bool)b && (long long)b.col() == col[ptr[j] + t] && (double)b.value() == val[ptr[j] + t]; if (indep) ++b; }
            }
            if (indep) indep = !(bool)a && !(bool)b;
        }
        o.b("iters_independent", indep);
        // an adapter that enumerates column numbers outside the matrix is recorded as it is (TLC rejects the line);
        // building a CRS from it or multiplying with it would only crash the recorder
        bool sane = true; for (long long c : col) if (c < 0 || c >= (long long)m) sane = false;
        for (double v : val) if (!vr::small_int(std::ldexp(v, shift))) sane = false;
        bool same = false, direct = false;
        std::vector<double> x(m), y(n, std::numeric_limits<double>::quiet_NaN());
        for (size_t j = 0; j < m; ++j) x[j] = (double)((j * 7 + 3) % 5) - 2;
        if (!sane) { for (double &v : val) if (!vr::small_int(std::ldexp(v, shift))) v = 77777; for (double &v : y) v = 0; }
        else {
        M C(V);
        same = C.nrows == n && C.ncols == m && (size_t)C.ptr[n] == col.size();
        for (size_t i = 0; same && i <= n; ++i) same = C.ptr[i] == ptr[i];
        for (size_t p = 0; same && p < col.size(); ++p) same = C.col[p] == col[p] && C.val[p] == val[p];
        direct = spmv_if(V, C, x, y, std::integral_constant<bool, backend::detail::use_builtin_matrix_ops<View>::value>());
        }
        vr::obj q; q.i("n", n).i("m", m).ints("ptr", ptr).ints("col", col).dbls("val", val, sane ? shift : 0); if (!q.exact) o.exact = false;
        o.b("enumeration_sane", sane);
        o.raw("A", J(A, o)).raw("out", q.done()).b("ctor_same", same).b("spmv_direct", direct).dbls("x", x).dbls("y", y, shift);
    } catch (const std::exception &e) { o.str("exc", e.what()); }
    std::string s = o.done();
    if (!extra.empty()) s = s.substr(0, s.size() - 1) + "," + extra + "}";
    if (o.exact) vr::emit(s); else { vr::obj x; x.str("e", "Inexact"); vr::emit(x.done()); }
}

template <class I> std::vector<I> conv(const ptrdiff_t *b, const ptrdiff_t *e) { std::vector<I> v; for (; b != e; ++b) v.push_back((I)*b); return v; }

// ---- crs_tuple over containers / raw ranges of any integer type
template <class PI, class CI> void v_tuple(const M &A, const char *it, const char *tag) {
    size_t n = A.nrows; std::vector<PI> ptr = conv<PI>(A.ptr, A.ptr + n + 1); std::vector<CI> col = conv<CI>(A.col, A.col + A.nnz);
    std::vector<double> val(A.val, A.val + A.nnz);
    rec_view("crs_tuple", it, tag, A, std::tie(n, ptr, col, val));
}
template <class PI, class CI> void v_tuple_range(const M &A, const char *it, const char *tag) {
    int n = (int)A.nrows; std::vector<PI> ptr = conv<PI>(A.ptr, A.ptr + n + 1); std::vector<CI> col = conv<CI>(A.col, A.col + A.nnz);
    std::vector<float> val(A.val, A.val + A.nnz);       // float values, raw pointer ranges, int size
    ptr.push_back(0); col.push_back(0); val.push_back(0);
    rec_view("crs_tuple/range", it, tag, A, std::make_tuple(n, make_iterator_range(ptr.data(), ptr.data() + n + 1),
                make_iterator_range(col.data(), col.data() + A.nnz), make_iterator_range(val.data(), val.data() + A.nnz)));
}

// ---- zero-copy: canaries around the user's arrays, pointer identity, nothing written or freed
template <class T> struct guarded {
    std::vector<T> buf; size_t n; enum { G = 8 };
    guarded(const std::vector<T> &v) : buf(v.size() + 2 * G), n(v.size()) { for (int i = 0; i < G; ++i) { buf[i] = (T)0x5A; buf[G + n + i] = (T)0x5A; } std::copy(v.begin(), v.end(), buf.begin() + G); }
    const T* data() const { return buf.data() + G; }
    bool intact(const std::vector<T> &v) const { for (int i = 0; i < G; ++i) if (buf[i] != (T)0x5A || buf[G + n + i] != (T)0x5A) return false; return std::equal(v.begin(), v.end(), buf.begin() + G); }
};
template <class Z, class GP, class GC, class GV>
std::string zc_facts(const Z &z, const GP &gp, const GC &gc, const GV &gv) {
    bool ident = (const void*)z.ptr == (const void*)gp.data() && (const void*)z.col == (const void*)gc.data() && (const void*)z.val == (const void*)gv.data();
    std::ostringstream s; s << "\"ident\":" << (ident ? "true" : "false") << ",\"own\":" << (z.own_data ? "true" : "false") << ",\"bytes0\":" << (backend::bytes(z) == 0 ? "true" : "false");
    return s.str();
}
template <class PI, class CI, bool direct> struct zc_make;
template <class PI, class CI> struct zc_make<PI, CI, true>  { static auto get(size_t n, size_t m, const PI *p, const CI *c, const double *v) -> decltype(adapter::zero_copy_direct(n, m, p, c, v)) { return adapter::zero_copy_direct(n, m, p, c, v); } };
template <class PI, class CI> struct zc_make<PI, CI, false> { static auto get(size_t n, size_t m, const PI *p, const CI *c, const double *v) -> decltype(adapter::zero_copy(n, m, p, c, v)) { return adapter::zero_copy(n, m, p, c, v); } };
template <class PI, class CI, bool direct> void v_zero_copy(const M &A, const char *it, const char *tag) {
    size_t n = A.nrows, m = A.ncols; std::vector<PI> ptr = conv<PI>(A.ptr, A.ptr + n + 1); std::vector<CI> col = conv<CI>(A.col, A.col + A.nnz); std::vector<double> val(A.val, A.val + A.nnz);
    col.push_back(0); val.push_back(0);
    guarded<PI> gp(ptr); guarded<CI> gc(col); guarded<double> gv(val);
    const char *ad = direct ? "zero_copy_direct" : "zero_copy";
    {
        auto Z = zc_make<PI, CI, direct>::get(n, m, gp.data(), gc.data(), gv.data());
        rec_view(ad, it, tag, A, *Z, zc_facts(*Z, gp, gc, gv));
        { auto Z2 = *Z; auto Z3 = std::move(Z2); Z2 = Z3; }          // owned deep copies come and go next to the borrowed one
        { auto Z4 = std::move(*Z); *Z = std::move(Z4); }              // the borrowed arrays travel and come back
    }
    vr::obj o; o.str("k", "zc").str("ad", ad).str("it", it).str("tag", tag);
    o.b("canary", gp.intact(ptr) && gc.intact(col) && gv.intact(val)); put(o);
}

// ---- Eigen sparse matrices (row major), plain and mapped
template <class SI> void v_eigen(const M &A, const char *it, const char *tag) {
    typedef Eigen::SparseMatrix<double, Eigen::RowMajor, SI> EM;
    EM E(A.nrows, A.ncols);
    std::vector<Eigen::Triplet<double, SI>> t;
    for (size_t i = 0; i < A.nrows; ++i) for (ptrdiff_t p = A.ptr[i]; p < A.ptr[i+1]; ++p) t.push_back(Eigen::Triplet<double, SI>((SI)i, (SI)A.col[p], A.val[p]));
    E.setFromTriplets(t.begin(), t.end()); E.makeCompressed();
    rec_view("eigen", it, tag, A, E);
    {   // uncompressed storage mode: reserve() + insert() without makeCompressed() (free room after every row)
        EM U(A.nrows, A.ncols);
        std::vector<SI> room(A.nrows); for (size_t i = 0; i < A.nrows; ++i) room[i] = (SI)(A.ptr[i+1] - A.ptr[i] + 1 + i % 3);
        U.reserve(room);
        for (size_t i = 0; i < A.nrows; ++i) for (ptrdiff_t p = A.ptr[i]; p < A.ptr[i+1]; ++p) U.insert((SI)i, (SI)A.col[p]) = A.val[p];
        std::string x = std::string("\"compressed\":") + (U.isCompressed() ? "true" : "false");
        rec_view("eigen/uncompressed", it, tag, A, U, x);
        // insert() after compression: a compressed matrix that got one more entry (and the source with it)
        if (A.nrows > 0 && A.ncols > 0) {
            size_t ri = A.nrows - 1 - (A.nrows > 1 ? 1 : 0); ptrdiff_t cj = -1;
            for (size_t j = 0; j < A.ncols && cj < 0; ++j) { bool used = false; for (ptrdiff_t p = A.ptr[ri]; p < A.ptr[ri+1]; ++p) if (A.col[p] == (ptrdiff_t)j) used = true; if (!used) cj = (ptrdiff_t)j; }
            if (cj >= 0) {
                EM W(E); W.insert((SI)ri, (SI)cj) = 5.0;
                std::vector<std::vector<std::pair<int,double>>> rows(A.nrows);
                for (size_t i = 0; i < A.nrows; ++i) { for (ptrdiff_t p = A.ptr[i]; p < A.ptr[i+1]; ++p) rows[i].push_back(std::make_pair((int)A.col[p], A.val[p])); if (i == ri) rows[i].push_back(std::make_pair((int)cj, 5.0)); }
                auto A2 = vr::from_rows((int)A.nrows, (int)A.ncols, rows);
                std::string x2 = std::string("\"compressed\":") + (W.isCompressed() ? "true" : "false");
                rec_view("eigen/insert after compression", it, tag, *A2, W, x2);
            }
        }
    }
    std::vector<SI> ptr = conv<SI>(A.ptr, A.ptr + A.nrows + 1), col = conv<SI>(A.col, A.col + A.nnz); std::vector<double> val(A.val, A.val + A.nnz);
    col.push_back(0); val.push_back(0);
    Eigen::Map<EM> Em(A.nrows, A.ncols, A.nnz, ptr.data(), col.data(), val.data());       // keeps the user's (possibly unsorted) order
    rec_view("eigen/map", it, tag, A, Em);
}
// ---- uBlas compressed_matrix through backend::map
static void v_ublas(const M &A, const char *tag) {
    namespace ub = boost::numeric::ublas;
    ub::compressed_matrix<double, ub::row_major> U(A.nrows, A.ncols, A.nnz);
    for (size_t i = 0; i < A.nrows; ++i) {                 // push_back needs increasing (row, col)
        std::vector<std::pair<ptrdiff_t,double>> row;
        for (ptrdiff_t p = A.ptr[i]; p < A.ptr[i+1]; ++p) row.push_back(std::make_pair(A.col[p], A.val[p]));
        std::sort(row.begin(), row.end());
        for (auto &e : row) U.push_back(i, e.first, e.second);
    }
    U.complete_index1_data();
    rec_view("ublas", "size_t", tag, A, backend::map(U));
}
// ---- crs_builder callback
struct row_builder {
    typedef double val_type; typedef long col_type;
    const M *A;
    size_t rows() const { return A->nrows; }
    size_t nonzeros() const { return A->nnz; }
    void operator()(size_t i, std::vector<col_type> &col, std::vector<val_type> &val) const {
        for (ptrdiff_t p = A->ptr[i]; p < A->ptr[i+1]; ++p) { col.push_back(A->col[p]); val.push_back(A->val[p]); }
    }
};
static void v_builder(const M &A, const char *tag) { row_builder rb; rb.A = &A; rec_view("crs_builder", "long", tag, A, adapter::make_matrix(rb)); }

// ---- reorder: the reordered_matrix / reordered_vector views with a given permutation, and adapter::reorder<>
static void v_reorder(const M &A, const std::vector<ptrdiff_t> &perm, const char *tag) {
    size_t n = A.nrows; std::vector<ptrdiff_t> iperm(n); for (size_t i = 0; i < n; ++i) iperm[perm[i]] = i;
    std::vector<ptrdiff_t> p1(perm), ip1(iperm); p1.push_back(0); ip1.push_back(0);
    std::ostringstream e; e << "\"perm\":["; for (size_t i = 0; i < n; ++i) e << (i ? "," : "") << perm[i]; e << "]";
    // vectors: reordered_vector view, and its use as destination
    std::vector<double> x(n), fw(n), back(n, -77);
    for (size_t i = 0; i < n; ++i) x[i] = (double)(i * i % 7) - 3;
    adapter::reordered_vector<std::vector<double>> rv(x, p1.data());
    for (size_t i = 0; i < n; ++i) fw[i] = rv[i];
    adapter::reordered_vector<std::vector<double>> wv(back, p1.data());
    for (size_t i = 0; i < n; ++i) wv[i] = fw[i];                       // back[perm[i]] = fw[i]  -> back == x
    e << ",\"vx\":["; for (size_t i = 0; i < n; ++i) e << (i ? "," : "") << (long long)x[i]; e << "],\"vfw\":["; for (size_t i = 0; i < n; ++i) e << (i ? "," : "") << (long long)fw[i];
    e << "],\"vback\":["; for (size_t i = 0; i < n; ++i) e << (i ? "," : "") << (long long)back[i]; e << "]";
    rec_view("reorder", "given perm", tag, A, adapter::reordered_matrix<M>(A, p1.data(), ip1.data()), e.str());
}
static void v_reorder_cm(const M &A, const char *tag) {
    size_t n = A.nrows;
    adapter::reorder<> R(A);
    // recover perm from the vector view:  y[i] = x[perm[i]]
    std::vector<double> id(n), y(n), z(n, -1); for (size_t i = 0; i < n; ++i) id[i] = (double)i;
    R.forward(id, y);
    std::vector<ptrdiff_t> perm(n); for (size_t i = 0; i < n; ++i) perm[i] = (ptrdiff_t)y[i];
    R.inverse(y, z);
    bool ok = true; for (size_t i = 0; i < n; ++i) ok = ok && z[i] == id[i];
    const std::vector<double> &cid = id; auto view = R(cid); for (size_t i = 0; i < n; ++i) ok = ok && view[i] == y[i];
    std::ostringstream e; e << "\"perm\":["; for (size_t i = 0; i < n; ++i) e << (i ? "," : "") << perm[i]; e << "],\"roundtrip\":" << (ok ? "true" : "false");
    rec_view("reorder", "cuthill_mckee", tag, A, R(A), e.str());
}
// ---- scaled problem: scaled_matrix with a given integer scale, scale_diagonal on power-of-4 diagonals
static void v_scaled(const M &A, vr::rng &g, const char *tag) {
    size_t n = A.nrows; std::vector<double> s(n + 1, 1.0);
    for (size_t i = 0; i < n; ++i) { int k = g.range(0, 3); s[i] = k == 0 ? 1 : (k == 1 ? 2 : (k == 2 ? -1 : 3)); }
    std::ostringstream e; e << "\"s\":["; for (size_t i = 0; i < n; ++i) e << (i ? "," : "") << (long long)s[i]; e << "],\"shift\":0";
    // (scaled_matrix wraps matrices whose row iterator is constructible from (matrix, row): tuples, Eigen)
    std::vector<ptrdiff_t> ptr(A.ptr, A.ptr + n + 1), col(A.col, A.col + A.nnz); std::vector<double> val(A.val, A.val + A.nnz);
    auto T = std::tie(n, ptr, col, val);
    rec_view("scaled_matrix", "given scale", tag, A, adapter::scaled_matrix<decltype(T), std::vector<double>>(T, s), e.str());
}

// scale_diagonal (s_i = 1/sqrt|a_ii|) on a matrix whose diagonal entries are powers of 4 (so that s is 1, 1/2, 1/4 and
// S A S is exact in sixteenths) and whose row entries are listed in the given (possibly shuffled) order
static void v_scale_diag(const M &A0, vr::rng &g, const char *tag) {
    size_t n = A0.nrows; M A(A0);
    for (size_t i = 0; i < n; ++i) { bool has = false; for (ptrdiff_t p = A.ptr[i]; p < A.ptr[i+1]; ++p) if (A.col[p] == (ptrdiff_t)i) { A.val[p] = (g.coin() ? 1.0 : -1.0) * std::ldexp(1.0, 2 * g.range(0, 2)); has = true; }
        if (!has) return; }                                  // scale_diagonal is defined for matrices with a full diagonal
    std::vector<ptrdiff_t> ptr(A.ptr, A.ptr + n + 1), col(A.col, A.col + A.nnz); std::vector<double> val(A.val, A.val + A.nnz);
    auto T = std::tie(n, ptr, col, val);
    auto scale = adapter::scale_diagonal< backend::builtin<double> >(T);
    std::ostringstream e; e << "\"s\":["; bool ex = true;
    for (size_t i = 0; i < n; ++i) { double q = 4 * (*scale.s)[i]; if (!vr::small_int(q)) ex = false; e << (i ? "," : "") << (long long)q; } e << "],\"shift\":4";
    // vectors: rhs() pre-scales a copy, operator() post-scales in place
    std::vector<double> f(n), x(n); for (size_t i = 0; i < n; ++i) { f[i] = (double)(i % 5) - 2; x[i] = f[i]; }
    auto sf = scale.rhs(f); scale(x);
    e << ",\"vx\":["; for (size_t i = 0; i < n; ++i) e << (i ? "," : "") << (long long)f[i];
    e << "],\"vs\":["; for (size_t i = 0; i < n; ++i) { if (!vr::small_int(4 * (*sf)[i]) || (*sf)[i] != x[i]) ex = false; e << (i ? "," : "") << (long long)(4 * x[i]); } e << "]";
    // history on one scaled_problem object: the results of separate rhs() calls are separate vectors
    {   std::vector<double> b2(n); for (size_t i = 0; i < n; ++i) b2[i] = 3 - (double)(i % 4);
        auto f1 = scale.rhs(f); std::vector<double> keep(n); for (size_t i = 0; i < n; ++i) keep[i] = (*f1)[i];
        auto f2 = scale.rhs(b2);
        bool indep = f1.get() != f2.get() && f1->size() == n && f2->size() == n;
        for (size_t i = 0; indep && i < n; ++i) indep = (*f1)[i] == keep[i] && (*f1)[i] == (*scale.s)[i] * f[i] && (*f2)[i] == (*scale.s)[i] * b2[i];
        e << ",\"rhs_independent\":" << (indep ? "true" : "false"); }
    if (!ex) { vr::obj o; o.str("k", "view").str("ad", "scaled_matrix").str("it", "scale_diagonal").str("tag", tag).str("exc", "scale_diagonal produced a non-dyadic / non-finite scale or rhs() != operator()"); vr::emit(o.done()); return; }
    rec_view("scaled_matrix", "scale_diagonal", tag, A, scale.matrix(T), e.str(), 4);
}

// ---- block adapter (sorted rows only: its documentation requires them), b = 2, 3; the block CRS it produces
template <int B, class Src> void v_block_src(const M &A, const Src &S, const char *ad, const char *tag) {
    typedef static_matrix<double, B, B> Blk;
    vr::obj o; o.str("k", "block").str("ad", ad).i("b", B).str("tag", tag);
    try {
        auto V = adapter::block_matrix<Blk>(S);
        size_t n = backend::rows(V), m = backend::cols(V);
        o.i("rows", n).i("cols", m).i("nnz", backend::nonzeros(V));
        std::ostringstream q; q << "{\"n\":" << n << ",\"m\":" << m << ",\"ptr\":[0"; std::ostringstream cs, vs; size_t cnt = 0;
        for (size_t i = 0; i < n; ++i) {
            for (auto a = backend::row_begin(V, i); a; ++a) {
                cs << (cnt ? "," : "") << a.col(); Blk v = a.value(); vs << (cnt ? "," : "") << "[";
                for (int r = 0; r < B; ++r) for (int c = 0; c < B; ++c) { if (!vr::small_int(v(r, c))) o.exact = false; vs << (r + c ? "," : "") << (long long)v(r, c); }
                vs << "]"; ++cnt;
            }
            q << "," << cnt;
        }
        q << "],\"col\":[" << cs.str() << "],\"val\":[" << vs.str() << "]}";
        // y = A x through the block view with scalar vectors (mixed spmv), against poisoned y
        std::vector<double> x(A.ncols), y(A.nrows, std::numeric_limits<double>::quiet_NaN());
        for (size_t j = 0; j < A.ncols; ++j) x[j] = (double)((j * 7 + 3) % 5) - 2;
        backend::crs<Blk, ptrdiff_t, ptrdiff_t> Bm(V);
        backend::spmv(1.0, Bm, x, 0.0, y);
        auto U = adapter::unblock_matrix(Bm);
        o.raw("A", J(A, o)).raw("out", q.str()).dbls("x", x).dbls("y", y).raw("unblocked", J(*U, o));
    } catch (const std::exception &e) { o.str("exc", e.what()); }
    put(o);
}

template <int B> void v_block(const M &A, const char *tag) { v_block_src<B>(A, A, "block_matrix", tag); }
// the block adapter keeps B row iterators of its source alive at once: over the crs_builder callback and over a tuple
template <int B> void v_block_builder(const M &A, const char *tag) {
    if (A.nrows != A.ncols) return;
    row_builder rb; rb.A = &A; auto MB = adapter::make_matrix(rb);
    v_block_src<B>(A, MB, "block_matrix(crs_builder)", tag);
    size_t n = A.nrows; std::vector<int> ptr = conv<int>(A.ptr, A.ptr + n + 1), col = conv<int>(A.col, A.col + A.nnz); std::vector<double> val(A.val, A.val + A.nnz);
    v_block_src<B>(A, std::tie(n, ptr, col, val), "block_matrix(crs_tuple)", tag);
}
template <int B> void v_block_builder(const M &A, const char *tag);

static void all_views(const M &A, vr::rng &g, int rot, const char *tag, bool every) {
    bool square = A.nrows == A.ncols;
    auto on = [&](int k) { return every || rot % 6 == k % 6; };
    if (square) {
        if (on(0)) v_tuple<int, int>(A, "int", tag);
        if (on(1)) v_tuple<long, unsigned>(A, "long/unsigned", tag);
        if (on(2)) v_tuple<size_t, size_t>(A, "size_t", tag);
        if (on(3)) v_tuple<ptrdiff_t, ptrdiff_t>(A, "ptrdiff_t", tag);
        if (on(4)) v_tuple<unsigned, long>(A, "unsigned/long", tag);
        if (on(5)) v_tuple_range<int, unsigned>(A, "int/unsigned", tag);
        if (on(0)) v_tuple_range<size_t, ptrdiff_t>(A, "size_t/ptrdiff_t", tag);
        if (on(1)) v_builder(A, tag);
        if (on(2)) v_ublas(A, tag);
        if (on(3)) v_scaled(A, g, tag);
        if (on(3) || on(0)) v_scale_diag(A, g, tag);
        if (on(4) || on(5)) {
            std::vector<ptrdiff_t> id(A.nrows); for (size_t i = 0; i < A.nrows; ++i) id[i] = i;
            v_reorder(A, nth_perm(id, A.nrows <= 8 ? g.below((int)fact((int)A.nrows)) : 0), tag);
            if (A.nrows > 8) { for (size_t k = A.nrows; k > 1; --k) std::swap(id[k - 1], id[g.below((int)k)]); v_reorder(A, id, tag); }
        }
        if (on(0) && A.nrows > 0) v_reorder_cm(A, tag);
    }
    if (on(1)) v_zero_copy<ptrdiff_t, ptrdiff_t, false>(A, "ptrdiff_t", tag);
    if (on(2)) v_zero_copy<long, size_t, false>(A, "long/size_t", tag);
    if (on(3)) v_zero_copy<unsigned long, long long, false>(A, "unsigned long/long long", tag);
    if (on(4)) v_zero_copy<int, int, true>(A, "int", tag);
    if (on(5)) v_zero_copy<unsigned, unsigned, true>(A, "unsigned", tag);
    if (on(0)) v_zero_copy<long, int, true>(A, "long/int", tag);
    if (on(1)) v_zero_copy<size_t, ptrdiff_t, true>(A, "size_t/ptrdiff_t", tag);
    if (on(2)) v_eigen<int>(A, "int", tag);
    if (on(3)) v_eigen<long>(A, "long", tag);
}

static void mode_small() {
    vr::rng g(11);
    const int R = 3, C = 3; int rot = 0;
    for (unsigned mask = 0; mask < (1u << (R * C)); ++mask) {
        std::vector<int> cnt(R, 0); for (int i = 0; i < R; ++i) for (int j = 0; j < C; ++j) if ((mask >> (i * C + j)) & 1u) ++cnt[i];
        std::vector<long> ord(R, 0);
        while (true) {
            auto A = pattern_ord(R, C, mask, ord);
            all_views(*A, g, rot++, "small", false);
            int k = 0; while (k < R && ++ord[k] >= fact(cnt[k])) ord[k++] = 0;
            if (k == R) break;
        }
    }
    // rectangular 2x3 / 3x2 (adapters that can express them), all orders of 2-entry rows via `rev`
    for (unsigned mask = 0; mask < 64; ++mask) for (int rev = 0; rev < 2; ++rev) {
        all_views(*vr::mk_pattern(2, 3, mask, 0, rev), g, rot++, "rect", false);
        all_views(*vr::mk_pattern(3, 2, mask, 0, rev), g, rot++, "rect", false);
    }
    // block adapter: every sorted 4x4 pattern with b = 2, 6x6 samples with b = 2 and 3
    for (unsigned mask = 0; mask < (1u << 16); mask += (vr::thorough() ? 1 : 5)) { auto A = vr::mk_pattern(4, 4, mask, 0, false); v_block<2>(*A, "small"); if (mask % 3 == 0) v_block_builder<2>(*A, "small"); }
}

static void mode_random(uint64_t seed, int reps) {
    vr::rng g(seed + 4242);
    for (int r = 0; r < reps; ++r) {
        int n = g.range(1, vr::thorough() ? 60 : 36); bool sq = g.coin(0.7); int m = sq ? n : g.range(1, 36);
        auto A = vr::random_int(g, n, m, 0.1 + 0.3 * g.unit(), 3, g.coin(0.7));
        all_views(*A, g, r, "rand", r % 3 == 0);
        { int nd = g.range(2, 30); auto D = vr::random_int(g, nd, nd, 0.1 + 0.3 * g.unit(), 3, true, true); v_scale_diag(*D, g, "rand"); }
        int nb = g.range(1, 10), mb = g.range(1, 10);
        { auto S = vr::random_int(g, nb * 2, mb * 2, 0.1 + 0.4 * g.unit(), 5, false); v_block<2>(*S, "rand"); }
        { auto S = vr::random_int(g, nb * 3, mb * 3, 0.1 + 0.3 * g.unit(), 5, false); v_block<3>(*S, "rand"); }
        { auto S = vr::random_int(g, nb * 2, nb * 2, 0.1 + 0.4 * g.unit(), 5, false); v_block_builder<2>(*S, "rand"); }
        { auto S = vr::random_int(g, nb * 3, nb * 3, 0.1 + 0.3 * g.unit(), 5, false); v_block_builder<3>(*S, "rand"); }
    }
    // empty matrix (no rows): the interface must still answer
    { auto A = vr::from_rows(0, 0, {}); v_tuple<int,int>(*A, "int", "empty"); v_zero_copy<int,int,true>(*A, "int", "empty"); }
}

// ---------------------------------------------------------------- ownership op streams
static void mode_own(uint64_t seed, int reps) {
    vr::rng g(seed + 99);
    std::set<void*> live, freed; g_live = &live; g_freed = &freed;
    const int H = 3, n = 4;
    static const char *names[] = {"empty", "borrowed", "owned", "copy", "move", "assign", "moveassign", "destroy"};
    for (int rep = 0; rep < reps; ++rep) {
        // the user's arrays in one arena with canaries between them
        const size_t G = 64, np = (n + 1) * sizeof(ptrdiff_t), nc = 2 * n * sizeof(ptrdiff_t), nv = 2 * n * sizeof(double);
        std::vector<char> arena(4 * G + np + nc + nv, (char)0x5A);
        ptrdiff_t *uptr = (ptrdiff_t*)(arena.data() + G), *ucol = (ptrdiff_t*)(arena.data() + 2 * G + np); double *uval = (double*)(arena.data() + 3 * G + np + nc);
        for (int i = 0; i <= n; ++i) uptr[i] = 2 * i;
        for (int i = 0; i < n; ++i) { ucol[2*i] = i; ucol[2*i+1] = (i + 1) % n; uval[2*i] = 2; uval[2*i+1] = -1; }
        std::vector<char> snapshot(arena);
        g_user_lo = arena.data(); g_user_hi = arena.data() + arena.size(); g_userfree = 0; g_dfree = 0; live.clear(); freed.clear();
        std::vector<ptrdiff_t> optr(uptr, uptr + n + 1), ocol(ucol, ucol + 2 * n); std::vector<double> oval(uval, uval + 2 * n); size_t nn = n;

        std::shared_ptr<M> h[H];
        std::map<void*, int> ids;             // ptr array address -> block number (order of first appearance)
        std::ostringstream ops, obs; int nops = 0;
        int len = rep < 3 ? 3 : g.range(2, 9);
        g_track = true;
        for (int step = 0; step < len + H; ++step) {
            int op, a, b;
            if (rep == 0 && step < 3)      { static const int sc[3][3] = {{1,0,0},{2,1,1},{5,0,1}}; op = sc[step][0]; a = sc[step][1]; b = sc[step][2]; }   // borrowed; owned; assign(borrowed = owned)
            else if (rep == 1 && step < 3) { static const int sc[3][3] = {{1,0,0},{1,1,1},{5,0,1}}; op = sc[step][0]; a = sc[step][1]; b = sc[step][2]; }   // borrowed = borrowed
            else if (rep == 2 && step < 3) { static const int sc[3][3] = {{1,0,0},{4,1,0},{3,2,1}}; op = sc[step][0]; a = sc[step][1]; b = sc[step][2]; }   // move / copy of a borrowed
            else if (step >= len) { a = step - len; b = a; op = 7; if (!h[a]) continue; }                 // finally every handle is destroyed
            else {
                bool ok = false; int tries = 0;
                do { op = g.below(8); a = g.below(H); b = g.below(H);
                     if (op <= 2) ok = !h[a]; else if (op <= 4) ok = !h[a] && h[b] && a != b; else if (op <= 6) ok = h[a] && h[b] && a != b; else ok = (bool)h[a];
                } while (!ok && ++tries < 100);
                if (!ok) continue;
            }
            g_track = false; ops << (nops ? "," : "") << "{\"op\":\"" << names[op] << "\",\"h\":" << a + 1 << ",\"g\":" << b + 1 << "}"; g_track = true;
            switch (op) {
                case 0: h[a] = std::make_shared<M>(); break;
                case 1: h[a] = adapter::zero_copy(nn, uptr, ucol, uval); break;
                case 2: h[a] = std::make_shared<M>(std::tie(nn, optr, ocol, oval)); break;
                case 3: h[a] = std::make_shared<M>(*h[b]); break;
                case 4: h[a] = std::make_shared<M>(std::move(*h[b])); break;
                case 5: *h[a] = *h[b]; break;
                case 6: *h[a] = std::move(*h[b]); break;
                case 7: h[a].reset(); break;
            }
            g_track = false;
            obs << (nops ? "," : "") << "{\"hs\":[";
            for (int k = 0; k < H; ++k) {
                int mem = 0, own = 0, alive = h[k] ? 1 : 0;
                if (h[k]) { own = h[k]->own_data ? 1 : 0; void *p = (void*)h[k]->ptr;
                    if (!p) mem = 0; else if (p == (void*)uptr) mem = -1; else { if (!ids.count(p)) { int id = (int)ids.size() + 1; ids[p] = id; } mem = ids[p]; } }
                obs << (k ? "," : "") << "[" << alive << "," << mem << "," << own << "]";
            }
            obs << "],\"live\":" << live.size() / 3 << "}";
            ++nops; g_track = true;
        }
        g_track = false;
        bool written = snapshot != arena;
        vr::obj o; o.str("k", "own").i("H", H).raw("ops", "[" + ops.str() + "]").raw("obs", "[" + obs.str() + "]");
        o.i("ufreed", g_userfree).b("uwritten", written).i("dfree", g_dfree).i("leak", live.size());
        put(o);
        for (void *p : freed) std::free(p); for (void *p : live) std::free(p);
        live.clear(); freed.clear();
    }
}

int main(int argc, char **argv) {
    vr::install_terminate();
    std::string mode = argc > 1 ? argv[1] : "small";
    uint64_t seed = vr::env_seed(); bool th = vr::thorough();
    if (mode == "small") mode_small();
    else if (mode == "random") mode_random(seed, vr::env_int("VERIF_REPS", th ? 200 : 40));
    else if (mode == "own") mode_own(seed, vr::env_int("VERIF_REPS", th ? 2000 : 400));
    vr::obj o; o.str("e", "End"); vr::emit(o.done());
    return 0;
}
