// Helpers shared by record_direct.cpp (C16) and record_relaxation.cpp (C06):
//  * value schemes on mask-encoded patterns, mirrored by spec/DirectVals.tla (MkMatrix)
//  * dense long-double (complex) reference linear algebra = "the mathematical definition"
//  * scalar expansion of complex / block valued CRS matrices and vectors
//  * quantisers for class-O observations (millidecades) and fixed-point logging
#ifndef VERIF_VDENSE_HPP
#define VERIF_VDENSE_HPP
#include <vrec.hpp>
#include <amgcl/value_type/static_matrix.hpp>
#include <amgcl/value_type/complex.hpp>
#include <complex>
#include <vector>
#include <limits>

namespace vd {
using vr::crsd;
typedef long double ld;
typedef std::complex<long double> cld;

// ------------------------------------------------------------- value schemes
enum scheme { RAW = 0, DOM = 1, SPD = 2, P2 = 3 };
inline const char *scheme_name(int s) { return s == RAW ? "raw" : s == DOM ? "dom" : s == SPD ? "spd" : "p2"; }
inline bool has_diag(int n, unsigned long mask) { for (int i = 0; i < n; ++i) if (!((mask >> (i * n + i)) & 1ul)) return false; return true; }
inline bool sym_pat(int n, unsigned long mask) {
    for (int i = 0; i < n; ++i) for (int j = 0; j < n; ++j) if (((mask >> (i * n + j)) & 1ul) != ((mask >> (j * n + i)) & 1ul)) return false;
    return true;
}
// same as MkMatrix(n, mask, salt, scheme) in DirectVals.tla; the mask must have a full diagonal for DOM/SPD/P2
inline std::shared_ptr<crsd> mk_matrix(int n, unsigned long mask, int salt, int sch) {
    auto A = vr::mk_pattern(n, n, mask, salt, false);
    if (sch == SPD)
        for (int i = 0; i < n; ++i) for (ptrdiff_t p = A->ptr[i]; p < A->ptr[i + 1]; ++p) {
            int j = A->col[p]; A->val[p] = vr::pat_val(std::min(i, j), std::max(i, j), salt);
        }
    if (sch != RAW)
        for (int i = 0; i < n; ++i) {
            double s = 0;
            for (ptrdiff_t p = A->ptr[i]; p < A->ptr[i + 1]; ++p) if (A->col[p] != i) s += std::fabs(A->val[p]);
            double d = s + 1;
            if (sch == P2) { d = 1; while (!(d > s)) d *= 2; }
            for (ptrdiff_t p = A->ptr[i]; p < A->ptr[i + 1]; ++p) if (A->col[p] == i) A->val[p] = d;
        }
    return A;
}
inline std::vector<double> vec_a(int n) { std::vector<double> v(n); for (int i = 1; i <= n; ++i) v[i - 1] = ((i * 7) % 5) - 2; return v; }
inline std::vector<double> vec_b(int n) { std::vector<double> v(n); for (int i = 1; i <= n; ++i) v[i - 1] = (i % 2 == 1) ? i : -i + 1; return v; }

// ------------------------------------------------------------- quantisers
// millidecades: round(1000 log10 v), clamped; 0 or negative -> -30000
inline long long md(long double v) {
    if (!(v == v) || std::isinf(v)) return 30000;   // NaN / Inf: as bad as it gets
    if (v <= 0) return -30000;
    long double q = 1000.0L * std::log10(v);
    if (q < -30000) q = -30000; if (q > 30000) q = 30000;
    return (long long)std::llround(q);
}
// fixed point rint(v * 2^sh); big set when it does not fit 2^30 (then the value is clipped)
inline long long fix(double v, int sh, bool &big) {
    double s = std::ldexp(v, sh);
    if (!(std::fabs(s) < 1073741824.0)) { big = true; return 0; }
    return (long long)std::llrint(s);
}
template <class It> std::string fix_list(It b, It e, int sh, bool &big) {
    std::ostringstream s; s << "["; bool f = true;
    for (; b != e; ++b) { if (!f) s << ","; f = false; s << fix((double)*b, sh, big); }
    s << "]"; return s.str();
}
template <class V> std::string fix_list(const V &v, int sh, bool &big) { return fix_list(std::begin(v), std::end(v), sh, big); }

// ------------------------------------------------------------- value traits
template <class V> struct vt;
template <> struct vt<double> {
    static const int B = 1; typedef double rhs; static const char *name() { return "real"; }
    static cld get(const double &v, int, int) { return cld(v, 0); }
    static cld rget(const double &v, int) { return cld(v, 0); }
    static void rset(double &v, int, cld z) { v = (double)z.real(); }
};
template <> struct vt<std::complex<double>> {
    static const int B = 1; typedef std::complex<double> rhs; static const char *name() { return "complex"; }
    static cld get(const std::complex<double> &v, int, int) { return cld(v.real(), v.imag()); }
    static cld rget(const std::complex<double> &v, int) { return cld(v.real(), v.imag()); }
    static void rset(std::complex<double> &v, int, cld z) { v = std::complex<double>((double)z.real(), (double)z.imag()); }
};
template <int N> struct vt<amgcl::static_matrix<double, N, N>> {
    static const int B = N; typedef amgcl::static_matrix<double, N, 1> rhs;
    static const char *name() { return N == 2 ? "block2" : N == 3 ? "block3" : "blockN"; }
    static cld get(const amgcl::static_matrix<double, N, N> &v, int r, int c) { return cld(v(r, c), 0); }
    static cld rget(const rhs &v, int r) { return cld(v(r), 0); }
    static void rset(rhs &v, int r, cld z) { v(r) = (double)z.real(); }
};

// ------------------------------------------------------------- dense reference algebra
struct dmat {
    int n, m; std::vector<cld> a;
    dmat(int n = 0, int m = 0) : n(n), m(m), a((size_t)n * m, cld(0, 0)) {}
    cld &operator()(int i, int j) { return a[(size_t)i * m + j]; }
    cld operator()(int i, int j) const { return a[(size_t)i * m + j]; }
};
typedef std::vector<cld> dvec;

template <class M> dmat dense_of(const M &A) {
    typedef typename amgcl::backend::value_type<M>::type V;
    const int B = vt<V>::B;
    dmat D(A.nrows * B, A.ncols * B);
    for (size_t i = 0; i < A.nrows; ++i) for (ptrdiff_t p = A.ptr[i]; p < A.ptr[i + 1]; ++p)
        for (int r = 0; r < B; ++r) for (int c = 0; c < B; ++c) D(i * B + r, A.col[p] * B + c) += vt<V>::get(A.val[p], r, c);
    return D;
}
template <class V, class Vec> dvec dense_vec(const Vec &x, size_t n) {
    const int B = vt<V>::B; dvec d(n * B);
    for (size_t i = 0; i < n; ++i) for (int r = 0; r < B; ++r) d[i * B + r] = vt<V>::rget(x[i], r);
    return d;
}
inline dmat mul(const dmat &X, const dmat &Y) {
    dmat Z(X.n, Y.m);
    for (int i = 0; i < X.n; ++i) for (int k = 0; k < X.m; ++k) { cld x = X(i, k); if (x == cld(0, 0)) continue; for (int j = 0; j < Y.m; ++j) Z(i, j) += x * Y(k, j); }
    return Z;
}
inline dvec mul(const dmat &X, const dvec &v) { dvec r(X.n, cld(0, 0)); for (int i = 0; i < X.n; ++i) for (int j = 0; j < X.m; ++j) r[i] += X(i, j) * v[j]; return r; }
inline dmat adjoint(const dmat &X) { dmat Z(X.m, X.n); for (int i = 0; i < X.n; ++i) for (int j = 0; j < X.m; ++j) Z(j, i) = std::conj(X(i, j)); return Z; }
inline dmat ident(int n) { dmat I(n, n); for (int i = 0; i < n; ++i) I(i, i) = 1; return I; }
inline dvec sub(const dvec &a, const dvec &b) { dvec r(a.size()); for (size_t i = 0; i < a.size(); ++i) r[i] = a[i] - b[i]; return r; }
inline dvec add(const dvec &a, const dvec &b) { dvec r(a.size()); for (size_t i = 0; i < a.size(); ++i) r[i] = a[i] + b[i]; return r; }
inline dvec scal(cld s, const dvec &a) { dvec r(a.size()); for (size_t i = 0; i < a.size(); ++i) r[i] = s * a[i]; return r; }
// norms propagate NaN / Inf (std::max would silently drop a NaN)
inline ld amax(ld m, ld v) { return (v == v) ? (m == m ? std::max(m, v) : m) : v; }
inline ld nrm_inf(const dvec &a) { ld m = 0; for (auto &z : a) m = amax(m, std::abs(z)); return m; }
inline ld nrm2(const dvec &a) { ld m = 0; for (auto &z : a) m += std::norm(z); return std::sqrt(m); }
inline ld max_abs(const dmat &X) { ld m = 0; for (auto &z : X.a) m = amax(m, std::abs(z)); return m; }
inline bool all_finite(const dvec &a) { for (auto &z : a) if (!std::isfinite((double)z.real()) || !std::isfinite((double)z.imag())) return false; return true; }
inline bool all_finite(const dmat &X) { return all_finite(X.a); }
inline ld fro(const dmat &X) { ld m = 0; for (auto &z : X.a) m += std::norm(z); return std::sqrt(m); }
inline dmat subm(const dmat &X, const dmat &Y) { dmat Z(X.n, X.m); for (size_t k = 0; k < X.a.size(); ++k) Z.a[k] = X.a[k] - Y.a[k]; return Z; }
// mixed absolute/relative difference of two vectors: |got - want|_inf / max(1, |want|_inf)
inline ld rel_diff(const dvec &got, const dvec &want) { return nrm_inf(sub(got, want)) / std::max((ld)1.0L, nrm_inf(want)); }

// solve X z = b (Gaussian elimination, partial pivoting); ok=false when singular to working precision
inline dvec solve(dmat X, dvec b, bool &ok) {
    int n = X.n; ok = true;
    for (int c = 0; c < n; ++c) {
        int p = c; for (int i = c + 1; i < n; ++i) if (std::abs(X(i, c)) > std::abs(X(p, c))) p = i;
        if (std::abs(X(p, c)) == 0) { ok = false; return dvec(n, cld(0, 0)); }
        if (p != c) { for (int j = 0; j < n; ++j) std::swap(X(p, j), X(c, j)); std::swap(b[p], b[c]); }
        for (int i = c + 1; i < n; ++i) { cld m = X(i, c) / X(c, c); if (m == cld(0, 0)) continue; for (int j = c; j < n; ++j) X(i, j) -= m * X(c, j); b[i] -= m * b[c]; }
    }
    for (int i = n - 1; i >= 0; --i) { cld s = b[i]; for (int j = i + 1; j < n; ++j) s -= X(i, j) * b[j]; b[i] = s / X(i, i); }
    return b;
}
inline dmat inverse(const dmat &X, bool &ok) {           // Gauss-Jordan with partial pivoting, O(n^3)
    int n = X.n; dmat A = X, Z = ident(n); ok = true;
    for (int c = 0; c < n; ++c) {
        int p = c; for (int i = c + 1; i < n; ++i) if (std::abs(A(i, c)) > std::abs(A(p, c))) p = i;
        if (std::abs(A(p, c)) == 0) { ok = false; return dmat(n, n); }
        if (p != c) for (int j = 0; j < n; ++j) { std::swap(A(p, j), A(c, j)); std::swap(Z(p, j), Z(c, j)); }
        cld d = A(c, c);
        for (int j = 0; j < n; ++j) { A(c, j) /= d; Z(c, j) /= d; }
        for (int i = 0; i < n; ++i) if (i != c) { cld m = A(i, c); if (m == cld(0, 0)) continue; for (int j = 0; j < n; ++j) { A(i, j) -= m * A(c, j); Z(i, j) -= m * Z(c, j); } }
    }
    return Z;
}

// ------------------------------------------------------------- typed matrices from an integer skeleton
// skeleton: crsd with integer off-diagonals; typed value = small-integer complex number / block whose
// "size" is the skeleton entry; diagonal made strictly (block-)row dominant afterwards when dom = true.
template <class V> struct mkval;
template <> struct mkval<double> { static double off(vr::rng &, double s) { return s; } static double dia(vr::rng &, double s) { return s; } };
template <> struct mkval<std::complex<double>> {
    static std::complex<double> off(vr::rng &g, double s) { return std::complex<double>(s, g.range(-2, 2)); }
    static std::complex<double> dia(vr::rng &g, double s) { return std::complex<double>(s, g.range(-1, 1)); }
};
template <int N> struct mkval<amgcl::static_matrix<double, N, N>> {
    typedef amgcl::static_matrix<double, N, N> V;
    static V off(vr::rng &g, double s) { V v; for (int r = 0; r < N; ++r) for (int c = 0; c < N; ++c) v(r, c) = (r == c) ? s : (g.coin(0.5) ? g.range(-1, 1) : 0); return v; }
    static V dia(vr::rng &g, double s) { V v; for (int r = 0; r < N; ++r) for (int c = 0; c < N; ++c) v(r, c) = (r == c) ? s : g.range(-1, 1); return v; }
};
inline void set_diag(double &v, double d) { v = d; }
inline void set_diag(std::complex<double> &v, double d) { v = std::complex<double>(d + std::fabs(v.imag()), v.imag()); }
template <int N> void set_diag(amgcl::static_matrix<double, N, N> &v, double d) { for (int r = 0; r < N; ++r) v(r, r) = d; }
// typed copy of the skeleton; when dom, every scalar row of the expanded matrix is strictly dominant
template <class V> std::shared_ptr<amgcl::backend::crs<V, ptrdiff_t, ptrdiff_t>> typed(const crsd &S, vr::rng &g, bool dom, bool p2 = false) {
    typedef amgcl::backend::crs<V, ptrdiff_t, ptrdiff_t> M;
    const int B = vt<V>::B;
    auto A = std::make_shared<M>();
    A->set_size(S.nrows, S.ncols, true);
    for (size_t i = 0; i < S.nrows; ++i) A->ptr[i + 1] = S.ptr[i + 1] - S.ptr[i];
    A->set_nonzeros(A->scan_row_sizes());
    for (size_t i = 0; i < S.nrows; ++i) for (ptrdiff_t p = S.ptr[i]; p < S.ptr[i + 1]; ++p) {
        A->col[p] = S.col[p];
        A->val[p] = (S.col[p] == (ptrdiff_t)i) ? mkval<V>::dia(g, S.val[p]) : mkval<V>::off(g, S.val[p]);
    }
    if (dom) {
        for (size_t i = 0; i < S.nrows; ++i) {
            ptrdiff_t dp = -1; ld worst = 0;
            for (int r = 0; r < B; ++r) {
                ld s = 0;
                for (ptrdiff_t p = S.ptr[i]; p < S.ptr[i + 1]; ++p) for (int c = 0; c < B; ++c) {
                    if (S.col[p] == (ptrdiff_t)i && c == r) { dp = p; continue; }
                    s += std::abs(vt<V>::get(A->val[p], r, c));
                }
                worst = std::max(worst, s);
            }
            if (dp < 0) continue;
            double d = std::floor((double)worst) + 1;
            if (p2) { d = 1; while (!(d > worst)) d *= 2; }
            V dv = A->val[dp];
            set_diag(dv, d);
            A->val[dp] = dv;
        }
    }
    return A;
}

} // namespace vd
#endif
