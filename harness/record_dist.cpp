// C11 recorder: amgcl::mpi::distributed_matrix algebra on integer matrices for every / random
// contiguous row and column partition (empty ranks included), gathered to rank 0 and logged
// as ndjson; the verdict is taken by TLC (spec/C11Trace.tla) with the serial definitions of
// Crs.tla on the assembled global matrices.  With VERIF_SHIM=1 every operation is bracketed
// by the PMPI shim and its merged message log is emitted as a "msgs" record.
//
// usage: mpirun -n N record_dist <mode>        mode: small | rect | random | big
#include <dist_common.hpp>
#include "pmpi_shim.c"
#include <amgcl/adapter/crs_tuple.hpp>
#include <amgcl/mpi/inner_product.hpp>
#include <amgcl/value_type/complex.hpp>
#include <amgcl/value_type/static_matrix.hpp>

using namespace amgcl;
using dv::ll; using dv::part; using dv::crsd;

typedef backend::builtin<double> BD;
typedef backend::builtin<float>  BF;
typedef mpi::distributed_matrix<BD> DM;
typedef mpi::distributed_matrix<BF> DMF;

static mpi::communicator comm;
static int R, NP;
static bool SHIM = false;
static long CASEID = 0;

// ------------------------------------------------------------------ helpers
static std::shared_ptr<DM> make_dm(const crsd &A, const part &rp, const part &cp) {
    dv::strip s = dv::take_rows(A, rp[R], rp[R + 1]);
    return std::make_shared<DM>(comm, std::tie(s.n, s.ptr, s.col, s.val), (ptrdiff_t)(cp[R + 1] - cp[R]));
}
// operations on the KEPT source after move_to_backend(bprm, keep_src = true) (the allow_rebuild path of mpi::amg)
static bool MOVED = false;
// VIA = 1: the operand is a copy obtained through the converting constructors (double -> float -> double backend)
static int VIA = 0;
static std::shared_ptr<DM> make_dm_m(const crsd &A, const part &rp, const part &cp) {
    auto D = make_dm(A, rp, cp);
    if (VIA) { DMF F(*D); D = std::make_shared<DM>(F); }
    if (MOVED) D->move_to_backend(BD::params(), true);
    return D;
}
static std::vector<double> slice(const std::vector<double> &g, const part &p) { return std::vector<double>(g.begin() + p[R], g.begin() + p[R + 1]); }
static std::vector<double> rand_vec(vr::rng &g, int n, int vmax = 3) { std::vector<double> v(n); for (auto &x : v) x = g.range(-vmax, vmax); return v; }

struct lists {
    std::vector<std::string> names; std::vector<std::vector<ll>> v;
    template <class V> void add(const std::string &n, const V &x) { names.push_back(n); v.emplace_back(x.begin(), x.end()); }
};
// per-rank named integer lists -> [{name:[..],..}, ...] on rank 0
static std::string gather_named(const lists &L) {
    std::vector<ll> p; for (auto &x : L.v) { p.push_back(x.size()); p.insert(p.end(), x.begin(), x.end()); }
    auto all = dv::gather(p);
    if (R) return "";
    std::vector<std::string> out;
    for (auto &q : all) { size_t pos = 0; vr::obj o; for (auto &n : L.names) { ll k = q[pos++]; o.ints(n, q.begin() + pos, q.begin() + pos + k); pos += k; } out.push_back(o.done()); }
    return dv::jlist(out);
}

struct rec {
    vr::obj o; bool ok = true;
    rec(const char *k, const char *tag, const crsd &A, const part &rp, const part &cp) {
        o.str("k", k).str("tag", tag).i("case", CASEID).i("np", NP).ints("rp", rp).ints("cp", cp).b("moved", MOVED).i("via", VIA);
        bool ex = true; o.raw("A", vr::crs_json(A, ex)); if (!ex) ok = false;
    }
    void put() {
        bool good = dv::all_ok(ok && o.exact);
        if (R == 0) { if (good) dv::emit(o.done()); else { vr::obj x; x.str("e", "Inexact").i("case", CASEID); dv::emit(x.done()); } }
    }
};
static void begin_op() { if (SHIM) { dv::barrier(); vshim_begin(); } }
static void end_op(const char *op) {
    if (!SHIM) return;
    std::string log = dv::take_msgs();
    if (R == 0) { vr::obj o; o.str("k", "msgs").str("op", op).i("case", CASEID).i("np", NP).raw("log", log); dv::emit(o.done()); }
}
#define GUARD(stmt) try { stmt; } catch (const std::exception &e) { /* an exception on one rank only would hang the others: abort */ \
    fprintf(stderr, "rank %d: exception %s\n", R, e.what()); if (R == 0) { vr::obj x; x.str("e", "Exception").str("what", e.what()).i("case", CASEID); dv::emit(x.done()); } PMPI_Abort(MPI_COMM_WORLD, 3); }

// ------------------------------------------------------------------ operations
static void op_build(const char *tag, const crsd &A, const part &rp, const part &cp) {
    begin_op();
    auto D = make_dm(A, rp, cp);
    end_op("build");
    rec r("build", tag, A, rp, cp);
    std::string d = dv::gather_dm(*D, A.ncols, r.ok);
    std::vector<ll> sz = {D->glob_rows(), D->glob_cols(), D->glob_nonzeros(), D->loc_rows(), D->loc_cols(), D->loc_nonzeros(), D->loc_col_shift()};
    std::string s = dv::gather_lists(sz);
    r.o.raw("D", d).raw("sizes", s); r.put();

    // communication pattern
    const auto &C = D->cpat();
    std::vector<ll> rcol(C.recv.count(), -1), rdom(C.recv.count(), -1);
    for (auto p = C.remote_begin(); p != C.remote_end(); ++p) { int d_, k; std::tie(d_, k) = p->second; if (k >= 0 && k < (int)rcol.size()) { rcol[k] = p->first; rdom[k] = d_; } }
    lists L; L.add("snbr", C.send.nbr); L.add("sptr", C.send.ptr); L.add("scol", C.send.col);
    L.add("rnbr", C.recv.nbr); L.add("rptr", C.recv.ptr); L.add("rcol", rcol); L.add("rdom", rdom);
    rec q("pattern", tag, A, rp, cp);
    q.o.raw("D", d).raw("pat", gather_named(L)); q.put();
}

static void op_spmv(vr::rng &g, const char *tag, const crsd &A, const part &rp, const part &cp, bool keep) {
    int n = A.nrows, m = A.ncols;
    std::vector<double> x = rand_vec(g, m), x2 = rand_vec(g, m), y0 = rand_vec(g, n), f = rand_vec(g, n);
    double alpha = g.range(-2, 2), beta = g.range(-2, 2);
    auto D = make_dm_m(A, rp, cp);
    D->move_to_backend(BD::params(), keep);
    std::vector<double> xs = slice(x, cp), x2s = slice(x2, cp), y = slice(y0, rp), y2 = slice(y0, rp), fs = slice(f, rp), res(rp[R + 1] - rp[R], 0.0);
    begin_op();
    backend::spmv(alpha, *D, xs, beta, y);          // first exchange
    backend::spmv(alpha, *D, x2s, beta, y2);        // second exchange on the same tag must not mix with the first
    backend::residual(fs, *D, xs, res);
    end_op("spmv");
    rec r("spmv", tag, A, rp, cp);
    size_t nl = y.size();
    r.o.b("keep", keep).d("alpha", alpha).d("beta", beta).dbls("x", x).dbls("x2", x2).dbls("y0", y0).dbls("f", f);
    r.o.raw("out", dv::gather_vec(dv::ivec(y, nl, r.ok))).raw("out2", dv::gather_vec(dv::ivec(y2, nl, r.ok))).raw("res", dv::gather_vec(dv::ivec(res, nl, r.ok)));
    r.put();
}

static void op_inner(vr::rng &g, const char *tag, const crsd &A, const part &rp, const part &cp) {
    int n = A.nrows;
    std::vector<double> x = rand_vec(g, n, 5), y = rand_vec(g, n, 5);
    std::vector<double> xs = slice(x, rp), ys = slice(y, rp);
    mpi::inner_product ip(comm);
    begin_op();
    double v = ip(xs, ys);
    end_op("inner");
    rec r("inner", tag, A, rp, cp);
    std::vector<ll> mine = {dv::q(v, 0, r.ok)};
    r.o.dbls("x", x).dbls("y", y).raw("out", dv::gather_lists(mine)); r.put();
}

static void op_transpose(const char *tag, const crsd &A, const part &rp, const part &cp) {
    auto D = make_dm_m(A, rp, cp);
    begin_op();
    auto T = mpi::transpose(*D);
    end_op("transpose");
    rec r("transpose", tag, A, rp, cp);
    std::vector<ll> sz = {T->glob_rows(), T->glob_cols(), T->glob_nonzeros()};
    r.o.raw("T", dv::gather_dm(*T, A.nrows, r.ok)).raw("sizes", dv::gather_lists(sz)); r.put();
}

static void op_product(const char *tag, const crsd &A, const part &rp, const part &cp, const crsd &B, const part &cq) {
    auto D = make_dm_m(A, rp, cp);
    auto E = make_dm_m(B, cp, cq);
    begin_op();
    auto C = mpi::product(*D, *E);
    end_op("product");
    rec r("product", tag, A, rp, cp);
    bool ex = true; r.o.raw("B", vr::crs_json(B, ex)).ints("cq", cq); if (!ex) r.ok = false;
    std::vector<ll> sz = {C->glob_rows(), C->glob_cols(), C->glob_nonzeros()};
    r.o.raw("C", dv::gather_dm(*C, B.ncols, r.ok)).raw("sizes", dv::gather_lists(sz)); r.put();

    // remote_rows: the rows of B that the pattern of A makes every rank fetch
    begin_op();
    auto N = mpi::remote_rows(D->cpat(), *E);
    end_op("rrows");
    const auto &P = D->cpat();
    std::vector<ll> rcol(P.recv.count(), -1);
    for (auto p = P.remote_begin(); p != P.remote_end(); ++p) { int k = std::get<1>(p->second); if (k >= 0 && k < (int)rcol.size()) rcol[k] = p->first; }
    rec q("rrows", tag, A, rp, cp);
    q.o.raw("B", vr::crs_json(B, ex)).ints("cq", cq);
    std::vector<ll> pk; dv::pack_crs(pk, *N, B.ncols);
    auto all = dv::gather(pk);
    std::vector<std::string> rows; if (R == 0) for (auto &v : all) { size_t pos = 0; rows.push_back(dv::unpack_crs_json(v, pos, q.ok)); }
    q.o.raw("rows", dv::jlist(rows)).raw("rcol", dv::gather_lists(rcol)); q.put();
}

static void op_scale_sort(vr::rng &g, const char *tag, const crsd &A, const part &rp, const part &cp) {
    double s = g.range(-3, 3);
    auto D = make_dm_m(A, rp, cp);
    mpi::scale(*D, s);
    { rec r("scale", tag, A, rp, cp); r.o.d("s", s).raw("D", dv::gather_dm(*D, A.ncols, r.ok)); r.put(); }
    // rows listed backwards: an unsorted input for sort_rows
    crsd Rv(A);
    for (size_t i = 0; i < Rv.nrows; ++i) { std::reverse(Rv.col + Rv.ptr[i], Rv.col + Rv.ptr[i + 1]); std::reverse(Rv.val + Rv.ptr[i], Rv.val + Rv.ptr[i + 1]); }
    auto E = make_dm(Rv, rp, cp);
    rec r("sort", tag, Rv, rp, cp);
    std::string before = dv::gather_dm(*E, A.ncols, r.ok);
    mpi::sort_rows(*E);
    r.o.raw("D0", before).raw("D", dv::gather_dm(*E, A.ncols, r.ok)); r.put();
}

static void op_copy(vr::rng &g, const char *tag, const crsd &A, const part &rp, const part &cp) {
    auto D = make_dm_m(A, rp, cp);
    begin_op();
    DMF F(*D);                 // copy to another backend (float values: integers stay exact)
    DM  G(F);                  // and back
    end_op("copy");
    rec r("copy", tag, A, rp, cp);
    r.o.raw("F", dv::gather_dm(F, A.ncols, r.ok)).raw("G", dv::gather_dm(G, A.ncols, r.ok));
    std::vector<ll> sz = {F.glob_rows(), F.glob_cols(), F.glob_nonzeros(), G.glob_rows(), G.glob_cols(), G.glob_nonzeros()};
    r.o.raw("sizes", dv::gather_lists(sz));
    // the copy must be usable: product with a vector through the copied pattern
    std::vector<double> x = rand_vec(g, A.ncols);
    std::vector<float> xf(cp[R + 1] - cp[R]), yf(rp[R + 1] - rp[R], 0.0f);
    for (size_t i = 0; i < xf.size(); ++i) xf[i] = (float)x[cp[R] + i];
    F.move_to_backend();
    backend::spmv(1.0f, F, xf, 0.0f, yf);
    r.o.dbls("x", x).raw("out", dv::gather_vec(dv::ivec(yf, yf.size(), r.ok))); r.put();
}

static void op_spectral(vr::rng &g, const char *tag, const crsd &A, const part &rp, const part &cp) {
    auto D = make_dm(A, rp, cp);
    begin_op();
    double gu = backend::spectral_radius<false>(*D, 0);
    end_op("gersh");
    rec r("gersh", tag, A, rp, cp);
    std::vector<ll> mine = {dv::q(gu, 0, r.ok)};
    r.o.raw("out", dv::gather_lists(mine)).d("serial", backend::spectral_radius<false>(A, 0));
    r.put();
    if (A.nrows != A.ncols || rp != cp) return;
    // square: scaled Gershgorin (bitwise vs the serial kernel) and the power method (bitwise across ranks)
    bool diag = true;
    for (size_t i = 0; i < A.nrows; ++i) { bool f = false; for (ptrdiff_t j = A.ptr[i]; j < A.ptr[i + 1]; ++j) if (A.col[j] == (ptrdiff_t)i && A.val[j] != 0) f = true; if (!f) diag = false; }
    if (!diag) return;
    double gs = backend::spectral_radius<true>(*D, 0);
    int iters = g.range(1, 6);
    double pw = backend::spectral_radius<true>(*D, iters), pu = backend::spectral_radius<false>(*D, iters);
    double ser = backend::spectral_radius<true>(A, 0);
    auto dg = [](double v) { vr::digest d; d.pod(v); return std::vector<ll>{d.lo(), d.hi()}; };
    rec q("specbits", tag, A, rp, cp);
    std::vector<ll> m2 = dg(gs), m3 = dg(pw), m4 = dg(pu);
    q.o.i("iters", iters).raw("gs", dv::gather_lists(m2)).ints("gs_serial", dg(ser)).raw("pw", dv::gather_lists(m3)).raw("pu", dv::gather_lists(m4));
    q.put();
}

// complex value types: spmv / residual judged on the harness' own real expansion ([[a,-b],[b,a]], vectors re/im
// interleaved) with the clauses of the real case; the inner product sum_i x_i conj(y_i) with both parts exact
template <class T>
static void op_complex(vr::rng &g, const char *tag, const crsd &Ar, const part &rp, const part &cp) {
    typedef std::complex<T> Z; typedef backend::builtin<Z> BZ; typedef mpi::distributed_matrix<BZ> DMZ;
    int n = Ar.nrows, m = Ar.ncols, nl = rp[R + 1] - rp[R], ml = cp[R + 1] - cp[R];
    std::vector<double> im(Ar.nnz); for (auto &v : im) v = g.range(-2, 2);
    auto cvec = [&](int k, int vmax) { std::vector<Z> v(k); for (auto &x : v) x = Z((T)g.range(-vmax, vmax), (T)g.range(-vmax, vmax)); return v; };
    std::vector<Z> x = cvec(m, 3), x2 = cvec(m, 3), y0 = cvec(n, 3), f = cvec(n, 3), u = cvec(n, 5), w = cvec(n, 5);
    double alpha = g.range(-2, 2), beta = g.range(-2, 2);
    // strip with complex values
    ptrdiff_t sn = nl; std::vector<ptrdiff_t> ptr(1, 0), col; std::vector<Z> val;
    for (int i = rp[R]; i < rp[R + 1]; ++i) { for (ptrdiff_t j = Ar.ptr[i]; j < Ar.ptr[i + 1]; ++j) { col.push_back(Ar.col[j]); val.push_back(Z((T)Ar.val[j], (T)im[j])); } ptr.push_back(col.size()); }
    if (col.empty()) { col.reserve(1); val.reserve(1); }
    DMZ D(comm, std::tie(sn, ptr, col, val), (ptrdiff_t)ml);
    D.move_to_backend();
    typedef backend::numa_vector<Z> VZ;
    auto sl = [&](const std::vector<Z> &v, const part &p) { VZ r(p[R + 1] - p[R]); for (int i = p[R]; i < p[R + 1]; ++i) r[i - p[R]] = v[i]; return r; };
    VZ xs = sl(x, cp), x2s = sl(x2, cp), y = sl(y0, rp), y2 = sl(y0, rp), fs = sl(f, rp), res(nl), us = sl(u, rp), ws = sl(w, rp);
    begin_op();
    backend::spmv((T)alpha, D, xs, (T)beta, y);
    backend::spmv((T)alpha, D, x2s, (T)beta, y2);
    backend::residual(fs, D, xs, res);
    mpi::inner_product ip(comm);
    Z dot = ip(us, ws);
    end_op("complex");
    // real expansion
    std::vector<std::vector<std::pair<int,double>>> rows(2 * n);
    for (int i = 0; i < n; ++i) for (ptrdiff_t j = Ar.ptr[i]; j < Ar.ptr[i + 1]; ++j) { int c = Ar.col[j]; double a = Ar.val[j], b = im[j];
        rows[2*i].push_back({2*c, a}); rows[2*i].push_back({2*c+1, -b}); rows[2*i+1].push_back({2*c, b}); rows[2*i+1].push_back({2*c+1, a}); }
    auto Ax = vr::from_rows(2 * n, 2 * m, rows);
    part rp2(rp), cp2(cp); for (auto &v : rp2) v *= 2; for (auto &v : cp2) v *= 2;
    auto ex = [](const std::vector<Z> &v) { std::vector<double> r; for (auto &z : v) { r.push_back(z.real()); r.push_back(z.imag()); } return r; };
    auto exl = [&](const VZ &v, bool &ok) { std::vector<ll> r; for (size_t i = 0; i < v.size(); ++i) { r.push_back(dv::q(v[i].real(), 0, ok)); r.push_back(dv::q(v[i].imag(), 0, ok)); } return r; };
    const char *vt = sizeof(T) == 8 ? "complex<double>" : "complex<float>";
    { rec r("spmv", tag, *Ax, rp2, cp2);
      r.o.str("vt", vt).b("keep", false).d("alpha", alpha).d("beta", beta).dbls("x", ex(x)).dbls("x2", ex(x2)).dbls("y0", ex(y0)).dbls("f", ex(f));
      r.o.raw("out", dv::gather_vec(exl(y, r.ok))).raw("out2", dv::gather_vec(exl(y2, r.ok))).raw("res", dv::gather_vec(exl(res, r.ok))); r.put(); }
    { rec r("cinner", tag, *Ax, rp2, cp2);
      std::vector<double> ur, ui, wr, wi; for (auto &z : u) { ur.push_back(z.real()); ui.push_back(z.imag()); } for (auto &z : w) { wr.push_back(z.real()); wi.push_back(z.imag()); }
      std::vector<ll> mine = {dv::q(dot.real(), 0, r.ok), dv::q(dot.imag(), 0, r.ok)};
      r.o.str("vt", vt).dbls("xr", ur).dbls("xi", ui).dbls("yr", wr).dbls("yi", wi).raw("out", dv::gather_lists(mine)); r.put(); }
    if (sizeof(T) == 8) {
        // block (static_matrix<double,2,1>) vectors: the inner product is the plain sum over all components
        typedef static_matrix<double, 2, 1> R2;
        backend::numa_vector<R2> bu(nl), bw(nl);
        for (int i = 0; i < nl; ++i) { bu[i](0) = u[rp[R] + i].real(); bu[i](1) = u[rp[R] + i].imag(); bw[i](0) = w[rp[R] + i].real(); bw[i](1) = w[rp[R] + i].imag(); }
        double bd = ip(bu, bw);
        rec r("inner", tag, *Ax, rp2, cp2);
        std::vector<ll> mine = {dv::q(bd, 0, r.ok)};
        r.o.str("vt", "block2x1").dbls("x", ex(u)).dbls("y", ex(w)).raw("out", dv::gather_lists(mine)); r.put();
    }
}

// move_to_backend(bprm, keep_src = true) must leave the kept local / remote blocks untouched: they
// still describe the same global matrix, and transpose / product / remote_rows / a copy to another
// backend taken from them afterwards equal the serial operation
static bool kept_intact(const char *tag, const crsd &A, const part &rp, const part &cp) {
    auto D = make_dm_m(A, rp, cp);
    rec r("kept", tag, A, rp, cp);
    r.o.raw("D", dv::gather_dm(*D, A.ncols, r.ok)); r.put();
    // the harness' own look at the kept remote column ids: the follow-up operations are only run on
    // intact sources (on a corrupted one some ranks may throw or run out of bounds while the others wait)
    std::vector<ptrdiff_t> want;
    for (int i = rp[R]; i < rp[R + 1]; ++i) for (ptrdiff_t j = A.ptr[i]; j < A.ptr[i + 1]; ++j) if (!(cp[R] <= A.col[j] && A.col[j] < cp[R + 1])) want.push_back(A.col[j]);
    const auto &Rm = *D->remote();
    return dv::all_ok(want.size() == Rm.nnz && std::equal(want.begin(), want.end(), Rm.col));
}
static void op_kept(vr::rng &g, const char *tag, const crsd &A, const part &rp, const part &cp, const crsd &B, const part &cq) {
    MOVED = true;
    try {
        bool a = kept_intact(tag, A, rp, cp), b = kept_intact(tag, B, cp, cq);
        if (a) { op_transpose(tag, A, rp, cp); op_copy(g, tag, A, rp, cp); }
        if (a && b) op_product(tag, A, rp, cp, B, cq);
    } catch (...) { MOVED = false; throw; }
    MOVED = false;
}

// a copy made by the converting constructors (distributed_matrix / comm_pattern from another backend) must be a
// full distributed matrix: same blocks, same sizes and column shift, and usable as an operand of every kernel
static bool converted_intact(const char *tag, const crsd &A, const part &rp, const part &cp) {
    auto D = make_dm_m(A, rp, cp);
    rec r("converted", tag, A, rp, cp);
    std::vector<ll> sz = {D->glob_rows(), D->glob_cols(), D->glob_nonzeros(), D->loc_rows(), D->loc_cols(), D->loc_nonzeros(), D->loc_col_shift()};
    r.o.raw("D", dv::gather_dm(*D, A.ncols, r.ok)).raw("sizes", dv::gather_lists(sz)); r.put();
    // follow-up operations only on a copy whose bookkeeping is intact on every rank (a wrong column shift makes
    // product() index out of bounds on some ranks while the others wait)
    return dv::all_ok(D->loc_col_shift() == cp[R] && D->loc_cols() == cp[R + 1] - cp[R] && D->loc_rows() == rp[R + 1] - rp[R]
                      && D->glob_cols() == (ptrdiff_t)A.ncols && D->glob_rows() == (ptrdiff_t)A.nrows);
}
static void op_converted(vr::rng &g, const char *tag, const crsd &A, const part &rp, const part &cp, const crsd &B, const part &cq) {
    VIA = 1;
    try {
        bool a = converted_intact(tag, A, rp, cp), b = converted_intact(tag, B, cp, cq);
        if (a) { op_spmv(g, tag, A, rp, cp, g.coin()); op_transpose(tag, A, rp, cp); op_scale_sort(g, tag, A, rp, cp); }
        if (a && b) op_product(tag, A, rp, cp, B, cq);
        if (a && b) {      // converted, then moved with keep_src: again only on intact kept sources
            MOVED = true;
            bool ka = kept_intact(tag, A, rp, cp), kb = kept_intact(tag, B, cp, cq);
            if (ka && kb) op_product(tag, A, rp, cp, B, cq);
            MOVED = false;
        }
    } catch (...) { VIA = 0; MOVED = false; throw; }
    VIA = 0;
}

static void all_ops(vr::rng &g, const char *tag, const crsd &A, const part &rp, const part &cp, const crsd &B, const part &cq, int level) {
    ++CASEID;
    GUARD(op_build(tag, A, rp, cp));
    GUARD(op_spmv(g, tag, A, rp, cp, true));
    GUARD(op_transpose(tag, A, rp, cp));
    GUARD(op_product(tag, A, rp, cp, B, cq));
    GUARD(op_spectral(g, tag, A, rp, cp));
    if (level >= 1) {
        GUARD(op_spmv(g, tag, A, rp, cp, false));
        GUARD(op_inner(g, tag, A, rp, cp));
        GUARD(op_scale_sort(g, tag, A, rp, cp));
        GUARD(op_copy(g, tag, A, rp, cp));
        GUARD(op_kept(g, tag, A, rp, cp, B, cq));
        GUARD(op_converted(g, tag, A, rp, cp, B, cq));
        GUARD(op_complex<double>(g, tag, A, rp, cp));
        if (CASEID % 3 == 0) GUARD(op_complex<float>(g, tag, A, rp, cp));
    }
}

// ------------------------------------------------------------------ modes
// every pattern of an r x c matrix (mask encoding of Patterns.tla) x every contiguous row and
// column partition; `stride` thins the masks (1 = exhaustive); product partner: c x c pattern
static void mode_small(uint64_t seed, int r, int c, int stride, bool same_part) {
    vr::rng g(seed * 7919 + r * 31 + c);
    auto rps = dv::all_parts(r, NP), cps = dv::all_parts(c, NP);
    unsigned nm = 1u << (r * c);
    unsigned off = stride > 1 ? (unsigned)(seed % stride) : 0;
    for (unsigned am = off; am < nm; am += stride) {
        auto A = vr::mk_pattern(r, c, am, (int)(am % 3), false);
        unsigned bm = (am * 2654435761u) >> 7;
        auto B = vr::mk_pattern(c, c, bm & ((1u << (c * c)) - 1), 1, false);
        for (size_t i = 0; i < rps.size(); ++i) for (size_t j = 0; j < cps.size(); ++j) {
            if (same_part && i != j) continue;
            // thin the partition pairs as well when the masks are thinned
            if (!same_part && stride > 1 && ((am / stride + i * 5 + j) % 3) != 0) continue;
            const part &cq = cps[(i + j + am) % cps.size()];
            all_ops(g, "small", *A, rps[i], cps[j], *B, cq, (am / std::max(1, stride)) % 4 == 0 ? 1 : 0);
        }
    }
}

static void mode_random(uint64_t seed, int reps, int nmax, const char *tag) {
    vr::rng g(seed + 4242);
    for (int rep = 0; rep < reps; ++rep) {
        bool square = g.coin(0.6);
        int n = g.range(1, nmax), m = square ? n : g.range(1, nmax), k = g.range(1, nmax);
        double da = std::min(0.9, g.unit() * 0.3 + 2.0 / std::max(m, 1)), db = std::min(0.9, g.unit() * 0.3 + 2.0 / std::max(k, 1));
        auto A = vr::random_int(g, n, m, da, 3, g.coin(0.3), square && g.coin(0.7));
        auto B = vr::random_int(g, m, k, db, 3, false, false);
        part rp = dv::random_part(g, n, NP, g.below(4));
        part cp = square && g.coin(0.8) ? rp : dv::random_part(g, m, NP, g.below(4));
        part cq = dv::random_part(g, k, NP, g.below(4));
        all_ops(g, tag, *A, rp, cp, *B, cq, 1);
    }
}

int main(int argc, char **argv) {
    dv::world W(&argc, &argv);
    comm = W.comm; R = comm.rank; NP = comm.size;
    std::string mode = argc > 1 ? argv[1] : "small";
    uint64_t seed = vr::env_seed();
    bool th = vr::thorough();
    SHIM = vr::env_int("VERIF_SHIM", 0) != 0;
    int stride = vr::env_int("VERIF_STRIDE", 1);
    if (mode == "small") mode_small(seed, 3, 3, stride, vr::env_int("VERIF_SAMEPART", 1) != 0);
    else if (mode == "rect") { mode_small(seed, 2, 3, stride, false); mode_small(seed, 3, 2, stride, false); }
    else if (mode == "random") mode_random(seed, vr::env_int("VERIF_REPS", th ? 150 : 30), vr::env_int("VERIF_NMAX", th ? 40 : 20), "rand");
    else if (mode == "big") mode_random(seed + 9, vr::env_int("VERIF_REPS", th ? 10 : 3), vr::env_int("VERIF_NMAX", th ? 200 : 60), "big");
    dv::barrier();
    if (R == 0) { vr::obj o; o.str("e", "End"); dv::emit(o.done()); }
    return 0;
}
