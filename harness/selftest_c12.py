#!/usr/bin/env python3
"""Self-test of the C12 binding (not registered in MANIFEST): applies the edits P1..P8 / B1 to a scratch copy of
/repo/amgcl one at a time and runs `REPO=<scratch> bin/check C12`.
usage: harness/selftest_c12.py [name ...]   (expected: rc=1 for P1-P7, rc=0 + SPEC-DRIFT for P8, rc=0 for B1)"""
import os, shutil, subprocess, sys, time
SCR = "/tmp/mutC12"
MUTS = {
 "P1-claimed-point-keeps-owner": ("amgcl/mpi/coarsening/pmis.hpp",
    "                    if (loc_state[c] == pmis::undone) --n_undone;\n\n                    loc_owner[c] = Sp.send.nbr[i];\n                    loc_state[c] = id;\n",
    "                    if (loc_state[c] == pmis::undone) --n_undone;\n\n                    if (loc_owner[c] < 0) loc_owner[c] = Sp.send.nbr[i];\n                    loc_state[c] = id;\n"),
 "P2-consolidated-rhs-permuted": ("amgcl/mpi/direct_solver/solver_base.hpp",
    "                std::copy(host_v.begin(), host_v.end(), cons_f.begin());\n",
    "                std::reverse_copy(host_v.begin(), host_v.end(), cons_f.begin());\n"),
 "P3-galerkin-wrong-scale": ("amgcl/mpi/coarsening/aggregation.hpp",
    "scaled_galerkin(A, P, R, 1 / prm.over_interp);", "scaled_galerkin(A, P, R, prm.over_interp);"),
 "P4-residual-drops-remote": ("amgcl/mpi/distributed_matrix.hpp",
    "            if (C->needs_remote())\n                backend::spmv(-one, *A_rem, *C->x_rem, one, r);\n",
    "            if (false && C->needs_remote())\n                backend::spmv(-one, *A_rem, *C->x_rem, one, r);\n"),
 "P5-renumber-not-sent": ("amgcl/mpi/coarsening/pmis.hpp",
    "                    ptrdiff_t id = recv_pts[k+1];\n\n                    loc_state[c] = id;\n",
    "                    ptrdiff_t id = recv_pts[k+1];\n\n                    (void)id; (void)c;\n"),
 "P6-local-termination-test": ("amgcl/mpi/coarsening/pmis.hpp",
    "            if (0 == comm.reduce(MPI_SUM, n_undone))\n                break;\n",
    "            if (0 == n_undone)\n                break;\n"),
 "P7-slave-solution-offset": ("amgcl/mpi/direct_solver/solver_base.hpp",
    "                    MPI_Isend(&cons_x[shift], counts[j], T, i, sol_tag, comm, &solve_req[j]);\n",
    "                    MPI_Isend(&cons_x[shift - 1], counts[j], T, i, sol_tag, comm, &solve_req[j]);\n"),
 "P8-selectable-ignores-rank-order": ("amgcl/mpi/coarsening/pmis.hpp",
    "                            if (rem_state[c] == pmis::undone && Sp.recv.nbr[d] > comm.rank) {\n",
    "                            if (false && rem_state[c] == pmis::undone && Sp.recv.nbr[d] > comm.rank) {\n"),
 "B1-benign-merge-local-rotation": ("amgcl/mpi/partition/merge.hpp",
    "            perm[i] = i + row_beg;\n", "            perm[i] = (i + 1) % nrows + row_beg;\n"),
}
which = sys.argv[1:] or list(MUTS)
for name in which:
    f, old, new = MUTS[name]
    shutil.rmtree(SCR, ignore_errors=True)
    os.makedirs(SCR)
    shutil.copytree("/repo/amgcl", SCR + "/amgcl")
    p = os.path.join(SCR, f)
    s = open(p).read()
    if s.count(old) < 1:
        print(name, "PATTERN NOT FOUND", flush=True); continue
    open(p, "w").write(s.replace(old, new, 1))
    t = time.time()
    r = subprocess.run(["bin/check", "C12", "--tier", "quick"], cwd="/verif", env=dict(os.environ, REPO=SCR),
                       stdout=subprocess.PIPE, stderr=subprocess.STDOUT)
    out = r.stdout.decode()
    lines = [l for l in out.splitlines() if l.startswith(("VIOLATION", "OK", "ERROR", "KNOWN", "SPEC-DRIFT"))]
    kinds = sorted(set(l.split("(")[1].split(";")[0] if "(" in l else l for l in lines))
    print("%s rc=%d %.0fs :: %s" % (name, r.returncode, time.time() - t, " | ".join(kinds)[:900]), flush=True)
shutil.rmtree(SCR, ignore_errors=True)
