// C19 recorder: writes REAL MatrixMarket / binary files with amgcl's writers into a scratch
// directory, damages them (every truncation point, single-byte corruptions), reads them back
// through io::mm_reader, io::read_crs, io::read_dense, io::crs_size and logs, per case, the
// outcome kind (ok / exception / crash) and the returned structure as ndjson.  The verdict
// is taken by TLC (spec/C19Trace.tla).
//
// usage: record_io <mode>     mode: mmfault | binfault | rt | bits | usedvec | mtread
//   env VERIF_SAN=1 : sanitizer run, only crashing cases and a summary line are printed
//
// Every read of a damaged file runs in a forked child (batches; a batch that dies is re-run
// case by case with one grandchild per read), so a crash of the real code is an observation
// ("st":"crash"), never the end of the trace.  Big allocations throw bad_alloc
// (the recorder is built with -fopenmp like an application using the library's parallel loops and run with
// OMP_NUM_THREADS=1, so that no thread exists at fork time; replaced operator new: the same resource limit
// with and without the sanitizer;
// VERIF_ALLOC_MB, default 16 MiB - every valid file here is far smaller).
#include <new>
#include <cstdlib>
static size_t VERIF_ALLOC_LIMIT = size_t(16) << 20;      // env VERIF_ALLOC_MB
void* operator new(size_t n) { if (n > VERIF_ALLOC_LIMIT) throw std::bad_alloc(); void *p = malloc(n ? n : 1); if (!p) throw std::bad_alloc(); return p; }
void* operator new[](size_t n) { return operator new(n); }
// the nothrow forms too (std::get_temporary_buffer / std::stable_sort use them): every form has to end in
// malloc / free, or the sanitizer reports an alloc-dealloc mismatch that is an artefact of this file
void* operator new(size_t n, const std::nothrow_t&) noexcept { return n > VERIF_ALLOC_LIMIT ? nullptr : malloc(n ? n : 1); }
void* operator new[](size_t n, const std::nothrow_t&) noexcept { return n > VERIF_ALLOC_LIMIT ? nullptr : malloc(n ? n : 1); }
void operator delete(void *p) noexcept { free(p); }
void operator delete[](void *p) noexcept { free(p); }
void operator delete(void *p, size_t) noexcept { free(p); }
void operator delete[](void *p, size_t) noexcept { free(p); }
void operator delete(void *p, const std::nothrow_t&) noexcept { free(p); }
void operator delete[](void *p, const std::nothrow_t&) noexcept { free(p); }

#include <vrec.hpp>
#include <amgcl/util.hpp>
#include <amgcl/io/mm.hpp>
#include <amgcl/io/binary.hpp>
#include <amgcl/adapter/crs_tuple.hpp>
#include <amgcl/value_type/complex.hpp>
#include <map>
#include <set>
#include <functional>
#include <fstream>
#include <limits>
#include <sys/wait.h>
#include <sys/stat.h>
#include <fcntl.h>
#include <dirent.h>
#include <signal.h>

using namespace amgcl;
typedef std::complex<double> cplx;

// ------------------------------------------------------------------ scratch dir
static std::string g_dir;
static pid_t g_main;
static void cleanup_dir() {
    if (getpid() != g_main || g_dir.empty()) return;
    DIR *d = opendir(g_dir.c_str());
    if (d) { while (dirent *e = readdir(d)) { std::string n = e->d_name; if (n != "." && n != "..") unlink((g_dir + "/" + n).c_str()); } closedir(d); }
    rmdir(g_dir.c_str());
}
static void make_dir() {
    const char *t = getenv("TMPDIR");
    std::string base = (t && *t) ? t : "/tmp";
    std::string tpl = base + "/verif-io-XXXXXX";
    std::vector<char> buf(tpl.begin(), tpl.end()); buf.push_back(0);
    if (!mkdtemp(buf.data())) { perror("mkdtemp"); exit(2); }
    g_dir = buf.data(); g_main = getpid(); atexit(cleanup_dir);
}
static std::string P(const std::string &name) { return g_dir + "/" + name; }
static std::string g_lane;      // prefix of the scratch files of one lane of the parallel case driver
static std::string LP(const std::string &name) { return P(g_lane + name); }
static std::string slurp(const std::string &p) { std::ifstream f(p, std::ios::binary); std::ostringstream s; s << f.rdbuf(); return s.str(); }
static void spit(const std::string &p, const std::string &d) { std::ofstream f(p, std::ios::binary | std::ios::trunc); f.write(d.data(), d.size()); }

static bool g_san = false;
static long sat(long long v) { const long long L = 1ll << 30; return (long)(v > L ? L : (v < -L ? -L : v)); }

// ------------------------------------------------------------------ outcomes
struct Intern {               // bit pattern -> small id (id equality <=> bitwise equality)
    std::map<std::string, int> m;
    int id(const void *p, size_t n) { std::string k((const char*)p, n); auto it = m.find(k); if (it != m.end()) return it->second; int v = (int)m.size() + 1; m[k] = v; return v; }
};
struct Out {
    std::string st = "err", why;
    long n = 0, m = 0;
    std::vector<long> ptr, col, val;
    std::string json() const {
        vr::obj o; o.str("st", st).str("why", why.substr(0, 80)).i("n", n).i("m", m);
        if (ptr.size() + col.size() + val.size() > 20000) { o.i("big", 1); o.raw("ptr", "[0]").raw("col", "[]").raw("val", "[]"); }
        else { o.ints("ptr", ptr).ints("col", col).ints("val", val); }
        return o.done();
    }
};
template <class F> Out guarded(F f) {
    Out o;
    try { f(o); o.st = "ok"; }
    catch (const std::bad_alloc &) { o.why = "bad_alloc"; }
    catch (const std::length_error &e) { o.why = std::string("length_error: ") + e.what(); }
    catch (const std::out_of_range &e) { o.why = std::string("out_of_range: ") + e.what(); }
    catch (const std::runtime_error &e) { o.why = std::string("runtime_error: ") + e.what(); }
    catch (const std::exception &e) { o.why = std::string("exception: ") + e.what(); }
    catch (...) { o.why = "unknown exception"; }
    if (o.st != "ok") { o.n = o.m = 0; o.ptr.assign(1, 0); o.col.clear(); o.val.clear(); }
    return o;
}
// History of the output vectors: 0 = fresh (empty) vectors; k > 0 = vectors that already hold k elements of a
// previous result (value 5); -1 = the same vectors were used for a full read of the same file just before.
static int g_prefill = 0;
template <class T> void prefill(std::vector<T> &v) { if (g_prefill > 0) v.assign((size_t)g_prefill, T(5)); }
template <class V> void put_vals(Out &o, const std::vector<V> &v, Intern &in) { for (auto &x : v) o.val.push_back(in.id(&x, sizeof(V))); }

template <class Idx, class Val>
Out read_mm_sparse(const std::string &path, long rb, long re, Intern &in) {
    return guarded([&](Out &o) {
        io::mm_reader rd(path);
        std::vector<Idx> ptr, col; std::vector<Val> val; size_t n, m;
        prefill(ptr); prefill(col); prefill(val);
        if (g_prefill < 0) { io::mm_reader r0(path); r0(ptr, col, val); }
        std::tie(n, m) = rd(ptr, col, val, rb, re);
        o.n = sat((ptrdiff_t)n); o.m = sat((ptrdiff_t)m);
        for (auto p : ptr) o.ptr.push_back(sat(p));
        for (auto c : col) o.col.push_back(sat(c));
        put_vals(o, val, in);
    });
}
template <class Val>
Out read_mm_dense(const std::string &path, long rb, long re, Intern &in) {
    return guarded([&](Out &o) {
        io::mm_reader rd(path);
        std::vector<Val> val; size_t n, m;
        prefill(val);
        if (g_prefill < 0) { io::mm_reader r0(path); r0(val); }
        std::tie(n, m) = rd(val, rb, re);
        o.n = sat((ptrdiff_t)n); o.m = sat((ptrdiff_t)m); o.ptr.assign(1, 0);
        put_vals(o, val, in);
    });
}
template <class SizeT, class Ptr, class Col, class Val>
Out read_bin_crs(const std::string &path, long rb, long re, Intern &in) {
    return guarded([&](Out &o) {
        SizeT n; std::vector<Ptr> ptr; std::vector<Col> col; std::vector<Val> val;
        prefill(ptr); prefill(col); prefill(val);
        if (g_prefill < 0) io::read_crs(path, n, ptr, col, val);
        io::read_crs(path, n, ptr, col, val, rb, re);
        o.n = sat((ptrdiff_t)ptr.size() - 1); o.m = 0;       // the format has no column count
        for (auto p : ptr) o.ptr.push_back(sat(p));
        for (auto c : col) o.col.push_back(sat(c));
        put_vals(o, val, in);
    });
}
template <class SizeT, class Val>
Out read_bin_dense(const std::string &path, long rb, long re, Intern &in) {
    return guarded([&](Out &o) {
        SizeT n, m; std::vector<Val> val;
        prefill(val);
        if (g_prefill < 0) io::read_dense(path, n, m, val);
        io::read_dense(path, n, m, val, rb, re);
        long rows = rb < 0 ? 0 : rb, rowe = re < 0 ? (long)(ptrdiff_t)n : re;
        o.n = sat(rowe - rows); o.m = sat((ptrdiff_t)m); o.ptr.assign(1, 0);
        put_vals(o, val, in);
    });
}
template <class SizeT>
Out read_bin_size(const std::string &path) {
    return guarded([&](Out &o) { SizeT n = io::crs_size<SizeT>(path); o.n = sat((ptrdiff_t)n); o.ptr.assign(1, 0); });
}

// ------------------------------------------------------------------ process isolation
// In a child a call of std::terminate (an exception that cannot leave an OpenMP parallel region, a
// noexcept violation, ...) has to kill the child with SIGABRT: it is an observation ("crash"), and it
// must not print into the stdout the child shares with the recorder.
static void child_terminate_is_abort() { std::set_terminate([]() { signal(SIGABRT, SIG_DFL); abort(); }); }
static std::string crash_json(const std::string &why) {
    Out o; o.st = "crash"; o.why = why; o.ptr.assign(1, 0); return o.json();
}
static std::string describe_death(int status, const std::string &errfile) {
    std::string why;
    if (WIFSIGNALED(status)) { int s = WTERMSIG(status); why = s == SIGALRM ? "hang (alarm)" : "signal " + std::to_string(s); }
    else why = "exit " + std::to_string(WEXITSTATUS(status));
    std::string err = slurp(errfile);
    size_t p = err.find("AddressSanitizer: ");
    if (p != std::string::npos) { size_t e = err.find_first_of(" \n", p + 18); why += " asan:" + err.substr(p + 18, e - p - 18); }
    p = err.find("runtime error: ");
    if (p != std::string::npos) { size_t e = err.find('\n', p); why += " ubsan:" + err.substr(p + 15, std::min<size_t>(e - p - 15, 60)); }
    return why;
}
// run f in a child; returns its text, or the crash fragment made by `oncrash(why)`
static std::string in_child(const std::function<std::string()> &f, const std::function<std::string(const std::string&)> &oncrash, int seconds = 5) {
    int fd[2]; if (pipe(fd)) { perror("pipe"); exit(2); }
    std::string errfile = LP("stderr.txt");
    std::cout << std::flush;
    pid_t pid = fork();
    if (pid < 0) { perror("fork"); exit(2); }
    if (pid == 0) {
        close(fd[0]);
        int ef = open(errfile.c_str(), O_WRONLY | O_CREAT | O_TRUNC, 0600); if (ef >= 0) { dup2(ef, 2); close(ef); }
        child_terminate_is_abort();
        vr::cpu_alarm(g_san ? 4 * seconds : seconds);
        std::string s = f();
        size_t off = 0; while (off < s.size()) { ssize_t w = write(fd[1], s.data() + off, s.size() - off); if (w <= 0) break; off += w; }
        _exit(0);
    }
    close(fd[1]);
    std::string s; char buf[65536]; ssize_t r;
    while ((r = read(fd[0], buf, sizeof buf)) > 0) s.append(buf, r);
    close(fd[0]);
    int status = 0; waitpid(pid, &status, 0);
    if (WIFEXITED(status) && WEXITSTATUS(status) == 0) return s;
    return oncrash(describe_death(status, errfile));
}
// one read, isolated or not
static std::string sub(bool isolate, const std::function<Out()> &f) {
    if (!isolate) return f().json();
    return in_child([&]() { return f().json(); }, crash_json);
}
// case driver: run(idx, isolate) -> one ndjson line
static long g_cases = 0, g_crashed = 0;
// Without the sanitizer an out-of-bounds write may corrupt the heap silently, so every case gets
// its own process; under ASan the first bad access aborts, so cases are batched.
static const long ISOLATE_CAP = 40;
static bool g_full_only = false;
static void drive_slice(int first, int N, const std::function<std::string(int, bool)> &run, std::ostream &out) {
    int batch = g_san ? 64 : 1;
    int idx = first;
    while (idx < N) {
        int end = std::min(N, idx + batch);
        int fd[2]; if (pipe(fd)) { perror("pipe"); exit(2); }
        out << std::flush; std::cout << std::flush;
        pid_t pid = fork();
        if (pid < 0) { perror("fork"); exit(2); }
        if (pid == 0) {
            close(fd[0]);
            int ef = open(LP("stderr-batch.txt").c_str(), O_WRONLY | O_CREAT | O_TRUNC, 0600); if (ef >= 0) { dup2(ef, 2); close(ef); }
            child_terminate_is_abort();
            for (int j = idx; j < end; ++j) {
                vr::cpu_alarm(g_san ? 20 : 5);
                std::string s = run(j, false) + "\n";
                size_t off = 0; while (off < s.size()) { ssize_t w = write(fd[1], s.data() + off, s.size() - off); if (w <= 0) _exit(9); off += w; }
            }
            _exit(0);
        }
        close(fd[1]);
        std::string s; char buf[65536]; ssize_t r;
        while ((r = read(fd[0], buf, sizeof buf)) > 0) s.append(buf, r);
        close(fd[0]);
        int status = 0; waitpid(pid, &status, 0);
        // complete lines = completed cases (a torn last line belongs to the case that died)
        int done = 0; size_t last = 0;
        for (size_t p = 0; p < s.size(); ++p) if (s[p] == '\n') { ++done; last = p + 1; }
        if (done > end - idx) { done = end - idx; }
        if (!g_san) out << s.substr(0, last);
        g_cases += done;
        idx += done;
        if (!(WIFEXITED(status) && WEXITSTATUS(status) == 0) && idx < end) {
            // case idx killed the batch: re-run it with every read isolated (one grandchild per read).  When a
            // change of the library makes hundreds of cases die, that costs minutes: after ISOLATE_CAP cases per
            // lane the remaining dying cases are re-run with the full read isolated only.
            g_full_only = g_crashed >= ISOLATE_CAP;
            out << run(idx, true) << "\n";
            g_full_only = false;
            ++g_cases; ++g_crashed; ++idx;
        }
        out << std::flush;
    }
}
// The cases are independent: VERIF_LANES (default 8) lane processes work on contiguous slices at the same time
// (one fork-and-wait per case is latency bound on a busy machine), each with its own scratch files and its
// own output file; the parent prints the lane files one after the other, so that no line is ever torn.
static void drive(int N, const std::function<std::string(int, bool)> &run) {
    int L = std::max(1, vr::env_int("VERIF_LANES", 8)); if (N < 4 * L) L = 1;
    if (L == 1) { drive_slice(0, N, run, std::cout); return; }
    std::vector<pid_t> pids(L);
    std::cout << std::flush;
    for (int l = 0; l < L; ++l) {
        pid_t pid = fork();
        if (pid < 0) { perror("fork"); exit(2); }
        if (pid == 0) {
            g_lane = "lane" + std::to_string(l) + "-"; g_cases = g_crashed = 0;
            std::ofstream out(P("lane" + std::to_string(l) + ".out"));
            drive_slice((int)((long long)N * l / L), (int)((long long)N * (l + 1) / L), run, out);
            out << "#done " << g_cases << " " << g_crashed << "\n" << std::flush; out.close();
            _exit(0);
        }
        pids[l] = pid;
    }
    for (int l = 0; l < L; ++l) {
        int status = 0; waitpid(pids[l], &status, 0);
        std::string txt = slurp(P("lane" + std::to_string(l) + ".out"));
        size_t t = txt.rfind("#done ");
        bool ok = WIFEXITED(status) && WEXITSTATUS(status) == 0 && t != std::string::npos && (t == 0 || txt[t - 1] == '\n');
        if (ok) { long a = 0, b = 0; sscanf(txt.c_str() + t, "#done %ld %ld", &a, &b); g_cases += a; g_crashed += b; std::cout << txt.substr(0, t) << std::flush; }
        else { g_lane = "lane" + std::to_string(l) + "r-"; drive_slice((int)((long long)N * l / L), (int)((long long)N * (l + 1) / L), run, std::cout); g_lane = ""; }   // a lane that died (it runs no library code): redo its slice here
    }
}

// ------------------------------------------------------------------ MatrixMarket lexical abstraction
static const char *KW[] = {"%%MatrixMarket", "matrix", "coordinate", "array", "real", "complex", "integer", "general", "symmetric"};
static std::string kw_of(const std::string &t) { for (auto k : KW) if (t == k) return k; return "?"; }
static std::vector<std::string> split_ws(const std::string &l) {
    std::vector<std::string> t; size_t i = 0;
    while (i < l.size()) { while (i < l.size() && isspace((unsigned char)l[i])) ++i; size_t b = i; while (i < l.size() && !isspace((unsigned char)l[i])) ++i; if (i > b) t.push_back(l.substr(b, i - b)); }
    return t;
}
static std::vector<std::string> split_lines(const std::string &d) {   // as std::getline sees them
    std::vector<std::string> ls; size_t b = 0;
    while (b < d.size()) { size_t e = d.find('\n', b); if (e == std::string::npos) { ls.push_back(d.substr(b)); break; } ls.push_back(d.substr(b, e - b)); b = e + 1; }
    return ls;
}
static bool valid_banner(const std::vector<std::string> &b) {
    return b.size() >= 5 && b[0] == "%%MatrixMarket" && b[1] == "matrix" && (b[2] == "coordinate" || b[2] == "array")
        && (b[3] == "real" || b[3] == "complex" || b[3] == "integer") && (b[4] == "general" || b[4] == "symmetric");
}
// token class: 0 pure int (|v| <= 1e9), 1 pure real, 2 anything else
static int tok_class(const std::string &t, long &v, long &ip) {
    size_t i = 0; if (i < t.size() && (t[i] == '+' || t[i] == '-')) ++i;
    size_t d = i; while (i < t.size() && isdigit((unsigned char)t[i])) ++i;
    if (i == t.size() && i > d && i - d <= 9) { v = atol(t.c_str()); ip = v; return 0; }
    for (char c : t) if (!(isdigit((unsigned char)c) || c == '+' || c == '-' || c == '.' || c == 'e' || c == 'E')) return 2;
    bool dig = false; for (char c : t) if (isdigit((unsigned char)c)) dig = true;
    if (!dig) return 2;
    char *end = 0; double x = strtod(t.c_str(), &end);
    if (*end || !std::isfinite(x) || std::fabs(x) > 1e9) return 2;
    ip = (long)x; v = (x == std::rint(x)) ? (long)x : 99;
    return 1;
}
// abstract form of a (damaged) file for spec/MatrixMarket.tla; lex = false if some token that the
// reader may look at cannot be classified cleanly (then only the weak clauses are judged)
static std::string mm_abstract(const std::string &data, bool dense, const std::string &kind, bool &lex, bool &hdr, bool &kindfact) {
    auto lines = split_lines(data);
    std::vector<std::string> banner = lines.empty() ? std::vector<std::string>() : split_ws(lines[0]);
    hdr = !valid_banner(banner);
    kindfact = banner.size() >= 5 &&
        (((banner[3] == "real" || banner[3] == "complex" || banner[3] == "integer") && banner[3] != kind) ||
         ((banner[2] == "coordinate" || banner[2] == "array") && (banner[2] == "array") != dense));
    lex = true;
    std::ostringstream b; b << "{\"banner\":[";
    for (size_t i = 0; i < banner.size() && i < 8; ++i) b << (i ? "," : "") << "\"" << kw_of(banner[i]) << "\"";
    b << "],\"body\":[";
    bool sizes_seen = false; bool first = true;
    bool filedense = banner.size() >= 3 && banner[2] == "array";
    std::string fkind = banner.size() >= 4 ? banner[3] : "real";
    for (size_t l = 1; l < lines.size(); ++l) {
        const std::string &ln = lines[l];
        bool cm = !ln.empty() && ln[0] == '%';
        if (!first) b << ","; first = false;
        if (cm && !sizes_seen) { b << "{\"cm\":true,\"t\":[]}"; continue; }
        // (a '%' line among the data lines is not a comment for the reader: its tokens fail)
        auto ts = split_ws(ln);
        int nint = !sizes_seen ? 3 : (dense ? 0 : 2);          // leading integer positions
        if (sizes_seen && kind == "integer") nint = 99;
        b << "{\"cm\":" << (cm ? "true" : "false") << ",\"t\":[";
        for (size_t q = 0; q < ts.size() && q < 8; ++q) {
            long v = 0, ip = 0; int c = tok_class(ts[q], v, ip);
            if (c == 2 || ((int)q < nint && c != 0)) { if (q < 5) lex = false; c = 2; }
            if (q) b << ",";
            if (c == 0) b << "{\"c\":\"int\",\"v\":" << v << "}";
            else if (c == 1) b << "{\"c\":\"real\",\"v\":" << v << ",\"ip\":" << ip << "}";
            else b << "{\"c\":\"garb\"}";
        }
        b << "]}";
        if (!cm) sizes_seen = true; else lex = false;
    }
    b << "]}";
    (void)filedense; (void)fkind;
    if (lines.size() > 60) lex = false;          // keep the transcribed reader (a recursive operator in TLC) shallow
    return b.str();
}

// ------------------------------------------------------------------ valid files
struct Mat { long n = 0, m = 0; std::vector<long> ptr, col; std::vector<long> val; };   // val = interned ids
struct FileSpec {
    int id; std::string fmt;      // "mm-sparse" | "mm-dense" | "bin-crs" | "bin-dense"
    std::string kind;             // real | complex | integer
    bool sym = false; int idx32 = 0;
    std::string data;             // the valid file
    long n = 0, m = 0;
    size_t last_line = 0;         // byte offset of the last data line (mm)
    bool has_data = false;
    int S = 8, Pw = 8, C = 8, V = 8; // binary field widths
    std::function<Out(const std::string&, long, long, Intern&)> read;
    std::function<Out(const std::string&)> size;
    std::function<Mat(Intern&)> orig;   // what was written (values interned)
};

static std::string fmt_val(double v) { char b[64]; snprintf(b, sizeof b, "%.20e", v); return b; }

template <class V> std::string mat_json(long n, long m, const std::vector<ptrdiff_t> &ptr, const std::vector<ptrdiff_t> &col, const std::vector<V> &val, Intern &in) {
    vr::obj o; o.i("n", n).i("m", m).ints("ptr", ptr).ints("col", col);
    std::vector<long> ids; for (auto &x : val) ids.push_back(in.id(&x, sizeof(V)));
    o.ints("val", ids); return o.done();
}

// generic sparse holder
template <class V> struct Sp { long n, m; std::vector<ptrdiff_t> ptr, col; std::vector<V> val; };
template <class V> Sp<V> make_sp(long n, long m, const std::vector<std::vector<std::pair<int, V>>> &rows) {
    Sp<V> A; A.n = n; A.m = m; A.ptr.push_back(0);
    for (auto &r : rows) { for (auto &e : r) { A.col.push_back(e.first); A.val.push_back(e.second); } A.ptr.push_back(A.col.size()); }
    return A;
}
template <class V> std::shared_ptr<backend::crs<V, ptrdiff_t, ptrdiff_t>> to_crs(const Sp<V> &A) {
    return std::make_shared<backend::crs<V, ptrdiff_t, ptrdiff_t>>(A.n, A.m, A.ptr, A.col, A.val);
}
static size_t last_line_offset(const std::string &d) {
    size_t e = d.size(); if (e && d[e - 1] == '\n') --e;
    size_t p = d.rfind('\n', e ? e - 1 : 0);
    return p == std::string::npos ? 0 : p + 1;
}

template <class V> FileSpec mm_sparse_spec(int id, const Sp<V> &A, const std::string &kind, const std::string &data, bool sym, bool idx32 = false) {
    FileSpec f; f.id = id; f.fmt = "mm-sparse"; f.kind = kind; f.sym = sym; f.data = data; f.n = A.n; f.m = A.m; f.idx32 = idx32;
    f.last_line = last_line_offset(data); f.has_data = !A.col.empty();
    if (idx32) f.read = [](const std::string &p, long rb, long re, Intern &in) { return read_mm_sparse<int, V>(p, rb, re, in); };
    else f.read = [](const std::string &p, long rb, long re, Intern &in) { return read_mm_sparse<ptrdiff_t, V>(p, rb, re, in); };
    f.orig = [A](Intern &in) { Mat M; M.n = A.n; M.m = A.m; M.ptr.assign(A.ptr.begin(), A.ptr.end()); M.col.assign(A.col.begin(), A.col.end());
                               for (auto &x : A.val) M.val.push_back(in.id(&x, sizeof(V))); return M; };
    return f;
}
template <class V> FileSpec mm_dense_spec(int id, long n, long m, const std::vector<V> &v, const std::string &kind, const std::string &data) {
    FileSpec f; f.id = id; f.fmt = "mm-dense"; f.kind = kind; f.data = data; f.n = n; f.m = m;
    f.last_line = last_line_offset(data); f.has_data = n * m > 0;
    f.read = [](const std::string &p, long rb, long re, Intern &in) { return read_mm_dense<V>(p, rb, re, in); };
    f.orig = [=](Intern &in) { Mat M; M.n = n; M.m = m; M.ptr.assign(1, 0); for (auto &x : v) M.val.push_back(in.id(&x, sizeof(V))); return M; };
    return f;
}
template <class SizeT, class Ptr, class Col, class V> FileSpec bin_crs_spec(int id, const Sp<V> &A, const std::string &kind) {
    std::string path = P("valid.bin");
    { std::ofstream f(path, std::ios::binary);
      SizeT n = A.n; std::vector<Ptr> ptr(A.ptr.begin(), A.ptr.end()); std::vector<Col> col(A.col.begin(), A.col.end());
      precondition(io::write(f, n), "w"); precondition(io::write(f, ptr), "w");
      if (!col.empty()) { precondition(io::write(f, col), "w"); precondition(io::write(f, A.val), "w"); } }
    FileSpec f; f.id = id; f.fmt = "bin-crs"; f.kind = kind; f.data = slurp(path); f.n = A.n; f.m = A.m;
    f.S = sizeof(SizeT); f.Pw = sizeof(Ptr); f.C = sizeof(Col); f.V = sizeof(V);
    f.read = [](const std::string &p, long rb, long re, Intern &in) { return read_bin_crs<SizeT, Ptr, Col, V>(p, rb, re, in); };
    f.size = [](const std::string &p) { return read_bin_size<SizeT>(p); };
    f.orig = [A](Intern &in) { Mat M; M.n = A.n; M.m = 0; M.ptr.assign(A.ptr.begin(), A.ptr.end()); M.col.assign(A.col.begin(), A.col.end());
                               for (auto &x : A.val) M.val.push_back(in.id(&x, sizeof(V))); return M; };
    return f;
}
template <class SizeT, class V> FileSpec bin_dense_spec(int id, long n, long m, const std::vector<V> &v, const std::string &kind) {
    std::string path = P("valid.bin");
    { std::ofstream f(path, std::ios::binary); SizeT nn = n, mm = m;
      precondition(io::write(f, nn), "w"); precondition(io::write(f, mm), "w"); if (!v.empty()) precondition(io::write(f, v), "w"); }
    FileSpec f; f.id = id; f.fmt = "bin-dense"; f.kind = kind; f.data = slurp(path); f.n = n; f.m = m;
    f.S = sizeof(SizeT); f.V = sizeof(V);
    f.read = [](const std::string &p, long rb, long re, Intern &in) { return read_bin_dense<SizeT, V>(p, rb, re, in); };
    f.orig = [=](Intern &in) { Mat M; M.n = n; M.m = m; M.ptr.assign(1, 0); for (auto &x : v) M.val.push_back(in.id(&x, sizeof(V))); return M; };
    return f;
}

template <class V> std::string write_mm_sparse(const Sp<V> &A) { std::string p = P("valid.mtx"); io::mm_write(p, *to_crs(A)); return slurp(p); }
static std::string with_comment(const std::string &d) { size_t e = d.find('\n'); return d.substr(0, e + 1) + "% written by record_io (comment line)\n%\n" + d.substr(e + 1); }
// symmetric-storage file of the lower triangle of A (hand-written: mm_write always writes "general")
static std::string write_mm_symmetric(const Sp<double> &L) {
    std::ostringstream s; s << "%%MatrixMarket matrix coordinate real symmetric\n" << L.n << " " << L.m << " " << L.col.size() << "\n";
    for (long i = 0; i < L.n; ++i) for (ptrdiff_t p = L.ptr[i]; p < L.ptr[i + 1]; ++p) s << i + 1 << " " << L.col[p] + 1 << " " << fmt_val(L.val[p]) << "\n";
    return s.str();
}

static Sp<double> tridiag(int n) {
    std::vector<std::vector<std::pair<int, double>>> rows(n);
    for (int i = 0; i < n; ++i) { if (i > 0) rows[i].push_back({i - 1, -1.0}); rows[i].push_back({i, 4.0 + i}); if (i + 1 < n) rows[i].push_back({i + 1, -2.0}); }
    return make_sp<double>(n, n, rows);
}

static std::vector<FileSpec> mm_files() {
    std::vector<FileSpec> F; int id = 0;
    // F0: 3x3 real general, unsorted rows, comment lines
    auto A0 = make_sp<double>(3, 3, {{{2, 3.0}, {0, 2.0}}, {{1, -1.0}}, {{0, 5.0}, {2, 7.0}}});
    F.push_back(mm_sparse_spec(id++, A0, "real", with_comment(write_mm_sparse(A0)), false));
    // F1: 3x3 real symmetric (lower triangle stored)
    auto L1 = make_sp<double>(3, 3, {{{0, 4.0}}, {{0, -1.0}, {1, 4.0}}, {{1, -2.0}}});
    F.push_back(mm_sparse_spec(id++, L1, "real", write_mm_symmetric(L1), true));
    // F2: 2x3 complex general
    auto A2 = make_sp<cplx>(2, 3, {{{0, cplx(1, 2)}, {2, cplx(0, -1)}}, {{1, cplx(3, 0)}}});
    F.push_back(mm_sparse_spec(id++, A2, "complex", write_mm_sparse(A2), false));
    // F3: 3x3 integer general through the tuple adapter, 32-bit indices on the reading side
    {
        auto A3 = make_sp<int>(3, 3, {{{0, 7}, {1, -3}}, {}, {{2, 12}}});
        std::string p = P("valid.mtx"); size_t n = 3;
        io::mm_write(p, std::tie(n, A3.ptr, A3.col, A3.val));
        F.push_back(mm_sparse_spec(id++, A3, "integer", slurp(p), false, true));
    }
    // F4: 11x11 real general (two-digit sizes and indices)
    auto A4 = tridiag(11);
    F.push_back(mm_sparse_spec(id++, A4, "real", write_mm_sparse(A4), false));
    // F5: 4x2 real general with an empty matrix row and an empty last row
    auto A5 = make_sp<double>(4, 2, {{{1, 1.0}}, {}, {{0, 2.0}, {1, 3.0}}, {}});
    F.push_back(mm_sparse_spec(id++, A5, "real", write_mm_sparse(A5), false));
    // dense
    { std::vector<double> v = {1, 2, 3, 4, 5, 6}; std::string p = P("valid.mtx"); io::mm_write(p, v.data(), 3, 2); F.push_back(mm_dense_spec(id++, 3, 2, v, "real", slurp(p))); }
    { std::vector<cplx> v = {cplx(1, 2), cplx(3, 4), cplx(5, 6), cplx(7, 8)}; std::string p = P("valid.mtx"); io::mm_write(p, v.data(), 2, 2); F.push_back(mm_dense_spec(id++, 2, 2, v, "complex", slurp(p))); }
    { std::vector<int> v = {5, -6, 7, 8}; std::string p = P("valid.mtx"); io::mm_write(p, v.data(), 4, 1); F.push_back(mm_dense_spec(id++, 4, 1, v, "integer", slurp(p))); }
    { std::vector<double> v(11); for (int i = 0; i < 11; ++i) v[i] = i - 5; std::string p = P("valid.mtx"); io::mm_write(p, v.data(), 11, 1); F.push_back(mm_dense_spec(id++, 11, 1, v, "real", with_comment(slurp(p)))); }
    return F;
}
static std::vector<FileSpec> bin_files() {
    std::vector<FileSpec> F; int id = 100;
    auto A0 = make_sp<double>(3, 3, {{{2, 3.0}, {0, 2.0}}, {{1, -1.0}}, {{0, 5.0}, {2, 7.0}}});
    F.push_back(bin_crs_spec<size_t, ptrdiff_t, ptrdiff_t, double>(id++, A0, "real"));          // the mm2bin / solver combination
    auto A1 = make_sp<float>(4, 4, {{{1, 1.5f}, {0, 2.0f}}, {}, {{3, 4.0f}, {2, -1.0f}, {0, 8.0f}}, {{3, 1.0f}}});
    F.push_back(bin_crs_spec<ptrdiff_t, int, int, float>(id++, A1, "real"));
    auto A2 = make_sp<cplx>(2, 2, {{{1, cplx(1, 2)}, {0, cplx(0, -1)}}, {{1, cplx(3, 0)}}});
    F.push_back(bin_crs_spec<size_t, ptrdiff_t, ptrdiff_t, cplx>(id++, A2, "complex"));
    auto A3 = tridiag(6);
    F.push_back(bin_crs_spec<int, ptrdiff_t, int, double>(id++, A3, "real"));
    { std::vector<double> v = {1, 2, 3, 4, 5, 6}; F.push_back(bin_dense_spec<size_t, double>(id++, 3, 2, v, "real")); }
    { std::vector<int> v = {5, -6, 7, 8}; F.push_back(bin_dense_spec<ptrdiff_t, int>(id++, 4, 1, v, "integer")); }
    // shapes whose other dimension is a multiple of a power of two: a size whose top byte is damaged times the
    // other size may wrap around modulo 2^64
    { std::vector<double> v(32); for (int i = 0; i < 32; ++i) v[i] = i - 9; F.push_back(bin_dense_spec<size_t, double>(id++, 8, 4, v, "real")); }
    { std::vector<int> v(32); for (int i = 0; i < 32; ++i) v[i] = 3 * i - 40; F.push_back(bin_dense_spec<ptrdiff_t, int>(id++, 4, 8, v, "integer")); }
    { std::vector<float> v(32); for (int i = 0; i < 32; ++i) v[i] = 0.5f * i; F.push_back(bin_dense_spec<size_t, float>(id++, 16, 2, v, "real")); }
    return F;
}

// ------------------------------------------------------------------ one damaged-file case
static std::string mat_json(const Mat &M) { vr::obj o; o.i("n", M.n).i("m", M.m).ints("ptr", M.ptr).ints("col", M.col).ints("val", M.val); return o.done(); }
static std::vector<std::pair<long, long>> ranges_for(long n) {
    std::vector<std::pair<long, long>> r;
    if (n <= 4) { for (long b = 0; b <= n; ++b) for (long e = b; e <= n; ++e) if (!(b == 0 && e == n)) r.push_back({b, e}); }
    else { long c = (n + 2) / 3; r.push_back({0, c}); r.push_back({c, 2 * c}); r.push_back({2 * c, n}); r.push_back({c, c}); }
    r.push_back({0, n});
    return r;
}
struct Damage { std::string fault; long pos = 0; int rep = -1; };
static std::string apply_damage(const std::string &d, const Damage &x) {
    if (x.fault == "trunc") return d.substr(0, x.pos);
    if (x.fault == "byte") { std::string s = d; s[x.pos] = (char)x.rep; return s; }
    return d;
}
static std::string bin_field(const FileSpec &f, long pos, long &fidx) {
    long nnz = 0; if (f.fmt == "bin-crs") nnz = ((long)f.data.size() - f.S - (f.n + 1) * f.Pw) / (f.C + f.V);
    long p = pos; fidx = 0;
    if (p < f.S) return "n"; p -= f.S;
    if (f.fmt == "bin-dense") { if (p < f.S) return "m"; p -= f.S; fidx = p / f.V; return "val"; }
    if (p < (f.n + 1) * f.Pw) { fidx = p / f.Pw; return "ptr"; } p -= (f.n + 1) * f.Pw;
    if (p < nnz * f.C) { fidx = p / f.C; return "col"; } p -= nnz * f.C;
    fidx = p / f.V; return "val";
}

// lexical position class of byte `pos` of a valid MatrixMarket file
static std::string mm_where(const FileSpec &f, long pos) {
    const std::string &d = f.data; if (pos >= (long)d.size()) return "end";
    long ls = pos; while (ls > 0 && d[ls - 1] != '\n') --ls;
    int line = 0; for (long i = 0; i < ls; ++i) if (d[i] == '\n') ++line;
    if (d[pos] == '\n') return "newline";
    if (line == 0) return "banner";
    // lines before the first non-comment line are comments
    long q = d.find('\n') + 1; int l = 1; bool sizes = false;
    while (q < ls) { if (d[q] != '%') sizes = true; q = d.find('\n', q) + 1; ++l; }
    if (!sizes && d[ls] == '%') return "comment";
    if (d[pos] == '\n') return "newline";
    if (isspace((unsigned char)d[pos])) return "separator";
    int tok = 0; for (long i = ls; i < pos; ++i) if (isspace((unsigned char)d[i]) && !isspace((unsigned char)d[i + 1])) ++tok;
    if (!sizes) return "size";
    if (f.fmt == "mm-dense") return "value";
    return tok < 2 ? "index" : "value";
}
static long mm_first_data(const FileSpec &f) {   // offset of the first line after the size line
    const std::string &d = f.data; size_t q = d.find('\n') + 1;
    while (q < d.size() && d[q] == '%') q = d.find('\n', q) + 1;
    return (long)(d.find('\n', q) + 1);
}

static std::string run_case(const FileSpec &f, const Damage &x, bool isolate) {
    Intern in;
    std::string path = LP("case.dat");
    std::string dmg = apply_damage(f.data, x);
    spit(path, dmg);
    bool mm = f.fmt[0] == 'm'; bool dense = f.fmt == "mm-dense" || f.fmt == "bin-dense";
    Mat orig = f.orig(in);
    vr::obj o; o.str("k", mm ? "mm" : "bin").i("fid", f.id).str("fmt", f.fmt).b("dense", dense).str("kind", f.kind).b("sym", f.sym)
               .str("fault", x.fault).i("pos", x.pos).i("rep", x.rep).i("len", (long)f.data.size());
    if (mm) {
        bool lex, hdr, kindf; std::string abs = mm_abstract(dmg, dense, f.kind, lex, hdr, kindf);
        bool cutlast = x.fault == "trunc" && f.has_data && (size_t)x.pos <= f.last_line;
        vr::obj fa; fa.b("hdr", hdr).b("cutlast", cutlast).b("kind", kindf).b("lex", lex);
        o.raw("fact", fa.done()).str("where", x.fault == "none" ? "" : mm_where(f, x.pos));
        o.raw("abs", lex ? abs : "{\"banner\":[],\"body\":[]}");
    } else {
        long fidx; std::string fld = x.fault == "none" ? "" : bin_field(f, std::min<long>(x.pos, (long)f.data.size() - 1), fidx);
        vr::obj fa; fa.b("short", x.fault == "trunc");
        o.raw("fact", fa.done()).str("where", fld);
        vr::obj sz; sz.i("S", f.S).i("P", f.Pw).i("C", f.C).i("V", f.V); o.raw("sz", sz.done());
        if (f.size) o.raw("size", sub(isolate, [&]() { return f.size(path); }));
    }
    o.raw("orig", mat_json(orig));
    o.raw("full", sub(isolate, [&]() { return f.read(path, -1, -1, in); }));
    std::string parts = "[";
    bool first = true;
    for (auto r : ranges_for(f.n)) {
        if (isolate && g_full_only) break;
        // NOTE: ids must stay consistent between full and part reads of one case: when isolated the
        // children intern independently, so isolated cases are judged on structure and crash only
        vr::obj pp; pp.i("rb", r.first).i("re", r.second);
        pp.raw("out", sub(isolate, [&]() { return f.read(path, r.first, r.second, in); }));
        parts += (first ? "" : ",") + pp.done(); first = false;
    }
    parts += "]";
    o.raw("parts", parts).b("isolated", isolate);
    return o.done();
}

// ------------------------------------------------------------------ modes
static std::vector<int> mm_reps(bool th) {
    if (th) return {'0', '1', '9', '-', '+', ' ', '\n', '.', 'e', 'x', '%', 0x00, 0xFF};
    return {'0', '7', '-', ' ', '\n', 'x', 0xFF};
}
static std::vector<int> bin_reps(bool th, unsigned char orig, bool sizefield = false) {
    std::vector<int> r = {0x00, 0x01, 0x7F, 0x80, 0xFF, orig ^ 0x04};
    if (sizefield) { for (int b = 0; b < 8; ++b) r.push_back(orig ^ (1 << b)); r.push_back(0x20); r.push_back(0x40); r.push_back(0x60); r.push_back(0xC0); }
    if (th) { r.push_back(orig ^ 0x01); r.push_back(orig ^ 0x40); r.push_back(0x03); r.push_back(0x10); r.push_back(0xFE); }
    return r;
}
static void fault_sweep(const std::vector<FileSpec> &files, bool mm) {
    bool th = vr::thorough();
    uint64_t seed = vr::env_seed();
    struct C { int f; Damage d; };
    std::vector<C> cases;
    for (size_t fi = 0; fi < files.size(); ++fi) {
        const FileSpec &f = files[fi];
        long L = f.data.size();
        bool big = L > 600;
        cases.push_back({(int)fi, Damage{"none", 0, -1}});
        for (long p = 0; p < L; ++p) cases.push_back({(int)fi, Damage{"trunc", p, -1}});          // EVERY truncation point
        long stride = (th || !big) ? 1 : 5;
        long dense_until = mm ? mm_first_data(f) : (f.fmt == "bin-crs" ? f.S + (f.n + 1) * f.Pw : 2 * f.S);   // header / sizes / row pointers: every byte
        long phase = (long)((seed * 7 + fi) % stride);
        for (long p = 0; p < L; ++p) {
            if (p >= dense_until && (p % stride) != phase) continue;
            unsigned char ob = f.data[p];
            bool sizefield = !mm && p < (f.fmt == "bin-dense" ? 2 * f.S : f.S);
            std::set<int> seen;
            for (int r : (mm ? mm_reps(th) : bin_reps(th, ob, sizefield))) if ((unsigned char)r != ob && seen.insert(r & 0xff).second) cases.push_back({(int)fi, Damage{"byte", p, r & 0xff}});
        }
    }
    drive((int)cases.size(), [&](int i, bool iso) { return run_case(files[cases[i].f], cases[i].d, iso); });
}

// every reader, with and without a row range, reading into vectors that were used before (they hold a smaller /
// a larger previous result, or the full read of the same file): the result has to be the one of a read into
// fresh vectors.  One child per case (an out-of-bounds write is a crash).
static void mode_used_vectors() {
    std::vector<FileSpec> files = mm_files(); for (auto &f : bin_files()) files.push_back(f);
    for (auto &f : files) {
        std::string path = LP("case.dat"); spit(path, f.data);
        for (int hist : {2, 50, -1}) for (auto r : ranges_for(f.n)) {
            long rb = (r.first == 0 && r.second == f.n) ? -1 : r.first, re = (r.first == 0 && r.second == f.n) ? -1 : r.second;
            // two children (fresh vectors / used vectors), each with its own intern table: equal value sequences
            // get equal ids, so the two structures are comparable
            std::string fresh = in_child([&]() { Intern in; g_prefill = 0; return f.read(path, rb, re, in).json(); }, crash_json);
            std::string used  = in_child([&]() { Intern in; g_prefill = hist; return f.read(path, rb, re, in).json(); }, crash_json);
            std::string txt = "\"fresh\":" + fresh + ",\"used\":" + used;
            vr::obj o; o.str("k", "usedvec").i("fid", f.id).str("fmt", f.fmt).b("dense", f.fmt == "mm-dense" || f.fmt == "bin-dense").i("hist", hist).i("rb", rb).i("re", re);
            std::string s = o.done(); vr::emit(s.substr(0, s.size() - 1) + "," + txt + "}"); ++g_cases;
        }
    }
}

// The readers sort the rows in `#pragma omp parallel for` loops: files whose rows arrive unsorted (coordinate
// entries in arbitrary order, binary rows stored backwards) are read with several OpenMP threads, repeatedly, and
// compared with the matrix that was written.  No fork here (threads exist); a crash ends the recorder and is
// reported by the driver as a crash of the real code.  Run with OMP_NUM_THREADS=4 OMP_WAIT_POLICY=passive.
static void mode_mtread() {
    vr::rng g(vr::env_seed() + 777);
    int threads = std::max(2, vr::env_int("OMP_NUM_THREADS", 4));
    int reps = vr::thorough() ? 6 : 3;
    for (int rep = 0; rep < reps; ++rep) {
        int n = 3000, m = 600;
        std::vector<std::vector<std::pair<int, double>>> rows(n);
        struct E { int i, j; double v; }; std::vector<E> ents;
        for (int i = 0; i < n; ++i) { int w = g.range(6, 40); std::set<int> cs; while ((int)cs.size() < w) cs.insert(g.below(m)); for (int c : cs) { double v = g.coin(0.5) ? (double)g.range(-9, 9) : (g.unit() - 0.5) * std::ldexp(1.0, g.range(-60, 60)); rows[i].push_back({c, v}); ents.push_back({i, c, v}); } }
        auto A = make_sp<double>(n, m, rows);                       // rows sorted by column: what has to come back
        for (size_t k = ents.size(); k > 1; --k) std::swap(ents[k - 1], ents[g.below((int)k)]);
        std::string mtx = P("mt.mtx");
        { std::ofstream f(mtx); f << "%%MatrixMarket matrix coordinate real general\n" << n << " " << m << " " << ents.size() << "\n"; for (auto &e : ents) f << e.i + 1 << " " << e.j + 1 << " " << fmt_val(e.v) << "\n"; }
        std::string bin = P("mt.bin");
        { std::ofstream f(bin, std::ios::binary); size_t nn = n; std::vector<ptrdiff_t> ptr(A.ptr), col; std::vector<double> val;
          for (int i = 0; i < n; ++i) for (ptrdiff_t p = A.ptr[i + 1]; p-- > A.ptr[i]; ) { col.push_back(A.col[p]); val.push_back(A.val[p]); }    // rows stored backwards
          io::write(f, nn); io::write(f, ptr); io::write(f, col); io::write(f, val); }
        for (int fmt = 0; fmt < 2; ++fmt) for (int pass = 0; pass < 3; ++pass) {
            std::string st = "ok", why; long mism = 0;
            try {
                std::vector<ptrdiff_t> ptr, col; std::vector<double> val; size_t rn = 0, rm = m;
                if (fmt == 0) { io::mm_reader rd(mtx); std::tie(rn, rm) = rd(ptr, col, val); } else io::read_crs(bin, rn, ptr, col, val);
                if (rn != (size_t)n || rm != (size_t)m || ptr.size() != A.ptr.size() || col.size() != A.col.size() || val.size() != A.val.size()) mism = -1;
                else { for (size_t i = 0; i < ptr.size(); ++i) mism += ptr[i] != A.ptr[i]; for (size_t i = 0; i < col.size(); ++i) mism += (col[i] != A.col[i]) || memcmp(&val[i], &A.val[i], 8) != 0; }
            } catch (const std::exception &e) { st = "err"; why = e.what(); }
            vr::obj o; o.str("k", "mtread").str("fmt", fmt == 0 ? "mm-sparse" : "bin-crs").i("n", n).i("nnz", (long)ents.size()).i("threads", threads).i("rep", rep).i("pass", pass)
                      .str("st", st).str("why", why.substr(0, 80)).i("mism", mism);
            vr::emit(o.done()); ++g_cases;
        }
    }
}

// valid files read with the wrong value kind / the wrong container: the reader must throw
template <class V> static Out any_mm(const std::string &p, bool dense, Intern &in) { return dense ? read_mm_dense<V>(p, -1, -1, in) : read_mm_sparse<ptrdiff_t, V>(p, -1, -1, in); }
static void wrong_kind(const std::vector<FileSpec> &files) {
    for (auto &f : files) {
        std::string path = LP("case.dat"); spit(path, f.data);
        bool fdense = f.fmt == "mm-dense";
        for (int dense = 0; dense < 2; ++dense) for (std::string k : {"real", "complex", "integer"}) {
            if (k == f.kind && dense == (int)fdense) continue;
            Intern in; Out r = k == "real" ? any_mm<double>(path, dense, in) : k == "complex" ? any_mm<cplx>(path, dense, in) : any_mm<int>(path, dense, in);
            vr::obj o; o.str("k", "mmkind").i("fid", f.id).str("filekind", f.kind).b("filedense", fdense).str("reqkind", k).b("reqdense", dense).raw("full", r.json());
            vr::emit(o.done()); ++g_cases;
        }
    }
}

// round trips of seeded random matrices (values interned: id equality = bitwise equality)
template <class V> static V rnd_val(vr::rng &g);
template <> double rnd_val<double>(vr::rng &g) { return g.coin(0.5) ? (double)g.range(-9, 9) : (g.unit() - 0.5) * std::ldexp(1.0, g.range(-60, 60)); }
template <> float rnd_val<float>(vr::rng &g) { return (float)rnd_val<double>(g); }
template <> cplx rnd_val<cplx>(vr::rng &g) { return cplx(rnd_val<double>(g), rnd_val<double>(g)); }
template <> int rnd_val<int>(vr::rng &g) { return (int)(g.next() & 0xffffffffu); }
template <> long long rnd_val<long long>(vr::rng &g) { return (long long)g.next(); }
template <class V> static Sp<V> rnd_sp(vr::rng &g, int n, int m, double dens, bool shuffle) {
    std::vector<std::vector<std::pair<int, V>>> rows(n);
    for (int i = 0; i < n; ++i) { for (int j = 0; j < m; ++j) if (g.coin(dens)) rows[i].push_back({j, rnd_val<V>(g)});
        if (shuffle) for (size_t k = rows[i].size(); k > 1; --k) std::swap(rows[i][k - 1], rows[i][g.below((int)k)]); }
    return make_sp<V>(n, m, rows);
}
static void mode_rt() {
    vr::rng g(vr::env_seed() + 4242);
    int reps = vr::env_int("VERIF_REPS", vr::thorough() ? 200 : 30);
    Damage none{"none", 0, -1};
    for (int r = 0; r < reps; ++r) {
        int nmax = vr::env_int("VERIF_NMAX", vr::thorough() ? 40 : 24);
        int n = g.range(1, nmax), m = g.range(1, nmax); double dens = 0.05 + 0.4 * g.unit(); bool sh = g.coin();
        int id = 1000 + r * 10;
        { auto A = rnd_sp<double>(g, n, m, dens, sh); auto f = mm_sparse_spec(id, A, "real", write_mm_sparse(A), false); vr::emit(run_case(f, none, false)); ++g_cases; }
        { auto A = rnd_sp<cplx>(g, n, m, dens, sh); auto f = mm_sparse_spec(id + 1, A, "complex", write_mm_sparse(A), false); vr::emit(run_case(f, none, false)); ++g_cases; }
        { auto A = rnd_sp<float>(g, n, m, dens, sh); auto f = mm_sparse_spec(id + 2, A, "real", write_mm_sparse(A), false, true); vr::emit(run_case(f, none, false)); ++g_cases; }
        { // symmetric storage: random lower triangle
            auto A = rnd_sp<double>(g, n, n, dens, false); std::vector<std::vector<std::pair<int, double>>> rows(n);
            for (int i = 0; i < n; ++i) for (ptrdiff_t p = A.ptr[i]; p < A.ptr[i + 1]; ++p) if (A.col[p] <= i) rows[i].push_back({(int)A.col[p], A.val[p]});
            auto L = make_sp<double>(n, n, rows); auto f = mm_sparse_spec(id + 3, L, "real", write_mm_symmetric(L), true); vr::emit(run_case(f, none, false)); ++g_cases; }
        { std::vector<double> v(n * m); for (auto &x : v) x = rnd_val<double>(g); std::string p = P("valid.mtx"); io::mm_write(p, v.data(), n, m);
          auto f = mm_dense_spec(id + 4, n, m, v, "real", slurp(p)); vr::emit(run_case(f, none, false)); ++g_cases; }
        { std::vector<cplx> v(n * m); for (auto &x : v) x = rnd_val<cplx>(g); std::string p = P("valid.mtx"); io::mm_write(p, v.data(), n, m);
          auto f = mm_dense_spec(id + 5, n, m, v, "complex", slurp(p)); vr::emit(run_case(f, none, false)); ++g_cases; }
        { std::vector<long long> v(n * m); for (auto &x : v) x = rnd_val<long long>(g); std::string p = P("valid.mtx"); io::mm_write(p, v.data(), n, m);
          auto f = mm_dense_spec(id + 6, n, m, v, "integer", slurp(p)); vr::emit(run_case(f, none, false)); ++g_cases; }
        { auto A = rnd_sp<double>(g, n, m, dens, sh); auto f = bin_crs_spec<size_t, ptrdiff_t, ptrdiff_t, double>(id + 7, A, "real"); vr::emit(run_case(f, none, false)); ++g_cases; }
        { auto A = rnd_sp<cplx>(g, n, m, dens, sh); auto f = bin_crs_spec<ptrdiff_t, int, int, cplx>(id + 8, A, "complex"); vr::emit(run_case(f, none, false)); ++g_cases; }
        { std::vector<float> v(n * m); for (auto &x : v) x = rnd_val<float>(g); auto f = bin_dense_spec<size_t, float>(id + 9, n, m, v, "real"); vr::emit(run_case(f, none, false)); ++g_cases; }
    }
}

// ------------------------------------------------------------------ bitwise value round trip (class O, digests)
template <class T> struct bits_gen;
template <> struct bits_gen<double> {
    static const char *name() { return "double"; }
    static std::vector<double> make(vr::rng &g, size_t N) {
        typedef std::numeric_limits<double> L;
        std::vector<double> v = {0.0, -0.0, L::denorm_min(), -L::denorm_min(), L::min(), -L::min(), L::max(), L::lowest(), L::epsilon(), 1.0 / 3, M_PI, 0.1, 1e-320, 4.9e-324, 2.2250738585072009e-308, 1.7976931348623157e308, 0.5, 1.0, 1e22, 1e23, 9007199254740993.0, 5e-324};
        for (int e = -1074; e <= 1023; e += 7) { v.push_back(std::ldexp(1.0, e)); v.push_back(-std::ldexp(1.0 + L::epsilon(), e < -1022 ? -1022 : e)); }
        while (v.size() < N) { uint64_t b = g.next(); double x; memcpy(&x, &b, 8); if (std::isfinite(x)) v.push_back(x); }
        return v;
    }
};
template <> struct bits_gen<float> {
    static const char *name() { return "float"; }
    static std::vector<float> make(vr::rng &g, size_t N) {
        typedef std::numeric_limits<float> L;
        std::vector<float> v = {0.0f, -0.0f, L::denorm_min(), -L::denorm_min(), L::min(), L::max(), L::lowest(), L::epsilon(), 1.0f / 3, 0.1f, 16777217.0f};
        for (int e = -149; e <= 127; e += 3) v.push_back(std::ldexp(1.0f, e));
        while (v.size() < N) { uint32_t b = (uint32_t)g.next(); float x; memcpy(&x, &b, 4); if (std::isfinite(x)) v.push_back(x); }
        return v;
    }
};
template <> struct bits_gen<cplx> {
    static const char *name() { return "complex"; }
    static std::vector<cplx> make(vr::rng &g, size_t N) { auto a = bits_gen<double>::make(g, N), b = bits_gen<double>::make(g, N); std::vector<cplx> v; for (size_t i = 0; i < N; ++i) v.push_back(cplx(a[i], b[(i * 7 + 3) % N])); return v; }
};
template <> struct bits_gen<int> {
    static const char *name() { return "int"; }
    static std::vector<int> make(vr::rng &g, size_t N) { typedef std::numeric_limits<int> L; std::vector<int> v = {0, 1, -1, L::max(), L::min(), L::max() - 1, L::min() + 1, 1000000007}; while (v.size() < N) v.push_back((int)(uint32_t)g.next()); return v; }
};
template <> struct bits_gen<long long> {
    static const char *name() { return "int64"; }
    static std::vector<long long> make(vr::rng &g, size_t N) { typedef std::numeric_limits<long long> L; std::vector<long long> v = {0, 1, -1, L::max(), L::min(), L::max() - 1, L::min() + 1}; while (v.size() < N) v.push_back((long long)g.next()); return v; }
};
template <> struct bits_gen<char> {
    static const char *name() { return "int8"; }
    static std::vector<char> make(vr::rng &g, size_t N) { std::vector<char> v; for (int i = -128; i < 128; ++i) v.push_back((char)i); while (v.size() < N) v.push_back((char)g.range(-128, 127)); return v; }
};
template <class T> static void bits_line(const char *cont, const std::vector<T> &in, const std::function<void(std::vector<T>&, bool&)> &roundtrip) {
    std::vector<T> out; bool shape = true; std::string st = "ok", why;
    try { roundtrip(out, shape); } catch (const std::exception &e) { st = "err"; why = e.what(); } catch (...) { st = "err"; why = "unknown"; }
    vr::digest di, dq; di.vec(in.data(), in.size()); dq.vec(out.data(), out.size());
    long mism = 0, firstbad = -1;
    if (out.size() != in.size()) { mism = -1; shape = false; }
    else for (size_t i = 0; i < in.size(); ++i) if (memcmp(&in[i], &out[i], sizeof(T))) { if (firstbad < 0) firstbad = i; ++mism; }
    vr::obj o; o.str("k", "bits").str("type", bits_gen<T>::name()).str("cont", cont).i("count", (long)in.size()).str("st", st).str("why", why.substr(0, 80))
              .b("shape", shape).i("mism", mism).i("firstbad", firstbad);
    o.raw("din", "[" + std::to_string(di.lo()) + "," + std::to_string(di.hi()) + "]").raw("dout", "[" + std::to_string(dq.lo()) + "," + std::to_string(dq.hi()) + "]");
    vr::emit(o.done()); ++g_cases;
}
template <class T, class Idx> static void bits_sparse(vr::rng &g, const std::vector<T> &vals, bool binary) {
    // a sparse matrix that carries the values: rows of random length, sorted columns
    int n = (int)std::max<size_t>(1, vals.size() / 5), m = 40; size_t k = 0;
    std::vector<std::vector<std::pair<int, T>>> rows(n);
    for (int i = 0; i < n && k < vals.size(); ++i) { int w = (i == n - 1) ? m : g.range(0, 9); std::set<int> cs; while ((int)cs.size() < w) cs.insert(g.below(m)); for (int c : cs) if (k < vals.size()) rows[i].push_back({c, vals[k++]}); }
    auto A = make_sp<T>(n, m, rows);
    std::vector<T> in(A.val);
    bits_line<T>(binary ? "bin-crs" : "mm-sparse", in, [&](std::vector<T> &out, bool &shape) {
        std::vector<Idx> ptr, col; size_t rn = 0, rm = m;
        if (binary) {
            std::string p = P("bits.bin"); { std::ofstream f(p, std::ios::binary); size_t nn = n; std::vector<Idx> pp(A.ptr.begin(), A.ptr.end()), cc(A.col.begin(), A.col.end());
                io::write(f, nn); io::write(f, pp); io::write(f, cc); io::write(f, A.val); }
            // read in three row chunks, as a distributed loader does
            size_t tot = io::crs_size<size_t>(p); rn = tot; size_t c3 = (tot + 2) / 3;
            ptr.push_back(0);
            for (size_t b = 0; b < tot; b += c3) { size_t e = std::min(tot, b + c3), nn; std::vector<Idx> p1, c1; std::vector<T> v1; io::read_crs(p, nn, p1, c1, v1, b, e);
                for (size_t i = 1; i < p1.size(); ++i) ptr.push_back(ptr[b] + p1[i]); col.insert(col.end(), c1.begin(), c1.end()); out.insert(out.end(), v1.begin(), v1.end()); }
        } else {
            std::string p = P("bits.mtx"); io::mm_write(p, *to_crs(A));
            io::mm_reader rd(p); rn = rd.rows(); size_t c3 = (rn + 2) / 3; ptr.push_back(0);
            for (size_t b = 0; b < rn; b += c3) { size_t e = std::min(rn, b + c3); std::vector<Idx> p1, c1; std::vector<T> v1; size_t a, bb; io::mm_reader r2(p); std::tie(a, bb) = r2(p1, c1, v1, b, e); rm = bb;
                for (size_t i = 1; i < p1.size(); ++i) ptr.push_back(ptr[b] + p1[i]); col.insert(col.end(), c1.begin(), c1.end()); out.insert(out.end(), v1.begin(), v1.end()); }
        }
        shape = rn == (size_t)n && rm == (size_t)m && ptr.size() == A.ptr.size() && col.size() == A.col.size();
        if (shape) { for (size_t i = 0; i < ptr.size(); ++i) if ((ptrdiff_t)ptr[i] != A.ptr[i]) shape = false; for (size_t i = 0; i < col.size(); ++i) if ((ptrdiff_t)col[i] != A.col[i]) shape = false; }
    });
}
template <class T> static void bits_dense(const std::vector<T> &vals, int cols, bool binary) {
    size_t rows = vals.size() / cols; std::vector<T> in(vals.begin(), vals.begin() + rows * cols);
    bits_line<T>(binary ? "bin-dense" : (cols == 1 ? "mm-dense-vector" : "mm-dense"), in, [&](std::vector<T> &out, bool &shape) {
        size_t n = 0, m = 0;
        if (binary) { std::string p = P("bits.bin"); { std::ofstream f(p, std::ios::binary); size_t a = rows, b = cols; io::write(f, a); io::write(f, b); io::write(f, in); }
            size_t c3 = (rows + 2) / 3; for (size_t b = 0; b < rows; b += c3) { std::vector<T> v1; io::read_dense(p, n, m, v1, b, std::min(rows, b + c3)); out.insert(out.end(), v1.begin(), v1.end()); } }
        else { std::string p = P("bits.mtx"); io::mm_write(p, in.data(), rows, cols);
            size_t c3 = (rows + 2) / 3; for (size_t b = 0; b < rows; b += c3) { std::vector<T> v1; io::mm_reader rd(p); n = rd.rows(); size_t a; std::tie(a, m) = rd(v1, b, std::min(rows, b + c3)); out.insert(out.end(), v1.begin(), v1.end()); } }
        shape = n == rows && m == (size_t)cols;
    });
}
static void mode_bits() {
    vr::rng g(vr::env_seed() + 99);
    size_t N = vr::env_int("VERIF_BITS", vr::thorough() ? 200000 : 6000);
    { auto v = bits_gen<double>::make(g, N); bits_dense(v, 1, false); bits_dense(v, 3, false); bits_dense(v, 3, true); bits_sparse<double, ptrdiff_t>(g, v, false); bits_sparse<double, ptrdiff_t>(g, v, true); }
    { auto v = bits_gen<float>::make(g, N); bits_dense(v, 1, false); bits_dense(v, 2, true); bits_sparse<float, int>(g, v, false); bits_sparse<float, int>(g, v, true); }
    { auto v = bits_gen<cplx>::make(g, N / 2); bits_dense(v, 1, false); bits_dense(v, 4, false); bits_dense(v, 2, true); bits_sparse<cplx, ptrdiff_t>(g, v, false); bits_sparse<cplx, int>(g, v, true); }
    { auto v = bits_gen<int>::make(g, N); bits_dense(v, 1, false); bits_dense(v, 5, true); }
    { auto v = bits_gen<long long>::make(g, N); bits_dense(v, 2, false); bits_dense(v, 1, true); }
    { auto v = bits_gen<char>::make(g, 512); bits_dense(v, 1, false); bits_dense(v, 1, true); }
}

int main(int argc, char **argv) {
    vr::install_terminate();
    VERIF_ALLOC_LIMIT = size_t(vr::env_int("VERIF_ALLOC_MB", 16)) << 20;
    make_dir();
    std::string mode = argc > 1 ? argv[1] : "mmfault";
    g_san = vr::env_int("VERIF_SAN", 0) != 0;
    if (mode == "mmfault") { auto F = mm_files(); fault_sweep(F, true); if (!g_san) wrong_kind(F); }
    else if (mode == "binfault") { auto F = bin_files(); fault_sweep(F, false); }
    else if (mode == "rt") mode_rt();
    else if (mode == "usedvec") mode_used_vectors();
    else if (mode == "mtread") mode_mtread();
    else if (mode == "bits") mode_bits();
    else { std::cerr << "unknown mode\n"; return 2; }
    vr::obj s; s.str("k", "summary").str("mode", mode).i("cases", g_cases).i("crashed", g_crashed).b("san", g_san); vr::emit(s.done());
    vr::obj o; o.str("e", "End"); vr::emit(o.done());
    return 0;
}
