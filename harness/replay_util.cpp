// X01: utility state machines of amgcl (profiler, circular_buffer, multi_array,
// human_readable_memory) driven along the behaviours TLC generated from
// Profiler.tla / Ring.tla; after every call the projected abstract state of the
// REAL object is logged (one ndjson line per call) for X01Trace.tla.
//
//   replay_util prof  <hists>   profiler histories   "adv:1,tic:a,toc,reset,scoped:a:1"
//   replay_util ring  <hists>   circular_buffer histories "cap:2,push,push,clear"
//   replay_util misc            multi_array offsets / strides, human_readable_memory
#include <fstream>
#include <regex>
#include <array>
#include <amgcl/util.hpp>
#include <amgcl/profiler.hpp>
#include "vrec.hpp"

static long g_now = 0;
struct fake_counter {
    typedef long value_type;
    static const char* units() { return "t"; }
    value_type current() { return g_now; }
};

static std::vector<std::string> split(const std::string &s, char c) {
    std::vector<std::string> r; std::string cur;
    for (char ch : s) { if (ch == c) { r.push_back(cur); cur.clear(); } else cur += ch; }
    r.push_back(cur);
    return r;
}

// parse the printed report into [{lvl,name,len,p100}]
static std::string report_json(const std::string &txt, bool &warn, bool &parsed, bool &aligned) {
    std::istringstream is(txt);
    std::string line, out = "[";
    warn = false; parsed = true; aligned = true;
    bool first = true;
    static const std::regex re("^\\[( *)([^: ][^:]*):( *)( *-?[0-9.]+|nan|-nan|inf|-inf) t\\] \\( *(-?[0-9.]+|nan|-nan|inf|-inf)%\\)$");
    long col = -1;
    while (std::getline(is, line)) {
        if (line.empty()) continue;
        if (line == "Warning! Profile is incomplete.") { warn = true; continue; }
        std::smatch m;
        if (!std::regex_match(line, m, re)) { parsed = false; continue; }
        double t = atof(m[4].str().c_str());
        std::string ps = m[5].str();
        long p100 = -1;
        if (ps.find("nan") == std::string::npos && ps.find("inf") == std::string::npos)
            p100 = std::lround(atof(ps.c_str()) * 100);
        // the value column must be aligned over all lines (position of " t]")
        long pos = (long)line.find(" t] (");
        if (col < 0) col = pos; else if (pos != col) aligned = false;
        vr::obj o;
        o.i("lvl", (long long)m[1].str().size()).str("name", m[2].str());
        if (vr::small_int(t)) o.i("len", (long long)t); else { o.i("len", -999999); parsed = false; }
        o.i("p100", p100);
        if (!first) out += ",";
        first = false;
        out += o.done();
    }
    return out + "]";
}

static int run_prof(const char *file) {
    std::ifstream f(file);
    std::string h;
    while (std::getline(f, h)) {
        if (h.empty()) continue;
        g_now = 0;
        amgcl::profiler<fake_counter> prof;         // title "Profile"
        vr::emit("{\"e\":\"Reset\",\"k\":\"prof\"}");
        for (const std::string &st : split(h, ',')) {
            std::vector<std::string> a = split(st, ':');
            double delta = -1;
            if (a[0] == "adv") g_now += atoi(a[1].c_str());
            else if (a[0] == "tic") prof.tic(a[1]);
            else if (a[0] == "toc") delta = prof.toc();
            else if (a[0] == "reset") prof.reset();
            else if (a[0] == "scoped") { auto t = prof.scoped_tic(a[1]); g_now += atoi(a[2].c_str()); }
            else { std::cerr << "bad step " << st << "\n"; return 3; }
            std::ostringstream os;
            os << prof;
            bool warn, parsed, aligned;
            std::string rep = report_json(os.str(), warn, parsed, aligned);
            vr::obj o;
            o.str("e", "step").str("k", "prof").str("a", a[0]).str("n", a.size() > 1 && a[0] != "adv" ? a[1] : "")
             .i("d", a[0] == "adv" ? atoi(a[1].c_str()) : (a[0] == "scoped" ? atoi(a[2].c_str()) : 0))
             .i("delta", vr::small_int(delta) ? (long long)delta : -999999)
             .b("warn", warn).b("parsed", parsed).b("aligned", aligned).raw("rep", rep);
            vr::emit(o.done());
        }
    }
    return 0;
}

static int run_ring(const char *file) {
    std::ifstream f(file);
    std::string h;
    while (std::getline(f, h)) {
        if (h.empty()) continue;
        std::vector<std::string> steps = split(h, ',');
        int cap = atoi(split(steps[0], ':')[1].c_str());
        amgcl::circular_buffer<long> cb(cap);
        const amgcl::circular_buffer<long> &ccb = cb;
        vr::emit(vr::obj().str("e", "Reset").str("k", "ring").i("cap", cap).done());
        long n = 0;
        for (size_t s = 1; s < steps.size(); ++s) {
            if (steps[s] == "push") cb.push_back(++n);
            else if (steps[s] == "clear") cb.clear();
            else { std::cerr << "bad step " << steps[s] << "\n"; return 3; }
            std::vector<long> w, wc;
            for (size_t i = 0; i < cb.size(); ++i) { w.push_back(cb[i]); wc.push_back(ccb[i]); }
            vr::emit(vr::obj().str("e", "step").str("k", "ring").str("a", steps[s]).i("v", n)
                    .i("size", (long long)cb.size()).ints("win", w).b("constsame", w == wc).done());
        }
        // writing through operator[] reaches the same element that is read back
        if (cb.size()) {
            cb[0] = -7;
            vr::emit(vr::obj().str("e", "step").str("k", "ringw").i("got", ccb[0]).i("size", (long long)cb.size()).done());
        }
    }
    return 0;
}

template <int N> struct probe;
static int run_misc() {
    // multi_array<int,1..3>: offsets of every index tuple and the strides
    for (int n1 = 1; n1 <= 4; ++n1) {
        amgcl::multi_array<int, 1> a(n1);
        for (int i = 0; i < n1; ++i)
            vr::emit(vr::obj().str("e", "ma").ints("dims", std::vector<int>{n1}).ints("idx", std::vector<int>{i})
                    .i("off", (long long)(&a(i) - a.data())).i("size", (long long)a.size())
                    .ints("strides", std::vector<int>{a.stride(0)}).done());
        for (int n2 = 1; n2 <= 4; ++n2) {
            amgcl::multi_array<int, 2> b(n1, n2);
            for (int i = 0; i < n1; ++i) for (int j = 0; j < n2; ++j)
                vr::emit(vr::obj().str("e", "ma").ints("dims", std::vector<int>{n1, n2}).ints("idx", std::vector<int>{i, j})
                        .i("off", (long long)(&b(i, j) - b.data())).i("size", (long long)b.size())
                        .ints("strides", std::vector<int>{b.stride(0), b.stride(1)}).done());
            for (int n3 = 1; n3 <= 3; ++n3) {
                amgcl::multi_array<int, 3> c(n1, n2, n3);
                const amgcl::multi_array<int, 3> &cc = c;
                for (int i = 0; i < n1; ++i) for (int j = 0; j < n2; ++j) for (int k = 0; k < n3; ++k) {
                    c(i, j, k) = 1000 + (i * 10 + j) * 10 + k;
                    vr::emit(vr::obj().str("e", "ma").ints("dims", std::vector<int>{n1, n2, n3}).ints("idx", std::vector<int>{i, j, k})
                            .i("off", (long long)(&c(i, j, k) - c.data())).i("size", (long long)c.size())
                            .ints("strides", std::vector<int>{c.stride(0), c.stride(1), c.stride(2)})
                            .i("readback", cc(i, j, k)).i("expect", 1000 + (i * 10 + j) * 10 + k).done());
                }
            }
        }
    }
    // human_readable_memory: mantissa*100 and suffix index for a ladder of sizes
    static const char *suf = "BKMGT";
    std::vector<unsigned long long> sizes;
    for (int e = 0; e <= 50; e += 1) { unsigned long long b = 1ull << e; sizes.push_back(b); sizes.push_back(b - 1); sizes.push_back(b + b / 2); sizes.push_back(b + 1); }
    for (unsigned long long b : sizes) {
        if (b == 0) b = 0;
        std::string s = amgcl::human_readable_memory((size_t)b);
        size_t sp = s.find(' ');
        double m = atof(s.substr(0, sp).c_str());
        const char *p = strchr(suf, s[sp + 1]);
        // the byte count split into 2^10 digits (TLC integers are 32 bit)
        vr::obj o;
        o.str("e", "hrm");
        std::vector<long long> dig;
        for (unsigned long long r = b; ; r >>= 10) { dig.push_back((long long)(r & 1023)); if ((r >> 10) == 0) break; }
        o.ints("dig", dig).i("m100", std::llround(m * 100)).i("suffix", p ? (long long)(p - suf) : -1)
         .b("shape", sp != std::string::npos && s.size() == sp + 2 && s.substr(0, sp).find('.') == s.substr(0, sp).size() - 3);
        vr::emit(o.done());
    }
    return 0;
}

int main(int argc, char **argv) {
    std::string mode = argc > 1 ? argv[1] : "";
    if (mode == "prof" && argc > 2) return run_prof(argv[2]);
    if (mode == "ring" && argc > 2) return run_ring(argv[2]);
    if (mode == "misc") return run_misc();
    std::cerr << "usage: replay_util prof|ring <hists> | misc\n";
    return 2;
}
