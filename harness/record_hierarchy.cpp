// C03 recorder: builds real amgcl::amg hierarchies through a *recording coarsening* policy
// (template argument: sees every (A, P, R, Ac)), reads the private level list through the
// AMGCL_VERIF friend accessor, replays rebuild() histories on one object and compares with a
// fresh hierarchy assembled from the same transfer operators.  Judged by spec/C03Trace.tla.
#include <vrec.hpp>
#include <amgcl/amg.hpp>
#include <amgcl/adapter/crs_tuple.hpp>
#include <amgcl/coarsening/aggregation.hpp>
#include <amgcl/coarsening/smoothed_aggregation.hpp>
#include <amgcl/coarsening/smoothed_aggr_emin.hpp>
#include <amgcl/coarsening/ruge_stuben.hpp>
#include <amgcl/coarsening/as_scalar.hpp>
#include <amgcl/relaxation/spai0.hpp>
#include <amgcl/relaxation/gauss_seidel.hpp>
#include <amgcl/relaxation/ilu0.hpp>
#include <amgcl/relaxation/chebyshev.hpp>
#include <amgcl/relaxation/damped_jacobi.hpp>
#include <amgcl/value_type/static_matrix.hpp>
#include <amgcl/value_type/complex.hpp>
#include <omp.h>
#include <map>
#include <complex>

using vr::crsd;
typedef amgcl::backend::builtin<double> B;
typedef std::vector<double> vec;

// ------------------------------------------------------------------ recording / fixed coarsening
struct seen { std::shared_ptr<crsd> A, P, R, Ac; };
static std::vector<seen> g_seen;             // what the hierarchy construction did, level by level
static std::vector<std::pair<std::shared_ptr<crsd>, std::shared_ptr<crsd>>> g_fixed;   // transfer operators to hand out
static size_t g_fixed_next = 0;

template <template <class> class Base>
struct rec {
    template <class Backend>
    struct type {
        typedef typename Base<Backend>::params params;
        Base<Backend> base; params prm;
        type(const params &p = params()) : base(p), prm(p) {}
        template <class Matrix>
        std::tuple<std::shared_ptr<Matrix>, std::shared_ptr<Matrix>> transfer_operators(const Matrix &A) { return base.transfer_operators(A); }
        template <class Matrix>
        std::shared_ptr<Matrix> coarse_operator(const Matrix &A, const Matrix &P, const Matrix &R) const {
            auto Ac = base.coarse_operator(A, P, R);
            seen s; s.A = std::make_shared<crsd>(A); s.P = std::make_shared<crsd>(P); s.R = std::make_shared<crsd>(R); s.Ac = std::make_shared<crsd>(*Ac);
            g_seen.push_back(s);
            return Ac;
        }
    };
};
// hands out previously recorded transfer operators; coarse operator = Base's
template <template <class> class Base>
struct fixed {
    template <class Backend>
    struct type {
        typedef typename Base<Backend>::params params;
        Base<Backend> base; params prm;
        type(const params &p = params()) : base(p), prm(p) {}
        template <class Matrix>
        std::tuple<std::shared_ptr<Matrix>, std::shared_ptr<Matrix>> transfer_operators(const Matrix &) {
            if (g_fixed_next >= g_fixed.size()) throw amgcl::error::empty_level();
            auto pr = g_fixed[g_fixed_next++];
            return std::make_tuple(std::make_shared<Matrix>(*pr.first), std::make_shared<Matrix>(*pr.second));
        }
        template <class Matrix>
        std::shared_ptr<Matrix> coarse_operator(const Matrix &A, const Matrix &P, const Matrix &R) const { return base.coarse_operator(A, P, R); }
    };
};

namespace amgcl { namespace verif {
struct access {
    template <class AMG> static std::string levels(const AMG &a) {
        std::ostringstream o; o << "["; bool first = true;
        for (const auto &L : a.levels) {
            vr::obj l; l.i("rows", L.rows()).b("A", (bool)L.A).b("relax", (bool)L.relax).b("solve", (bool)L.solve).b("P", (bool)L.P).b("R", (bool)L.R).b("bP", (bool)L.bP).b("bR", (bool)L.bR);
            l.i("vecs", (L.f ? 1 : 0) + (L.u ? 1 : 0) + (L.t ? 1 : 0));
            l.i("prow", L.P ? L.P->nrows : 0).i("pcol", L.P ? L.P->ncols : 0).i("rrow", L.R ? L.R->nrows : 0).i("rcol", L.R ? L.R->ncols : 0);
            o << (first ? "" : ",") << l.done(); first = false;
        }
        o << "]"; return o.str();
    }
    template <class AMG> static std::vector<std::pair<std::shared_ptr<crsd>, std::shared_ptr<crsd>>> transfers(const AMG &a) {
        std::vector<std::pair<std::shared_ptr<crsd>, std::shared_ptr<crsd>>> v;
        for (const auto &L : a.levels) if (L.bP && L.bR) v.push_back(std::make_pair(L.bP, L.bR));
        return v;
    }
    template <class AMG> static void dig_transfers(const AMG &a, vr::digest &d) {
        for (const auto &L : a.levels) {
            d.pod((const void*)L.bP.get()); d.pod((const void*)L.bR.get()); d.pod((const void*)L.P.get()); d.pod((const void*)L.R.get());
            if (L.P) { d.vec(L.P->ptr, L.P->nrows + 1); d.vec(L.P->col, L.P->nnz); d.vec(L.P->val, L.P->nnz); }
            if (L.R) { d.vec(L.R->ptr, L.R->nrows + 1); d.vec(L.R->col, L.R->nnz); d.vec(L.R->val, L.R->nnz); }
        }
    }
    // matrices of the levels that keep one (for the Galerkin check after rebuild)
    template <class AMG> static std::vector<std::shared_ptr<crsd>> matrices(const AMG &a) { std::vector<std::shared_ptr<crsd>> v; for (const auto &L : a.levels) v.push_back(L.A); return v; }
};
}}
using amgcl::verif::access;

// ------------------------------------------------------------------ helpers
static std::string pat_json(const crsd &A, const std::map<uint64_t,int> *ids) {   // pattern with interned or zero values
    vr::obj o; o.i("n", A.nrows).i("m", A.ncols).ints("ptr", A.ptr, A.ptr + A.nrows + 1).ints("col", A.col, A.col + A.ptr[A.nrows]);
    std::vector<long long> v(A.ptr[A.nrows], 0);
    if (ids) for (size_t p = 0; p < v.size(); ++p) { uint64_t b; std::memcpy(&b, &A.val[p], 8); v[p] = ids->at(b); }
    o.ints("val", v); return o.done();
}
static bool all_int(const crsd &A, int shift = 0) { for (ptrdiff_t p = 0; p < A.ptr[A.nrows]; ++p) { bool ok = true; vr::dyadic(A.val[p], shift, ok); if (!ok) return false; } return true; }

// dense long double R*A*P*s vs Ac: relative error in millidecades
static long long galerkin_err(const crsd &A, const crsd &P, const crsd &R, const crsd &Ac, long double s) {
    size_t n = A.nrows, nc = P.ncols;
    std::vector<long double> AP(n * nc, 0.0L), RAP(nc * nc, 0.0L), C(nc * nc, 0.0L);
    for (size_t i = 0; i < n; ++i) for (ptrdiff_t p = A.ptr[i]; p < A.ptr[i+1]; ++p) { size_t k = A.col[p]; for (ptrdiff_t q = P.ptr[k]; q < P.ptr[k+1]; ++q) AP[i * nc + P.col[q]] += (long double)A.val[p] * P.val[q]; }
    for (size_t i = 0; i < R.nrows; ++i) for (ptrdiff_t p = R.ptr[i]; p < R.ptr[i+1]; ++p) { size_t k = R.col[p]; for (size_t c = 0; c < nc; ++c) RAP[i * nc + c] += (long double)R.val[p] * AP[k * nc + c]; }
    for (size_t i = 0; i < Ac.nrows; ++i) for (ptrdiff_t p = Ac.ptr[i]; p < Ac.ptr[i+1]; ++p) C[i * nc + Ac.col[p]] += Ac.val[p];
    long double err = 0, sc = 0;
    for (size_t k = 0; k < nc * nc; ++k) { err = std::max(err, fabsl(C[k] - s * RAP[k])); sc = std::max(sc, fabsl(s * RAP[k])); }
    if (sc == 0) return err == 0 ? -20000 : 0;
    long double rel = err / sc; return rel <= 1e-20L ? -20000 : (long long)llroundl(1000 * log10l(rel));
}

static void emit_level(const char *cname, int lvl, const seen &s, bool exact_mode, bool adjoint, double over_interp, const char *tag) {
    float sf = over_interp > 0 ? (float)(1 / (float)over_interp) : 1.0f;      // what scaled_galerkin multiplies by
    long long snum = (long long)std::ldexp((double)sf, 24);
    vr::obj o; o.str("k", "level").str("coarsening", cname).str("tag", tag).i("lvl", lvl).i("nt", omp_get_max_threads()).i("snum", snum);
    bool exact = exact_mode && all_int(*s.A) && all_int(*s.P) && all_int(*s.R) && all_int(*s.Ac, 24);
    o.str("mode", exact ? "exact" : "struct");
    bool ex = true;
    if (exact) { o.raw("A", vr::crs_json(*s.A, ex)).raw("P", vr::crs_json(*s.P, ex)).raw("R", vr::crs_json(*s.R, ex)).raw("Ac", vr::crs_json(*s.Ac, ex, 24)); }
    else { o.raw("A", pat_json(*s.A, 0)).raw("P", pat_json(*s.P, 0)).raw("R", pat_json(*s.R, 0)).raw("Ac", pat_json(*s.Ac, 0)); }
    o.i("err", galerkin_err(*s.A, *s.P, *s.R, *s.Ac, over_interp > 0 ? (long double)sf : 1.0L));
    o.b("adjoint", adjoint);
    std::map<uint64_t,int> ids;
    for (const crsd *M : {s.P.get(), s.R.get()}) for (ptrdiff_t p = 0; p < M->ptr[M->nrows]; ++p) { uint64_t b; std::memcpy(&b, &M->val[p], 8); if (!ids.count(b)) { int k = ids.size() + 1; ids[b] = k; } }
    o.raw("Pi", pat_json(*s.P, &ids)).raw("Ri", pat_json(*s.R, &ids));
    vr::emit(o.done());
}

template <class AMG>
static vr::digest apply_digest(const AMG &amg, const std::vector<vec> &probes) {
    vr::digest d; for (const vec &f : probes) { vec x(f.size(), 0.0); amg.apply(f, x); d.vec(x.data(), x.size()); } return d;
}
template <class AMG>
static std::vector<vec> apply_all(const AMG &amg, const std::vector<vec> &probes) {
    std::vector<vec> r; for (const vec &f : probes) { vec x(f.size(), 0.0); amg.apply(f, x); r.push_back(x); } return r;
}

// over_interp exists only for plain aggregation
template <class P> static auto set_oi(P &p, double v, int) -> decltype((void)(p.over_interp = 1.0f)) { if (v > 0) p.over_interp = (float)v; }
template <class P> static void set_oi(P &, double, long) {}
template <class P> static void set_over_interp(P &p, double v) { set_oi(p, v, 0); }

struct cfg { unsigned ce, ml; bool dc, ar; unsigned ncycle, npre, npost; double over_interp; };

// one hierarchy: shape + Galerkin per level + rebuild history
template <template <class> class C, template <class> class Rx>
static void hierarchy_case(const char *cname, const char *rname, std::shared_ptr<crsd> A, const cfg &c, bool adjoint, bool is_aggr, const char *tag, vr::rng &g, int rebuild_steps) {
    typedef amgcl::amg<B, rec<C>::template type, Rx> AMG;
    typedef amgcl::amg<B, fixed<C>::template type, Rx> FRESH;
    typename AMG::params p; p.coarse_enough = c.ce; p.max_levels = c.ml; p.direct_coarse = c.dc; p.allow_rebuild = c.ar; p.ncycle = c.ncycle; p.npre = c.npre; p.npost = c.npost;
    set_over_interp(p.coarsening, c.over_interp);
    g_seen.clear();
    std::unique_ptr<AMG> amg;
    try { amg.reset(new AMG(*A, p)); }
    catch (const std::exception &e) { vr::obj o; o.str("e", "Exception").str("what", e.what()).str("coarsening", cname); vr::emit(o.done()); return; }
    { vr::obj o; o.str("k", "hier").str("coarsening", cname).str("relax", rname).str("tag", tag).i("n0", A->nrows).i("ce", c.ce).i("ml", std::min(c.ml, 1000u)).b("dc", c.dc).b("ar", c.ar).i("nt", omp_get_max_threads());
      o.raw("levels", access::levels(*amg)); vr::emit(o.done()); }
    std::vector<seen> built = g_seen;
    for (size_t k = 0; k < built.size(); ++k) emit_level(cname, k, built[k], is_aggr, adjoint, is_aggr ? c.over_interp : 0.0, tag);
    // ---- rebuild guard
    int n = A->nrows;
    if (!c.ar) {
        bool threw = false; try { amg->rebuild(*A); } catch (const std::exception &) { threw = true; }
        vr::obj o; o.str("k", "guard").str("why", "allow_rebuild=false").b("threw", threw); vr::emit(o.done());
        return;
    }
    { auto W = vr::poisson2d(n + 1, 1); bool threw = false; try { amg->rebuild(*W); } catch (const std::exception &) { threw = true; }
      vr::obj o; o.str("k", "guard").str("why", "shape").b("threw", threw); vr::emit(o.done()); }
    if (rebuild_steps <= 0) return;
    // ---- rebuild history on ONE object; after each step compare with a fresh hierarchy built from
    //      the same transfer operators, and re-check Galerkin on the rebuilt levels
    std::vector<vec> probes(3, vec(n)); for (auto &f : probes) for (auto &v : f) v = g.range(-5, 5);
    auto T = access::transfers(*amg);
    vr::digest t0; access::dig_transfers(*amg, t0);
    std::vector<vec> act0 = apply_all(*amg, probes);
    // matrix versions: 0 = A, 1 = 2A, 2 = A + integer diagonal perturbation, 3 = 4A
    auto version = [&](int v) { auto M = std::make_shared<crsd>(*A);
        if (v == 1) amgcl::backend::scale(*M, 2.0); if (v == 3) amgcl::backend::scale(*M, 4.0);
        if (v == 2) for (size_t i = 0; i < M->nrows; ++i) for (ptrdiff_t q = M->ptr[i]; q < M->ptr[i+1]; ++q) if (M->col[q] == (ptrdiff_t)i) M->val[q] += 1 + (i % 3);
        return M; };
    std::vector<int> hist;
    for (int step = 0; step < rebuild_steps; ++step) {
        int v = (step == rebuild_steps - 1) ? 0 : g.range(0, 3);
        hist.push_back(v);
        auto M = version(v);
        // (a) a rebuild that fails or produces garbage in between (all-zero values: the direct coarse solver / ilu0 throw,
        //     other smoothers divide by zero), caught by the caller: the next rebuild must still renew every level
        bool after_bad = false, bad_threw = false;
        if (g.coin(0.3)) {
            after_bad = true;
            auto Z = std::make_shared<crsd>(*A);
            bool allzero = g.coin();
            for (size_t i = 0; i < Z->nrows; ++i) for (ptrdiff_t q = Z->ptr[i]; q < Z->ptr[i+1]; ++q) if (allzero || Z->col[q] == (ptrdiff_t)i) Z->val[q] = 0;
            try { amg->rebuild(*Z); } catch (const std::exception &) { bad_threw = true; }
        }
        // (b) the new matrix handed to rebuild() with its rows not sorted by column (diagonal first / reversed):
        //     row order is not part of the matrix, the copying overload sorts its own copy like the constructor does
        bool unsorted = g.coin();
        auto Min = M;
        if (unsorted) {
            Min = std::make_shared<crsd>(*M); bool rev = g.coin();
            for (size_t i = 0; i < Min->nrows; ++i) { ptrdiff_t b = Min->ptr[i], e = Min->ptr[i+1];
                if (rev) { std::reverse(Min->col + b, Min->col + e); std::reverse(Min->val + b, Min->val + e); }
                else for (ptrdiff_t q = b; q < e; ++q) if (Min->col[q] == (ptrdiff_t)i) { for (ptrdiff_t t = q; t > b; --t) { std::swap(Min->col[t], Min->col[t-1]); std::swap(Min->val[t], Min->val[t-1]); } break; } }
        }
        vr::digest min0; min0.vec(Min->col, Min->nnz); min0.vec(Min->val, Min->nnz);
        g_seen.clear();
        amg->rebuild(*Min);
        vr::digest min1; min1.vec(Min->col, Min->nnz); min1.vec(Min->val, Min->nnz);
        std::vector<seen> re = g_seen;
        // Galerkin again on every level, now with the new matrix (what rebuild handed down)
        for (size_t k = 0; k < re.size(); ++k) emit_level(cname, k, re[k], is_aggr, adjoint, is_aggr ? c.over_interp : 0.0, "rebuild");
        // level matrices the object now holds must be the ones just computed
        vr::digest t1; access::dig_transfers(*amg, t1);
        g_fixed = T; g_fixed_next = 0;
        typename FRESH::params fp; fp.coarse_enough = c.ce; fp.max_levels = c.ml; fp.direct_coarse = c.dc; fp.allow_rebuild = false; fp.ncycle = c.ncycle; fp.npre = c.npre; fp.npost = c.npost;
        set_over_interp(fp.coarsening, c.over_interp);
        FRESH fresh(*M, fp);
        vr::digest da = apply_digest(*amg, probes), df = apply_digest(fresh, probes);
        std::vector<vec> act = apply_all(*amg, probes);
        bool restored = true, scaled = true; double f = v == 1 ? 0.5 : (v == 3 ? 0.25 : 1.0);
        for (size_t q = 0; q < probes.size(); ++q) for (int i = 0; i < n; ++i) { if (act[q][i] != act0[q][i]) restored = false; if (act[q][i] != f * act0[q][i]) scaled = false; }
        vr::obj o; o.str("k", "rebuild").str("coarsening", cname).str("relax", rname).i("step", step).ints("hist", hist).i("nt", omp_get_max_threads());
        o.b("after_bad", after_bad).b("bad_threw", bad_threw).b("unsorted", unsorted).b("input_untouched", min0.h == min1.h);
        o.b("fresh", da.h == df.h).b("transfer", t0.h == t1.h).b("orig", v == 0).b("restored", restored).b("pow2", v == 0 || v == 1 || v == 3).b("scaled", scaled).i("relevels", re.size());
        vr::emit(o.done());
    }
    // ---- the same kind of history on an object built by the NON-COPYING constructor: the caller keeps the matrix,
    //      changes its values in place and hands the very same shared_ptr to rebuild()
    {
        auto Ash = std::make_shared<crsd>(*A);
        g_seen.clear();
        std::unique_ptr<AMG> amg2;
        try { amg2.reset(new AMG(Ash, p)); } catch (const std::exception &) { return; }
        auto T2 = access::transfers(*amg2);
        vr::digest u0; access::dig_transfers(*amg2, u0);
        std::vector<vec> act02 = apply_all(*amg2, probes);           // this object's own action for the original matrix
        std::vector<int> hist2;
        for (int step = 0; step < rebuild_steps; ++step) {
            int v = (step == rebuild_steps - 1) ? 0 : g.range(1, 3);
            hist2.push_back(v);
            auto M = version(v);
            std::copy(M->val, M->val + M->nnz, Ash->val);               // in-place update of the caller's matrix
            g_seen.clear();
            amg2->rebuild(Ash);
            std::vector<seen> re = g_seen;
            for (size_t k = 0; k < re.size(); ++k) emit_level(cname, k, re[k], is_aggr, adjoint, is_aggr ? c.over_interp : 0.0, "rebuild");
            vr::digest u1; access::dig_transfers(*amg2, u1);
            g_fixed = T2; g_fixed_next = 0;
            typename FRESH::params fp; fp.coarse_enough = c.ce; fp.max_levels = c.ml; fp.direct_coarse = c.dc; fp.allow_rebuild = false; fp.ncycle = c.ncycle; fp.npre = c.npre; fp.npost = c.npost;
            set_over_interp(fp.coarsening, c.over_interp);
            FRESH fresh(*M, fp);
            vr::digest da = apply_digest(*amg2, probes), df = apply_digest(fresh, probes);
            std::vector<vec> act = apply_all(*amg2, probes);
            bool restored = true, scaled = true; double f = v == 1 ? 0.5 : (v == 3 ? 0.25 : 1.0);
            for (size_t q = 0; q < probes.size(); ++q) for (int i = 0; i < n; ++i) { if (act[q][i] != act02[q][i]) restored = false; if (act[q][i] != f * act02[q][i]) scaled = false; }
            bool same_vals = std::equal(M->val, M->val + M->nnz, Ash->val) && std::equal(M->col, M->col + M->nnz, Ash->col);
            vr::obj o; o.str("k", "rebuild").str("coarsening", cname).str("relax", rname).i("step", step).ints("hist", hist2).i("nt", omp_get_max_threads()).b("shared", true);
            o.b("after_bad", false).b("bad_threw", false).b("unsorted", false).b("input_untouched", same_vals);
            o.b("fresh", da.h == df.h).b("transfer", u0.h == u1.h).b("orig", v == 0).b("restored", restored).b("pow2", v == 0 || v == 1 || v == 3).b("scaled", scaled).i("relevels", re.size());
            vr::emit(o.done());
        }
    }
}


// ------------------------------------------------------------------ complex / block valued levels
// The coarsening classes are called directly on complex and 2x2 block valued matrices; every
// (A, P, R, Ac) is judged on the harness' own real scalar expansion (a+bi -> [[a,-b],[b,a]], block ->
// its entries): R = P^H / P^T blockwise is exactly "expansion(R) = expansion(P)^T", Ac = R A P likewise.
typedef amgcl::static_matrix<double, 2, 2> BV2;
template <class V> struct expander;
template <> struct expander<std::complex<double>> {
    static const int W = 2;
    static double at(const std::complex<double> &v, int r, int c) { return r == c ? v.real() : (r == 0 ? -v.imag() : v.imag()); }
};
template <> struct expander<BV2> { static const int W = 2; static double at(const BV2 &v, int r, int c) { return v(r, c); } };
template <class V>
static std::shared_ptr<crsd> expand_any(const amgcl::backend::crs<V, ptrdiff_t, ptrdiff_t> &A) {
    const int W = expander<V>::W;
    std::vector<std::vector<std::pair<int,double>>> rows(A.nrows * W);
    for (size_t i = 0; i < A.nrows; ++i) for (ptrdiff_t p = A.ptr[i]; p < A.ptr[i+1]; ++p)
        for (int r = 0; r < W; ++r) for (int c = 0; c < W; ++c) rows[i * W + r].push_back(std::make_pair((int)(A.col[p] * W + c), expander<V>::at(A.val[p], r, c)));
    return vr::from_rows(A.nrows * W, A.ncols * W, rows);
}
static std::complex<double> mk_val(vr::rng &g, double re, std::complex<double>*) { return std::complex<double>(re, re * (0.2 + 0.6 * g.unit()) * (g.coin() ? 1 : -1)); }
static BV2 mk_val(vr::rng &g, double re, BV2*) { BV2 v; v(0,0) = re; v(1,1) = re * (0.6 + 0.3 * g.unit()); v(0,1) = 0.3 * re * g.unit(); v(1,0) = -0.2 * re * g.unit(); return v; }

template <class V, class CO, class VM>
static void valued_levels(CO &c, std::shared_ptr<VM> A, const char *cname, const char *vname, bool adjoint, double over_interp);
template <class V, template <class> class C>
static void valued_case(const char *cname, const char *vname, std::shared_ptr<crsd> As, vr::rng &g, bool adjoint, double over_interp) {
    typedef amgcl::backend::builtin<V> VB; typedef amgcl::backend::crs<V, ptrdiff_t, ptrdiff_t> VM;
    auto A = std::make_shared<VM>(); A->set_size(As->nrows, As->ncols, true);
    for (size_t i = 0; i < As->nrows; ++i) A->ptr[i+1] = As->ptr[i+1] - As->ptr[i];
    A->set_nonzeros(A->scan_row_sizes());
    for (ptrdiff_t p = 0; p < As->ptr[As->nrows]; ++p) { A->col[p] = As->col[p]; A->val[p] = mk_val(g, As->val[p], (V*)0); }
    C<VB> c((typename C<VB>::params()));
    valued_levels<V>(c, A, cname, vname, adjoint, over_interp);
}
// block-valued matrices through coarsening::as_scalar<C> (the coarsening works on the scalar view, aggr.block_size = 2
// keeps the two unknowns of a node together; the re-scaling of plain aggregation is that of the scalar parameters)
template <template <class> class C>
static void as_scalar_case(const char *cname, std::shared_ptr<crsd> As, vr::rng &g, bool plain_aggr) {
    typedef amgcl::backend::builtin<BV2> VB; typedef amgcl::backend::crs<BV2, ptrdiff_t, ptrdiff_t> VM;
    auto A = std::make_shared<VM>(); A->set_size(As->nrows, As->ncols, true);
    for (size_t i = 0; i < As->nrows; ++i) A->ptr[i+1] = As->ptr[i+1] - As->ptr[i];
    A->set_nonzeros(A->scan_row_sizes());
    for (ptrdiff_t p = 0; p < As->ptr[As->nrows]; ++p) { A->col[p] = As->col[p]; A->val[p] = mk_val(g, As->val[p], (BV2*)0); }
    typedef typename amgcl::coarsening::as_scalar<C>::template type<VB> CS;
    typename CS::params prm; prm.aggr.block_size = 2;
    double oi = 0.0; if (plain_aggr) { oi = g.coin() ? 1.5 : 2.0; set_over_interp(prm, oi); }
    CS c(prm);
    valued_levels<BV2>(c, A, cname, "as_scalar-block2", true, oi);
}
template <class V, class CO, class VM>
static void valued_levels(CO &c, std::shared_ptr<VM> A, const char *cname, const char *vname, bool adjoint, double over_interp) {
    std::shared_ptr<VM> cur = A;
    for (int lvl = 0; lvl < 3 && cur->nrows > 4; ++lvl) {
        std::shared_ptr<VM> P, R, Ac;
        try { std::tie(P, R) = c.transfer_operators(*cur); amgcl::backend::sort_rows(*P); amgcl::backend::sort_rows(*R);   // as amg::level::step_down does
              Ac = c.coarse_operator(*cur, *P, *R); amgcl::backend::sort_rows(*Ac); }
        catch (amgcl::error::empty_level) { break; }
        catch (const std::exception &e) { vr::obj o; o.str("e", "Exception").str("what", e.what()).str("coarsening", cname); vr::emit(o.done()); break; }
        seen s; s.A = expand_any(*cur); s.P = expand_any(*P); s.R = expand_any(*R); s.Ac = expand_any(*Ac);
        std::string tag = std::string("valued-") + vname;
        emit_level(cname, lvl, s, false, adjoint, over_interp, tag.c_str());
        cur = Ac;
    }
}

template <template <class> class Rx>
static void all_coarsenings(const char *rname, std::shared_ptr<crsd> A, const cfg &c, const char *tag, vr::rng &g, int rb, int which) {
    if (which & 1) hierarchy_case<amgcl::coarsening::aggregation, Rx>("aggregation", rname, A, c, true, true, tag, g, rb);
    if (which & 2) hierarchy_case<amgcl::coarsening::smoothed_aggregation, Rx>("smoothed_aggregation", rname, A, c, true, false, tag, g, rb);
    if (which & 4) hierarchy_case<amgcl::coarsening::ruge_stuben, Rx>("ruge_stuben", rname, A, c, true, false, tag, g, rb);
    if (which & 8) hierarchy_case<amgcl::coarsening::smoothed_aggr_emin, Rx>("smoothed_aggr_emin", rname, A, c, false, false, tag, g, rb);
}

// structurally symmetric, numerically non-symmetric M-matrix (upwind-like): the couplings above the diagonal are
// quartered, the diagonal keeps the row dominant; restriction and prolongation of the energy-minimising
// coarsening are then genuinely different operators
static std::shared_ptr<crsd> upwinded(std::shared_ptr<crsd> A) {
    auto M = std::make_shared<crsd>(*A);
    for (size_t i = 0; i < M->nrows; ++i) for (ptrdiff_t q = M->ptr[i]; q < M->ptr[i+1]; ++q) if (M->col[q] > (ptrdiff_t)i) M->val[q] *= 0.25;
    return M;
}

int main(int argc, char **argv) {
    vr::install_terminate();
    std::string mode = argc > 1 ? argv[1] : "shapes";
    vr::rng g(vr::env_seed() + 303);
    bool th = vr::thorough();
    if (mode == "shapes") {
        // forced hierarchy shapes: path graphs / grids coarsen to predictable sizes; diagonal tails give empty levels
        std::vector<std::shared_ptr<crsd>> mats;
        for (int n : {1, 2, 3, 5, 9, 27, 40}) mats.push_back(vr::poisson2d(n, 1));
        mats.push_back(vr::poisson2d(6, 5));
        { std::vector<std::vector<std::pair<int,double>>> rows(7); for (int i = 0; i < 7; ++i) rows[i].push_back(std::make_pair(i, 2.0 + i)); mats.push_back(vr::from_rows(7, 7, rows)); }   // diagonal
        { auto M = vr::poisson2d(12, 1); std::vector<std::vector<std::pair<int,double>>> rows(16);      // path + isolated diagonal tail
          for (int i = 0; i < 12; ++i) for (ptrdiff_t p = M->ptr[i]; p < M->ptr[i+1]; ++p) rows[i].push_back(std::make_pair((int)M->col[p], M->val[p]));
          for (int i = 12; i < 16; ++i) rows[i].push_back(std::make_pair(i, 3.0)); mats.push_back(vr::from_rows(16, 16, rows)); }
        for (auto &A : mats)
            for (unsigned ce : {0u, 1u, 2u, 4u, 10u, 3000u}) for (unsigned ml : {1u, 2u, 3u, 100u}) for (int dc = 0; dc < 2; ++dc) {
                if (!th && (ce == 2u || ml == 3u) && A->nrows > 9) continue;
                cfg c{ce, ml, (bool)dc, (bool)((ce + ml + dc) % 2), 1, 1, 1, 1.5};
                all_coarsenings<amgcl::relaxation::spai0>("spai0", A, c, "shape", g, 0, A->nrows > 2 ? 7 : 15);
            }
    } else if (mode == "galerkin") {
        // integer mode: random M-matrices, plain aggregation with dyadic / float-exact scaling, all coarsenings structurally
        int reps = th ? 40 : 10;
        for (int r = 0; r < reps; ++r) {
            int n = g.range(8, th ? 160 : 70);
            auto A = g.coin() ? vr::random_mmatrix(g, n, 2.5 / n, 2, 1) : vr::poisson2d(g.range(3, 9), g.range(2, 8), 1, g.range(1, 2));
            if (r % 3 == 2) A = upwinded(A);
            double oi = (r % 3 == 0) ? 1.0 : (r % 3 == 1 ? 2.0 : 1.5);
            cfg c{(unsigned)g.range(1, 6), (unsigned)g.range(2, 5), g.coin(), true, 1, 1, 1, oi};
            all_coarsenings<amgcl::relaxation::spai0>("spai0", A, c, "galerkin", g, 0, 15);
        }
        // complex (non-Hermitian) and 2x2 block valued (non-commuting blocks) matrices through the coarsenings
        int vreps = th ? 16 : 6;
        for (int r = 0; r < vreps; ++r) {
            auto As = r % 2 ? vr::random_mmatrix(g, g.range(20, 60), 0.08, 3, 1) : vr::poisson2d(g.range(4, 8), g.range(3, 7));
            valued_case<std::complex<double>, amgcl::coarsening::smoothed_aggregation>("smoothed_aggregation", "complex", As, g, true, 0.0);
            valued_case<std::complex<double>, amgcl::coarsening::aggregation>("aggregation", "complex", As, g, true, 1.5);
            valued_case<BV2, amgcl::coarsening::smoothed_aggregation>("smoothed_aggregation", "block2", As, g, true, 0.0);
            valued_case<BV2, amgcl::coarsening::aggregation>("aggregation", "block2", As, g, true, 2.0);
            vr::rng g2(vr::env_seed() * 131 + r + 77);     // own stream: the cases that follow are unchanged
            as_scalar_case<amgcl::coarsening::aggregation>("aggregation", As, g2, true);
            as_scalar_case<amgcl::coarsening::smoothed_aggregation>("smoothed_aggregation", As, g2, false);
        }
    } else if (mode == "rebuild") {
        int reps = th ? 10 : 3;
        for (int r = 0; r < reps; ++r) {
            auto A = r % 2 ? vr::random_mmatrix(g, g.range(30, 120), 0.04, 2, 1) : vr::poisson2d(g.range(5, 12), g.range(4, 9));
            if (r % 3 == 2) A = upwinded(A);
            cfg c{(unsigned)g.range(2, 8), 100u, (bool)(r % 3 != 2), true, (unsigned)g.range(1, 2), (unsigned)g.range(1, 2), (unsigned)g.range(1, 2), r % 2 ? 2.0 : 1.5};
            int steps = g.range(2, 4);
            all_coarsenings<amgcl::relaxation::spai0>("spai0", A, c, "rebuild", g, steps, 15);
            all_coarsenings<amgcl::relaxation::gauss_seidel>("gauss_seidel", A, c, "rebuild", g, steps, r % 2 ? 1 : 2);
            all_coarsenings<amgcl::relaxation::ilu0>("ilu0", A, c, "rebuild", g, steps, r % 2 ? 4 : 1);
            all_coarsenings<amgcl::relaxation::chebyshev>("chebyshev", A, c, "rebuild", g, steps, r % 2 ? 2 : 4);
        }
    }
    vr::obj o; o.str("e", "End"); vr::emit(o.done());
    return 0;
}
