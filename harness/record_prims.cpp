// C07 recorder: seeded integer-valued cases through the vector / matrix-vector primitives of
// amgcl::backend (builtin, block_crs, eigen, builtin_hybrid backends; float, double, long double,
// std::complex, static_matrix and Eigen block value types).  Outputs whose scaling coefficient is
// zero are pre-filled with NaN / +-Inf (Poison).  Every call is logged as one ndjson record of
// integers; TLC (spec/C07Trace.tla) recomputes the defining formula exactly and judges.
//
// usage: record_prims            (compile-time -DPART=1|2|3|4 selects the group of instantiations;
//                                 4 = scalar vectors under block matrices of a DIFFERENT precision)
#include <vrec.hpp>
#include <limits>
#include <amgcl/value_type/static_matrix.hpp>
#include <amgcl/value_type/complex.hpp>
#include <amgcl/value_type/eigen.hpp>
#include <amgcl/backend/block_crs.hpp>
#include <amgcl/backend/eigen.hpp>
#include <amgcl/backend/builtin_hybrid.hpp>
#include <omp.h>

#ifndef PART
#  define PART 0
#endif

using namespace amgcl;

static bool g_exact = true;

// ---------------------------------------------------------------- scalar / value traits
template <class S> struct ST {
    enum { SW = 1 };
    typedef S real;
    static S make(const long long *c) { return (S)c[0]; }
    static void get(const S &s, long double *c) { c[0] = (long double)s; }
    static S bad(int k) { return k == 0 ? std::numeric_limits<S>::quiet_NaN() : (k == 1 ? std::numeric_limits<S>::infinity() : -std::numeric_limits<S>::infinity()); }
};
template <class R> struct ST< std::complex<R> > {
    enum { SW = 2 };
    typedef R real;
    static std::complex<R> make(const long long *c) { return std::complex<R>((R)c[0], (R)c[1]); }
    static void get(const std::complex<R> &s, long double *c) { c[0] = s.real(); c[1] = s.imag(); }
    static std::complex<R> bad(int k) { R q = ST<R>::bad(k); return k == 1 ? std::complex<R>(q, (R)1) : std::complex<R>(q, q); }
};
template <class E> struct VT {
    typedef E S; enum { R = 1, C = 1 };
    static void set(E &e, int, int, S s) { e = s; }
    static S get(const E &e, int, int) { return e; }
};
template <class T, int N, int M> struct VT< static_matrix<T, N, M> > {
    typedef T S; enum { R = N, C = M }; typedef static_matrix<T, N, M> E;
    static void set(E &e, int r, int c, S s) { e(r, c) = s; }
    static S get(const E &e, int r, int c) { return e(r, c); }
};
template <class T, int N, int M> struct VT< Eigen::Matrix<T, N, M> > {
    typedef T S; enum { R = N, C = M }; typedef Eigen::Matrix<T, N, M> E;
    static void set(E &e, int r, int c, S s) { e(r, c) = s; }
    static S get(const E &e, int r, int c) { return e(r, c); }
};
template <class E> struct per_elem { enum { value = VT<E>::R * VT<E>::C * ST<typename VT<E>::S>::SW }; };

// the kind K = [b, cx] of TLA+ (VecPrims.tla) with flat widths
struct Kind { int b; bool cx; int W() const { return b * (cx ? 2 : 1); } int MW() const { return b * b * (cx ? 2 : 1); } };
template <class MV> Kind kind_of() { Kind k; k.b = VT<MV>::R; k.cx = ST<typename VT<MV>::S>::SW == 2; return k; }

// flat K-level vector: n values of `per` integers, one poison flag per value
struct FV { int n, per; std::vector<long long> v; std::vector<int> p; };

static FV gen_fv(vr::rng &g, int n, int per, int vmax = 3) {
    FV f; f.n = n; f.per = per; f.v.resize((size_t)n * per); f.p.assign(n, 0);
    for (auto &x : f.v) x = g.range(-vmax, vmax);
    return f;
}
static void poison(vr::rng &g, FV &f) {      // at least one value (if any), about two thirds of them
    for (int i = 0; i < f.n; ++i) f.p[i] = g.coin(0.66) ? 1 : 0;
    if (f.n) f.p[g.below(f.n)] = 1;
}
static std::string fv_json(const FV &f) { vr::obj o; o.i("n", f.n).ints("v", f.v).ints("p", f.p); return o.done(); }

template <class C> struct elem_of { typedef typename std::decay<decltype(std::declval<C&>()[0])>::type type; };

// container of `len` elements  <-  flat vector (len * per_elem == n * per)
template <class C> void fill(C &c, size_t len, const FV &f) {
    typedef typename elem_of<C>::type E; typedef VT<E> T; typedef typename T::S S;
    const int sw = ST<S>::SW, ne = T::R * T::C;
    if (len * ne * sw != f.v.size()) throw std::logic_error("harness: fill size mismatch");
    for (size_t i = 0; i < len; ++i) {
        E e;
        for (int r = 0; r < T::R; ++r) for (int q = 0; q < T::C; ++q) {
            size_t pos = (i * ne + r * T::C + q) * sw;          // first integer of this scalar
            size_t vi = pos / f.per;                            // K-level value it belongs to
            T::set(e, r, q, f.p[vi] ? ST<S>::bad((int)(vi % 3)) : ST<S>::make(&f.v[pos]));
        }
        c[i] = e;
    }
}
template <class C> FV read(const C &c, size_t len, int per) {
    typedef typename elem_of<C>::type E; typedef VT<E> T; typedef typename T::S S;
    const int sw = ST<S>::SW, ne = T::R * T::C;
    FV f; f.per = per; f.n = (int)(len * ne * sw / per); f.v.assign(len * ne * sw, 0); f.p.assign(f.n, 0);
    for (size_t i = 0; i < len; ++i) for (int r = 0; r < T::R; ++r) for (int q = 0; q < T::C; ++q) {
        size_t pos = (i * ne + r * T::C + q) * sw; long double comp[2];
        ST<S>::get(T::get(c[i], r, q), comp);
        for (int k = 0; k < sw; ++k) {
            if (!std::isfinite((double)comp[k])) f.p[(pos + k) / per] = 1;
            else if (comp[k] != std::rint(comp[k]) || std::fabs((double)comp[k]) > 1e9) g_exact = false;
            else f.v[pos + k] = (long long)comp[k];
        }
    }
    for (int i = 0; i < f.n; ++i) if (f.p[i]) for (int k = 0; k < per; ++k) f.v[(size_t)i * per + k] = 0;
    return f;
}

// holders: construct a container of n elements
template <class C> struct H { C c; H(size_t n) : c(n) {} C& get() { return c; } };
template <class E> struct H< iterator_range<E*> > {
    std::vector<E> s; iterator_range<E*> c;
    H(size_t n) : s(n + 1), c(s.data(), s.data() + n) {}
    iterator_range<E*>& get() { return c; }
};

// coefficients
struct CF { long long re, im; bool zero() const { return re == 0 && im == 0; } };
template <class Coef> struct mkc { static Coef get(CF a) { return (Coef)a.re; } enum { cx = 0 }; };
template <class R> struct mkc< std::complex<R> > { static std::complex<R> get(CF a) { return std::complex<R>((R)a.re, (R)a.im); } enum { cx = 1 }; };
template <class Coef> CF pick(vr::rng &g, double pzero = 0.15) {
    static const int vals[] = {1, -1, 2, -3, 1, 2};
    CF a; a.im = 0;
    if (g.coin(pzero)) { a.re = 0; return a; }
    a.re = vals[g.below(6)];
    if (mkc<Coef>::cx && g.coin(0.6)) { a.im = g.range(-2, 2); if (g.coin(0.2)) a.re = 0; if (a.re == 0 && a.im == 0) a.im = 1; }
    return a;
}
static std::string cf_json(CF a, bool cx) { std::ostringstream s; s << "[" << a.re; if (cx) s << "," << a.im; s << "]"; return s.str(); }

static void put(vr::obj &o) {
    o.i("nt", omp_get_max_threads());
    if (o.exact && g_exact) vr::emit(o.done()); else { vr::obj x; x.str("e", "Inexact"); vr::emit(x.done()); }
    g_exact = true;
}
static vr::obj head(const char *op, const char *be, const char *ty, Kind K, const char *mixed = "") {
    vr::obj o; o.str("op", op).str("be", be).str("ty", ty).i("b", K.b).b("cx", K.cx).str("mixed", mixed); return o;
}
static int pick_n(vr::rng &g) { int k = g.below(10); return k == 0 ? 0 : (k == 1 ? 1 : g.range(2, vr::thorough() ? 40 : 17)); }

// ---- extreme magnitudes: a coefficient scaled by 2^-k against an old output scaled by 2^+k (or the other way round).
// The exponents cancel exactly, so the defining formula on the recorded integer mantissas is unchanged; k is chosen so
// that |coef|^2 underflows (resp. overflows) in the real type involved: a zero test must look at the value, not at a norm.
template <class R> int kext() { return (-std::numeric_limits<R>::min_exponent + std::numeric_limits<R>::digits) / 2 + 8; }
template <class C> void scale2(C &c, size_t len, int k) {
    typedef typename elem_of<C>::type E; typedef VT<E> T; typedef typename T::S S; typedef typename ST<S>::real R;
    const R f = std::ldexp((R)1, k);
    for (size_t i = 0; i < len; ++i) { E e = c[i]; for (int r = 0; r < T::R; ++r) for (int q = 0; q < T::C; ++q) T::set(e, r, q, T::get(e, r, q) * f); c[i] = e; }
}
template <class Coef> Coef scaled_coef(CF a, int k) { typedef typename ST<Coef>::real R; return mkc<Coef>::get(a) * std::ldexp((R)1, k); }
template <class Coef, class C> int kfor() { typedef typename ST<typename VT<typename elem_of<C>::type>::S>::real RV; typedef typename ST<Coef>::real RC; return std::min(kext<RV>(), kext<RC>()); }
template <class Coef> CF pick_nz(vr::rng &g, bool not_one = false) { CF c; do c = pick<Coef>(g, 0.0); while (c.zero() || (not_one && c.re == 1 && c.im == 0)); return c; }

// ---------------------------------------------------------------- element-wise primitives
// V: container of rhs values, MVc: container of matrix values (x of vmul), Coef: coefficient type
template <class A, class Z, class Y> void vmul_zx(A a, Z &z, const Y &y, A c, std::true_type) { backend::vmul(a, z, y, c, z); }
template <class A, class Z, class Y> void vmul_zx(A, Z &, const Y &, A, std::false_type) {}
template <class V, class MVc, class Coef>
void elem_ops(vr::rng &g, const char *be, const char *ty, int reps) {
    typedef typename elem_of<V>::type E; typedef typename elem_of<MVc>::type ME;
    Kind K = kind_of<ME>();
    const int W = K.W(), MW = K.MW();
    for (int rep = 0; rep < reps; ++rep) {
        try {   // axpby
            int n = pick_n(g); FV x = gen_fv(g, n, W), y = gen_fv(g, n, W); CF a = pick<Coef>(g), b = pick<Coef>(g, 0.5);
            if (b.zero()) poison(g, y);
            H<V> X(n), Y(n); fill(X.get(), n, x); fill(Y.get(), n, y);
            backend::axpby(mkc<Coef>::get(a), X.get(), mkc<Coef>::get(b), Y.get());
            vr::obj o = head("axpby", be, ty, K); o.raw("a", cf_json(a, K.cx)).raw("bb", cf_json(b, K.cx)).raw("x", fv_json(x)).raw("y", fv_json(y)).raw("out", fv_json(read(Y.get(), n, W))); put(o);
        } catch (const std::exception &e) { vr::obj o = head("axpby", be, ty, K); o.str("exc", e.what()); vr::emit(o.done()); }
        try {   // axpbypcz
            int n = pick_n(g); FV x = gen_fv(g, n, W), y = gen_fv(g, n, W), z = gen_fv(g, n, W); CF a = pick<Coef>(g), b = pick<Coef>(g), c = pick<Coef>(g, 0.5);
            if (c.zero()) poison(g, z);
            H<V> X(n), Y(n), Z(n); fill(X.get(), n, x); fill(Y.get(), n, y); fill(Z.get(), n, z);
            backend::axpbypcz(mkc<Coef>::get(a), X.get(), mkc<Coef>::get(b), Y.get(), mkc<Coef>::get(c), Z.get());
            vr::obj o = head("axpbypcz", be, ty, K); o.raw("a", cf_json(a, K.cx)).raw("bb", cf_json(b, K.cx)).raw("c", cf_json(c, K.cx));
            o.raw("x", fv_json(x)).raw("y", fv_json(y)).raw("z", fv_json(z)).raw("out", fv_json(read(Z.get(), n, W))); put(o);
        } catch (const std::exception &e) { vr::obj o = head("axpbypcz", be, ty, K); o.str("exc", e.what()); vr::emit(o.done()); }
        try {   // vmul: z = a x .* y + b z, x matrix-valued
            int n = pick_n(g); FV x = gen_fv(g, n, MW), y = gen_fv(g, n, W), z = gen_fv(g, n, W); CF a = pick<Coef>(g), b = pick<Coef>(g, 0.5);
            if (b.zero()) poison(g, z);
            H<MVc> X(n); H<V> Y(n), Z(n); fill(X.get(), n, x); fill(Y.get(), n, y); fill(Z.get(), n, z);
            backend::vmul(mkc<Coef>::get(a), X.get(), Y.get(), mkc<Coef>::get(b), Z.get());
            vr::obj o = head("vmul", be, ty, K); o.raw("a", cf_json(a, K.cx)).raw("bb", cf_json(b, K.cx));
            o.raw("x", fv_json(x)).raw("y", fv_json(y)).raw("z", fv_json(z)).raw("out", fv_json(read(Z.get(), n, W))); put(o);
        } catch (const std::exception &e) { vr::obj o = head("vmul", be, ty, K); o.str("exc", e.what()); vr::emit(o.done()); }
        // ---- the output is also an input (valid: IDR(s) calls axpbypcz with z aliasing x); definitions from the saved copies
        try {
            int n = pick_n(g); FV x = gen_fv(g, n, W), y = gen_fv(g, n, W); CF a = pick<Coef>(g), b = pick<Coef>(g), c = pick_nz<Coef>(g, true);
            {   H<V> Y(n), Z(n); fill(Y.get(), n, y); fill(Z.get(), n, x);                      // z aliases x
                backend::axpbypcz(mkc<Coef>::get(a), Z.get(), mkc<Coef>::get(b), Y.get(), mkc<Coef>::get(c), Z.get());
                vr::obj o = head("axpbypcz", be, ty, K); o.str("alias", "z=x").raw("a", cf_json(a, K.cx)).raw("bb", cf_json(b, K.cx)).raw("c", cf_json(c, K.cx));
                o.raw("x", fv_json(x)).raw("y", fv_json(y)).raw("z", fv_json(x)).raw("out", fv_json(read(Z.get(), n, W))); put(o); }
            {   H<V> X(n), Z(n); fill(X.get(), n, x); fill(Z.get(), n, y);                      // z aliases y
                backend::axpbypcz(mkc<Coef>::get(a), X.get(), mkc<Coef>::get(b), Z.get(), mkc<Coef>::get(c), Z.get());
                vr::obj o = head("axpbypcz", be, ty, K); o.str("alias", "z=y").raw("a", cf_json(a, K.cx)).raw("bb", cf_json(b, K.cx)).raw("c", cf_json(c, K.cx));
                o.raw("x", fv_json(x)).raw("y", fv_json(y)).raw("z", fv_json(y)).raw("out", fv_json(read(Z.get(), n, W))); put(o); }
            {   H<V> Y(n); fill(Y.get(), n, y);                                                 // axpby with y aliasing x
                backend::axpby(mkc<Coef>::get(a), Y.get(), mkc<Coef>::get(c), Y.get());
                vr::obj o = head("axpby", be, ty, K); o.str("alias", "y=x").raw("a", cf_json(a, K.cx)).raw("bb", cf_json(c, K.cx)).raw("x", fv_json(y)).raw("y", fv_json(y)).raw("out", fv_json(read(Y.get(), n, W))); put(o); }
            {   FV d = gen_fv(g, n, MW); H<MVc> D(n); H<V> Z(n); fill(D.get(), n, d); fill(Z.get(), n, y);   // vmul with z aliasing y
                backend::vmul(mkc<Coef>::get(a), D.get(), Z.get(), mkc<Coef>::get(c), Z.get());
                vr::obj o = head("vmul", be, ty, K); o.str("alias", "z=y").raw("a", cf_json(a, K.cx)).raw("bb", cf_json(c, K.cx));
                o.raw("x", fv_json(d)).raw("y", fv_json(y)).raw("z", fv_json(y)).raw("out", fv_json(read(Z.get(), n, W))); put(o); }
            if (std::is_same<V, MVc>::value) {                                                  // scalars: vmul with z aliasing x
                H<MVc> Z(n); H<V> Y(n); fill(Z.get(), n, x); fill(Y.get(), n, y);
                vmul_zx(mkc<Coef>::get(a), Z.get(), Y.get(), mkc<Coef>::get(c), std::is_same<V, MVc>());
                vr::obj o = head("vmul", be, ty, K); o.str("alias", "z=x").raw("a", cf_json(a, K.cx)).raw("bb", cf_json(c, K.cx));
                o.raw("x", fv_json(x)).raw("y", fv_json(y)).raw("z", fv_json(x)).raw("out", fv_json(read(Z.get(), n, W))); put(o); }
            {   H<V> X(n); fill(X.get(), n, x);                                                 // copy onto itself
                backend::copy(X.get(), X.get());
                vr::obj o = head("copy", be, ty, K); o.str("alias", "y=x").raw("x", fv_json(x)).raw("y", fv_json(x)).raw("out", fv_json(read(X.get(), n, W))); put(o); }
        } catch (const std::exception &e) { vr::obj o = head("axpbypcz", be, ty, K); o.str("alias", "z=x").str("exc", e.what()); vr::emit(o.done()); }
        // ---- extreme-magnitude output coefficients: tiny coefficient x huge old output, and huge coefficient x tiny old output
        try {
            for (int dir = 1; dir >= -1; dir -= 2) {
                const int k = dir * kfor<Coef, V>(); const char *ext = dir > 0 ? "tiny coefficient, huge old output" : "huge coefficient, tiny old output";
                int n = g.range(1, 9); FV x = gen_fv(g, n, W), y = gen_fv(g, n, W), z = gen_fv(g, n, W), d = gen_fv(g, n, MW);
                CF a = pick<Coef>(g), b = pick<Coef>(g), c = pick_nz<Coef>(g);
                if (mkc<Coef>::cx && g.coin(0.4)) { c.re = 0; if (c.im == 0) c.im = 1; }        // purely imaginary
                {   H<V> X(n), Y(n); fill(X.get(), n, x); fill(Y.get(), n, y); scale2(Y.get(), n, k);
                    backend::axpby(mkc<Coef>::get(a), X.get(), scaled_coef<Coef>(c, -k), Y.get());
                    vr::obj o = head("axpby", be, ty, K); o.str("ext", ext).raw("a", cf_json(a, K.cx)).raw("bb", cf_json(c, K.cx)).raw("x", fv_json(x)).raw("y", fv_json(y)).raw("out", fv_json(read(Y.get(), n, W))); put(o); }
                {   H<V> X(n), Y(n), Z(n); fill(X.get(), n, x); fill(Y.get(), n, y); fill(Z.get(), n, z); scale2(Z.get(), n, k);
                    backend::axpbypcz(mkc<Coef>::get(a), X.get(), mkc<Coef>::get(b), Y.get(), scaled_coef<Coef>(c, -k), Z.get());
                    vr::obj o = head("axpbypcz", be, ty, K); o.str("ext", ext).raw("a", cf_json(a, K.cx)).raw("bb", cf_json(b, K.cx)).raw("c", cf_json(c, K.cx));
                    o.raw("x", fv_json(x)).raw("y", fv_json(y)).raw("z", fv_json(z)).raw("out", fv_json(read(Z.get(), n, W))); put(o); }
                {   H<MVc> D(n); H<V> Y(n), Z(n); fill(D.get(), n, d); fill(Y.get(), n, y); fill(Z.get(), n, z); scale2(Z.get(), n, k);
                    backend::vmul(mkc<Coef>::get(a), D.get(), Y.get(), scaled_coef<Coef>(c, -k), Z.get());
                    vr::obj o = head("vmul", be, ty, K); o.str("ext", ext).raw("a", cf_json(a, K.cx)).raw("bb", cf_json(c, K.cx));
                    o.raw("x", fv_json(d)).raw("y", fv_json(y)).raw("z", fv_json(z)).raw("out", fv_json(read(Z.get(), n, W))); put(o); }
            }
        } catch (const std::exception &e) { vr::obj o = head("axpby", be, ty, K); o.str("ext", "tiny/huge").str("exc", e.what()); vr::emit(o.done()); }
        try {   // copy, clear: the destination is poisoned throughout
            int n = pick_n(g); FV x = gen_fv(g, n, W), y = gen_fv(g, n, W); poison(g, y);
            H<V> X(n), Y(n); fill(X.get(), n, x); fill(Y.get(), n, y);
            backend::copy(X.get(), Y.get());
            { vr::obj o = head("copy", be, ty, K); o.raw("x", fv_json(x)).raw("y", fv_json(y)).raw("out", fv_json(read(Y.get(), n, W))); put(o); }
            fill(Y.get(), n, y);
            backend::clear(Y.get());
            { vr::obj o = head("clear", be, ty, K); o.raw("y", fv_json(y)).raw("out", fv_json(read(Y.get(), n, W))); put(o); }
        } catch (const std::exception &e) { vr::obj o = head("copy", be, ty, K); o.str("exc", e.what()); vr::emit(o.done()); }
        try {   // inner product; the parallel reduction is also run at thread counts that are not powers of two
            int n = rep % 3 == 0 ? g.range(20, 70) : pick_n(g); FV x = gen_fv(g, n, W), y = gen_fv(g, n, W);
            H<V> X(n), Y(n); fill(X.get(), n, x); fill(Y.get(), n, y);
            static const int tcs[] = {0, 3, 5, 6, 7, 2};
            const int nt0 = omp_get_max_threads();
            for (int t = 0; t < (n >= 14 ? 6 : 1); ++t) {
                if (tcs[t]) omp_set_num_threads(tcs[t]);
                auto r = backend::inner_product(X.get(), Y.get());
                typedef typename std::decay<decltype(r)>::type RT; long double comp[2] = {0, 0}; ST<RT>::get(r, comp);
                long long out[2] = {0, 0};
                for (int k = 0; k < 2; ++k) { if (!std::isfinite((double)comp[k]) || comp[k] != std::rint(comp[k])) g_exact = false; else out[k] = (long long)comp[k]; }
                vr::obj o = head("inner", be, ty, K); o.raw("x", fv_json(x)).raw("y", fv_json(y)).ints("out", out, out + 2); put(o);
                omp_set_num_threads(nt0);
            }
        } catch (const std::exception &e) { vr::obj o = head("inner", be, ty, K); o.str("exc", e.what()); vr::emit(o.done()); }
        try {   // lin_comb: y = alpha y + sum c_k v_k, k = 1..5 vectors
            int n = pick_n(g), k = g.range(1, 5); FV y = gen_fv(g, n, W); CF alpha = pick<Coef>(g, 0.5);
            if (alpha.zero()) poison(g, y);
            std::vector<FV> vs; std::vector<CF> cs; std::vector<Coef> cc; std::vector< std::shared_ptr< H<V> > > hs; std::vector<V*> vp;
            for (int j = 0; j < k; ++j) {
                vs.push_back(gen_fv(g, n, W)); cs.push_back(pick<Coef>(g)); cc.push_back(mkc<Coef>::get(cs.back()));
                hs.push_back(std::make_shared< H<V> >(n)); fill(hs.back()->get(), n, vs.back()); vp.push_back(&hs.back()->get());
            }
            H<V> Y(n); fill(Y.get(), n, y);
            backend::lin_comb(k, cc, vp, mkc<Coef>::get(alpha), Y.get());
            vr::obj o = head("lincomb", be, ty, K); o.raw("alpha", cf_json(alpha, K.cx));
            std::string sc = "[", sv = "["; for (int j = 0; j < k; ++j) { if (j) { sc += ","; sv += ","; } sc += cf_json(cs[j], K.cx); sv += fv_json(vs[j]); } sc += "]"; sv += "]";
            o.raw("cs", sc).raw("vs", sv).raw("y", fv_json(y)).raw("out", fv_json(read(Y.get(), n, W))); put(o);
        } catch (const std::exception &e) { vr::obj o = head("lincomb", be, ty, K); o.str("exc", e.what()); vr::emit(o.done()); }
    }
}

// ---------------------------------------------------------------- matrices
struct FM { int n, m, per; std::vector<ptrdiff_t> ptr, col; std::vector<long long> val; };   // per = ints per entry
static FM gen_fm(vr::rng &g, int n, int m, int per, bool sorted) {
    FM A; A.n = n; A.m = m; A.per = per; A.ptr.push_back(0);
    double dens = 0.15 + 0.5 * g.unit();
    for (int i = 0; i < n; ++i) {
        std::vector<int> cs;
        if (!g.coin(0.2)) for (int j = 0; j < m; ++j) if (g.coin(dens)) cs.push_back(j);       // 20% empty rows
        if (!sorted) for (size_t k = cs.size(); k > 1; --k) std::swap(cs[k - 1], cs[g.below((int)k)]);
        for (int c : cs) { A.col.push_back(c); for (int k = 0; k < per; ++k) A.val.push_back(g.range(-3, 3)); }
        A.ptr.push_back((ptrdiff_t)A.col.size());
    }
    return A;
}
static std::string fm_json(const FM &A) { vr::obj o; o.i("n", A.n).i("m", A.m).ints("ptr", A.ptr).ints("col", A.col).ints("val", A.val); return o.done(); }

template <class MV> std::shared_ptr< backend::crs<MV, ptrdiff_t, ptrdiff_t> > build_crs(const FM &F) {
    typedef VT<MV> T; typedef typename T::S S; const int sw = ST<S>::SW;
    auto A = std::make_shared< backend::crs<MV, ptrdiff_t, ptrdiff_t> >();
    A->set_size(F.n, F.m, true);
    for (int i = 0; i < F.n; ++i) A->ptr[i + 1] = F.ptr[i + 1] - F.ptr[i];
    A->set_nonzeros(A->scan_row_sizes());
    for (size_t p = 0; p < F.col.size(); ++p) {
        A->col[p] = F.col[p]; MV v;
        for (int r = 0; r < T::R; ++r) for (int q = 0; q < T::C; ++q) T::set(v, r, q, ST<S>::make(&F.val[(p * T::R * T::C + r * T::C + q) * sw]));
        A->val[p] = v;
    }
    return A;
}
// block-level FM (b x b integer blocks) -> scalar FM with sorted rows
static FM expand_blocks(const FM &F, int b) {
    FM A; A.n = F.n * b; A.m = F.m * b; A.per = 1; A.ptr.push_back(0);
    for (int i = 0; i < F.n; ++i) for (int r = 0; r < b; ++r) {
        std::vector< std::pair<ptrdiff_t, long long> > row;
        for (ptrdiff_t p = F.ptr[i]; p < F.ptr[i + 1]; ++p) for (int q = 0; q < b; ++q) row.push_back(std::make_pair(F.col[p] * b + q, F.val[(p * b + r) * b + q]));
        std::sort(row.begin(), row.end());
        for (auto &e : row) { A.col.push_back(e.first); A.val.push_back(e.second); }
        A.ptr.push_back((ptrdiff_t)A.col.size());
    }
    return A;
}

// matrix policies: make(F) returns a shared_ptr to something usable as the matrix argument
template <class MV> struct CrsP {
    typedef MV value; static Kind kind() { return kind_of<MV>(); } static bool sorted() { return false; }
    static std::shared_ptr< backend::crs<MV, ptrdiff_t, ptrdiff_t> > make(const FM &F) { return build_crs<MV>(F); }
    static FM logged(const FM &F) { return F; }
};
template <class R> struct BcrsP {
    static int &bs() { static int b = 2; return b; }
    static Kind kind() { return kind_of<R>(); } static bool sorted() { return false; }
    static std::shared_ptr< backend::bcrs<R, ptrdiff_t, ptrdiff_t> > make(const FM &F) {
        auto A = build_crs<R>(F);
        return std::make_shared< backend::bcrs<R, ptrdiff_t, ptrdiff_t> >(*A, (size_t)bs());
    }
};
template <class R> struct EigenP {
    static Kind kind() { return kind_of<R>(); } static bool sorted() { return true; }
    static std::shared_ptr< typename backend::eigen<R>::matrix > make(const FM &F) {
        return backend::eigen<R>::copy_matrix(build_crs<R>(F), typename backend::eigen<R>::params());
    }
};
template <class Block> struct HybridP {     // F is block-level; the backend converts the scalar matrix through the block adapter
    static Kind kind() { return kind_of<Block>(); } static bool sorted() { return true; }
    typedef typename math::scalar_of<Block>::type R;
    static std::shared_ptr< backend::crs<Block, ptrdiff_t, ptrdiff_t> > make(const FM &F) {
        typedef backend::builtin_hybrid<Block> B;
        return B::copy_matrix(build_crs<R>(expand_blocks(F, VT<Block>::R)), typename B::params());
    }
};

// spmv / residual with matrix policy P, vector containers VX (x), VY (y, f, r)
template <class P, class VX, class VY, class Coef, class VF = VY>
void mat_ops(vr::rng &g, const char *be, const char *ty, const char *mixed, int reps, bool xbig = false) {
    typedef typename elem_of<VX>::type EX; typedef typename elem_of<VY>::type EY; typedef typename elem_of<VF>::type EF;
    Kind K = P::kind(); const int W = K.W();
    for (int rep = 0; rep < reps; ++rep) {
        int n = g.range(1, vr::thorough() ? 14 : 9), m = g.coin(0.3) ? n : g.range(1, vr::thorough() ? 14 : 9);
        FM F = gen_fm(g, n, m, K.MW(), P::sorted() || g.coin(0.5));
        size_t lx = (size_t)m * W / per_elem<EX>::value, ly = (size_t)n * W / per_elem<EY>::value;
        try {
            auto A = P::make(F);
            {   // spmv
                FV x = gen_fv(g, m, W), y = gen_fv(g, n, W); CF a = pick<Coef>(g), b = pick<Coef>(g, 0.5);
                if (b.zero()) poison(g, y);
                H<VX> X(lx); H<VY> Y(ly); fill(X.get(), lx, x); fill(Y.get(), ly, y);
                backend::spmv(mkc<Coef>::get(a), *A, X.get(), mkc<Coef>::get(b), Y.get());
                vr::obj o = head("spmv", be, ty, K, mixed); o.raw("a", cf_json(a, K.cx)).raw("bb", cf_json(b, K.cx));
                o.raw("A", fm_json(F)).raw("x", fv_json(x)).raw("y", fv_json(y)).raw("out", fv_json(read(Y.get(), ly, W))); put(o);
            }
            {   // spmv with an extreme-magnitude beta (exponents cancel against the old y)
                const int k = (rep % 2 ? -1 : 1) * kfor<Coef, VY>();
                FV x = gen_fv(g, m, W), y = gen_fv(g, n, W); CF a = pick<Coef>(g), b = pick_nz<Coef>(g);
                if (mkc<Coef>::cx && g.coin(0.4)) { b.re = 0; if (b.im == 0) b.im = -1; }
                H<VX> X(lx); H<VY> Y(ly); fill(X.get(), lx, x); fill(Y.get(), ly, y); scale2(Y.get(), ly, k);
                backend::spmv(mkc<Coef>::get(a), *A, X.get(), scaled_coef<Coef>(b, -k), Y.get());
                vr::obj o = head("spmv", be, ty, K, mixed); o.str("ext", k > 0 ? "tiny coefficient, huge old output" : "huge coefficient, tiny old output").raw("a", cf_json(a, K.cx)).raw("bb", cf_json(b, K.cx));
                o.raw("A", fm_json(F)).raw("x", fv_json(x)).raw("y", fv_json(y)).raw("out", fv_json(read(Y.get(), ly, W))); put(o);
            }
            {   // residual: r is write-only
                FV x = gen_fv(g, m, W), f = gen_fv(g, n, W), r = gen_fv(g, n, W); poison(g, r);
                // xbig: x = +-(2^24 + 1..7), exact in the (double) vectors but not in a float accumulator
                if (xbig) for (auto &v : x.v) v = (g.coin() ? 1 : -1) * (16777216LL + g.range(1, 7));
                size_t lf = (size_t)n * W / per_elem<EF>::value;
                H<VX> X(lx); H<VF> Fv(lf); H<VY> Rv(ly); fill(X.get(), lx, x); fill(Fv.get(), lf, f); fill(Rv.get(), ly, r);
                backend::residual(Fv.get(), *A, X.get(), Rv.get());
                vr::obj o = head("residual", be, ty, K, mixed);
                o.raw("A", fm_json(F)).raw("x", fv_json(x)).raw("f", fv_json(f)).raw("y", fv_json(r)).raw("out", fv_json(read(Rv.get(), ly, W))); put(o);
            }
        } catch (const std::exception &e) { vr::obj o = head("spmv", be, ty, K, mixed); o.str("exc", e.what()); vr::emit(o.done()); }
    }
}

// vmul with a block-valued x and y, z each either a scalar vector or a block vector (backend/builtin.hpp "mixed scalar/nonscalar")
template <class MVc, class VY, class Coef, class VZ = VY>
void vmul_mixed(vr::rng &g, const char *be, const char *ty, int reps, const char *mixed = "yz") {
    typedef typename elem_of<MVc>::type ME; Kind K = kind_of<ME>(); const int W = K.W(), MW = K.MW();
    typedef typename elem_of<VY>::type EY; typedef typename elem_of<VZ>::type EZ;
    for (int rep = 0; rep < reps; ++rep) try {
        int n = g.range(1, 12); FV x = gen_fv(g, n, MW), y = gen_fv(g, n, W), z = gen_fv(g, n, W); CF a = pick<Coef>(g), b = pick<Coef>(g, 0.5);
        if (b.zero()) poison(g, z);
        size_t ly = (size_t)n * W / per_elem<EY>::value, lz = (size_t)n * W / per_elem<EZ>::value;
        H<MVc> X(n); H<VY> Y(ly); H<VZ> Z(lz); fill(X.get(), n, x); fill(Y.get(), ly, y); fill(Z.get(), lz, z);
        backend::vmul(mkc<Coef>::get(a), X.get(), Y.get(), mkc<Coef>::get(b), Z.get());
        vr::obj o = head("vmul", be, ty, K, mixed); o.raw("a", cf_json(a, K.cx)).raw("bb", cf_json(b, K.cx));
        o.raw("x", fv_json(x)).raw("y", fv_json(y)).raw("z", fv_json(z)).raw("out", fv_json(read(Z.get(), lz, W))); put(o);
    } catch (const std::exception &e) { vr::obj o = head("vmul", be, ty, K, mixed); o.str("exc", e.what()); vr::emit(o.done()); }
}

// reinterpret_as_rhs called directly (as make_block_solver / as_block do): the scalar vectors viewed as block
// vectors go through the element-wise primitives; results are read back from the scalar storage
template <class Block, class VS, class Coef>
void reint_ops(vr::rng &g, const char *ty, int reps) {
    Kind K = kind_of<Block>(); const int W = K.W();
    for (int rep = 0; rep < reps; ++rep) try {
        int n = g.range(1, 14); size_t ls = (size_t)n * W / per_elem<typename elem_of<VS>::type>::value;
        FV x = gen_fv(g, n, W), y = gen_fv(g, n, W); CF a = pick<Coef>(g), b = pick<Coef>(g, 0.5);
        if (b.zero()) poison(g, y);
        H<VS> Xs(ls), Ys(ls); fill(Xs.get(), ls, x); fill(Ys.get(), ls, y);
        const VS &cx = Xs.get();
        auto X = backend::reinterpret_as_rhs<Block>(cx);
        auto Y = backend::reinterpret_as_rhs<Block>(Ys.get());
        { vr::obj o = head("inner", "builtin", ty, K, "reinterpret"); FV y0 = y; for (auto &q : y0.p) q = 0; fill(Ys.get(), ls, y0);
          auto r = backend::inner_product(X, Y); long long out[2] = {(long long)r, 0}; if (r != std::rint(r)) g_exact = false;
          o.raw("x", fv_json(x)).raw("y", fv_json(y0)).ints("out", out, out + 2); put(o);
          const int nt0 = omp_get_max_threads();
          for (int tc : {3, 7}) { omp_set_num_threads(tc); auto r2 = backend::inner_product(X, Y); long long o2[2] = {(long long)r2, 0}; if (r2 != std::rint(r2)) g_exact = false;
              vr::obj q = head("inner", "builtin", ty, K, "reinterpret"); q.raw("x", fv_json(x)).raw("y", fv_json(y0)).ints("out", o2, o2 + 2); put(q); omp_set_num_threads(nt0); }
          fill(Ys.get(), ls, y); }
        backend::axpby(mkc<Coef>::get(a), X, mkc<Coef>::get(b), Y);
        { vr::obj o = head("axpby", "builtin", ty, K, "reinterpret"); o.raw("a", cf_json(a, K.cx)).raw("bb", cf_json(b, K.cx)).raw("x", fv_json(x)).raw("y", fv_json(y)).raw("out", fv_json(read(Ys.get(), ls, W))); put(o); }
        FV z = gen_fv(g, n, W); poison(g, z); fill(Ys.get(), ls, z);
        backend::copy(X, Y);
        { vr::obj o = head("copy", "builtin", ty, K, "reinterpret"); o.raw("x", fv_json(x)).raw("y", fv_json(z)).raw("out", fv_json(read(Ys.get(), ls, W))); put(o); }
        fill(Ys.get(), ls, z);
        backend::clear(Y);
        { vr::obj o = head("clear", "builtin", ty, K, "reinterpret"); o.raw("y", fv_json(z)).raw("out", fv_json(read(Ys.get(), ls, W))); put(o); }
    } catch (const std::exception &e) { vr::obj o = head("axpby", "builtin", ty, K, "reinterpret"); o.str("exc", e.what()); vr::emit(o.done()); }
}

template <class MV> std::vector<long long> flat_of(const MV &m, double tol);
template <class MV> void value_ops_square(vr::rng &, vr::obj &, double, std::false_type) {}
template <class MV> void value_ops_square(vr::rng &g, vr::obj &o, double tol, std::true_type) {
    typedef VT<MV> T; typedef typename T::S S; const int sw = ST<S>::SW, N = T::R;
    // unimodular integer block: identity after a few row operations row_i += c * row_j, c in {1, -1} (and +-i for complex)
    std::vector<long long> u((size_t)N * N * 2, 0); for (int i = 0; i < N; ++i) u[(i * N + i) * 2] = 1;
    for (int k = 0; k < N + 1; ++k) { int i = g.below(N), j = g.below(N); if (i == j) continue; long long cr = g.coin() ? 1 : -1, ci = 0; if (sw == 2 && g.coin(0.4)) { ci = cr; cr = 0; }
        for (int q = 0; q < N; ++q) { long long ar = u[(j * N + q) * 2], ai = u[(j * N + q) * 2 + 1]; u[(i * N + q) * 2] += cr * ar - ci * ai; u[(i * N + q) * 2 + 1] += cr * ai + ci * ar; } }
    std::vector<long long> uf; MV U;
    for (int r = 0; r < N; ++r) for (int q = 0; q < N; ++q) { long long c[2] = {u[(r * N + q) * 2], u[(r * N + q) * 2 + 1]}; T::set(U, r, q, ST<S>::make(c)); for (int k = 0; k < sw; ++k) uf.push_back(c[k]); }
    MV inv = math::inverse(U), id = math::identity<MV>();
    o.ints("id", flat_of(id, tol)).ints("u", uf).ints("inv", flat_of(inv, tol));
}

// ---- value-type operations on block values: adjoint, zero / is_zero, norm, identity, inverse (of a unimodular integer block)
template <class MV> struct TT;
template <class T, int N, int M> struct TT< static_matrix<T, N, M> > { typedef static_matrix<T, M, N> type; };
template <class T, int N, int M> struct TT< Eigen::Matrix<T, N, M> > { typedef Eigen::Matrix<T, M, N> type; };
template <class MV> std::vector<long long> flat_of(const MV &m, double tol) {
    typedef VT<MV> T; typedef typename T::S S; const int sw = ST<S>::SW; std::vector<long long> v;
    for (int r = 0; r < T::R; ++r) for (int q = 0; q < T::C; ++q) { long double c[2]; ST<S>::get(T::get(m, r, q), c);
        for (int k = 0; k < sw; ++k) { if (!std::isfinite((double)c[k]) || std::fabs((double)(c[k] - std::rint(c[k]))) > tol) g_exact = false; v.push_back((long long)std::rint(c[k])); } }
    return v;
}
template <class MV> void value_ops(vr::rng &g, const char *ty, int reps) {
    typedef VT<MV> T; typedef typename T::S S; typedef typename ST<S>::real R; const int sw = ST<S>::SW, N = T::R, M = T::C;
    const double tol = std::numeric_limits<R>::digits < 30 ? 1e-3 : 1e-8;
    Kind K; K.b = N; K.cx = sw == 2;
    for (int rep = 0; rep < reps; ++rep) try {
        std::vector<long long> mi((size_t)N * M * sw); for (auto &v : mi) v = g.range(-3, 3);
        if (rep % 7 == 6) for (auto &v : mi) v = 0;
        MV m; for (int r = 0; r < N; ++r) for (int q = 0; q < M; ++q) T::set(m, r, q, ST<S>::make(&mi[(r * M + q) * sw]));
        typename TT<MV>::type adj = math::adjoint(m);
        MV z = math::zero<MV>();
        double nrm = (double)math::norm(m); double n2 = nrm * nrm; if (std::fabs(n2 - std::rint(n2)) > tol * (1 + n2)) g_exact = false;
        vr::obj o = head("valueops", "value_type", ty, K); o.i("c", M).ints("m", mi).ints("adj", flat_of(adj, tol)).ints("zero", flat_of(z, tol));
        o.b("zero_is_zero", math::is_zero(z)).b("m_is_zero", math::is_zero(m)).i("norm2", (long long)std::rint(n2));
        value_ops_square<MV>(g, o, tol, std::integral_constant<bool, T::R == T::C>());
        put(o);
    } catch (const std::exception &e) { vr::obj o = head("valueops", "value_type", ty, K); o.str("exc", e.what()); vr::emit(o.done()); }
}

// copy between precisions (mixed-precision solvers copy float <-> double vectors)
template <class V1, class V2> void copy_conv(vr::rng &g, const char *ty, int reps) {
    // (a b x c matrix value is recorded as a vector value of b*c scalars: copy is element-wise)
    typedef typename elem_of<V1>::type E; Kind K = kind_of<E>(); K.b = VT<E>::R * VT<E>::C; const int W = K.W();
    for (int rep = 0; rep < reps; ++rep) {
        int n = pick_n(g); FV x = gen_fv(g, n, W), y = gen_fv(g, n, W); poison(g, y);
        H<V1> X(n); H<V2> Y(n); fill(X.get(), n, x); fill(Y.get(), n, y);
        backend::copy(X.get(), Y.get());
        vr::obj o = head("copy", "builtin", ty, K); o.raw("x", fv_json(x)).raw("y", fv_json(y)).raw("out", fv_json(read(Y.get(), n, W))); put(o);
    }
}

template <class T, int B> struct blk { typedef static_matrix<T, B, B> M; typedef static_matrix<T, B, 1> V; };
template <class T, int B> struct eblk { typedef Eigen::Matrix<T, B, B> M; typedef Eigen::Matrix<T, B, 1> V; };

int main(int argc, char **argv) {
    vr::install_terminate();
    uint64_t seed = vr::env_seed();
    const int R = vr::env_int("VERIF_REPS", vr::thorough() ? 60 : 12);
    vr::rng g(seed * 7919 + 100 * PART + 3);
    typedef std::complex<double> cd; typedef std::complex<float> cf;
    using backend::numa_vector;
#if PART == 0 || PART == 1
    // ---- builtin backend, scalar value types
    elem_ops< std::vector<double>, std::vector<double>, double >(g, "builtin", "double", R);
    elem_ops< numa_vector<float>, numa_vector<float>, float >(g, "builtin", "float", R);
    elem_ops< std::vector<long double>, std::vector<long double>, long double >(g, "builtin", "long double", R);
    elem_ops< iterator_range<double*>, iterator_range<double*>, double >(g, "builtin", "double/range", R);
    elem_ops< std::vector<cd>, std::vector<cd>, cd >(g, "builtin", "complex<double>", R);
    elem_ops< std::vector<cd>, std::vector<cd>, double >(g, "builtin", "complex<double>/real coef", R / 2 + 1);
    elem_ops< numa_vector<cf>, numa_vector<cf>, cf >(g, "builtin", "complex<float>", R);
    mat_ops< CrsP<double>, std::vector<double>, numa_vector<double>, double >(g, "builtin", "double", "", 2 * R);
    mat_ops< CrsP<float>, numa_vector<float>, numa_vector<float>, float >(g, "builtin", "float", "", R);
    mat_ops< CrsP<long double>, std::vector<long double>, std::vector<long double>, long double >(g, "builtin", "long double", "", R);
    mat_ops< CrsP<cd>, std::vector<cd>, std::vector<cd>, cd >(g, "builtin", "complex<double>", "", 2 * R);
    mat_ops< CrsP<cf>, numa_vector<cf>, numa_vector<cf>, cf >(g, "builtin", "complex<float>", "", R);
    // float matrix under double vectors (mixed precision)
    mat_ops< CrsP<float>, std::vector<double>, std::vector<double>, double >(g, "builtin", "float matrix/double vectors", "", R);
    copy_conv< std::vector<float>, std::vector<double> >(g, "float->double", R);
    copy_conv< numa_vector<double>, numa_vector<float> >(g, "double->float", R);
#endif
#if PART == 0 || PART == 2
    // ---- builtin backend, block value types (static_matrix and Eigen), scalar vectors where block vectors are expected
    elem_ops< numa_vector< blk<double,2>::V >, numa_vector< blk<double,2>::M >, double >(g, "builtin", "static_matrix<double,2,2>", R);
    elem_ops< std::vector< blk<double,3>::V >, std::vector< blk<double,3>::M >, double >(g, "builtin", "static_matrix<double,3,3>", R);
    elem_ops< std::vector< blk<float,4>::V >, std::vector< blk<float,4>::M >, float >(g, "builtin", "static_matrix<float,4,4>", R);
    elem_ops< std::vector< blk<cd,2>::V >, std::vector< blk<cd,2>::M >, cd >(g, "builtin", "static_matrix<complex<double>,2,2>", R);
    elem_ops< std::vector< eblk<double,2>::V >, std::vector< eblk<double,2>::M >, double >(g, "builtin", "Eigen::Matrix<double,2,2>", R);
    elem_ops< std::vector< eblk<double,3>::V >, std::vector< eblk<double,3>::M >, double >(g, "builtin", "Eigen::Matrix<double,3,3>", R);
    elem_ops< std::vector< eblk<cd,2>::V >, std::vector< eblk<cd,2>::M >, cd >(g, "builtin", "Eigen::Matrix<complex<double>,2,2>", R);
    mat_ops< CrsP< blk<double,2>::M >, numa_vector< blk<double,2>::V >, numa_vector< blk<double,2>::V >, double >(g, "builtin", "static_matrix<double,2,2>", "", 2 * R);
    mat_ops< CrsP< blk<double,3>::M >, std::vector< blk<double,3>::V >, std::vector< blk<double,3>::V >, double >(g, "builtin", "static_matrix<double,3,3>", "", R);
    mat_ops< CrsP< blk<float,4>::M >, std::vector< blk<float,4>::V >, std::vector< blk<float,4>::V >, float >(g, "builtin", "static_matrix<float,4,4>", "", R);
    mat_ops< CrsP< blk<cd,2>::M >, std::vector< blk<cd,2>::V >, std::vector< blk<cd,2>::V >, cd >(g, "builtin", "static_matrix<complex<double>,2,2>", "", R);
    mat_ops< CrsP< eblk<double,2>::M >, std::vector< eblk<double,2>::V >, std::vector< eblk<double,2>::V >, double >(g, "builtin", "Eigen::Matrix<double,2,2>", "", R);
    mat_ops< CrsP< eblk<double,3>::M >, std::vector< eblk<double,3>::V >, std::vector< eblk<double,3>::V >, double >(g, "builtin", "Eigen::Matrix<double,3,3>", "", R);
    // scalar vectors passed where block vectors are expected: both, x only, y only
    mat_ops< CrsP< blk<double,2>::M >, std::vector<double>, std::vector<double>, double >(g, "builtin", "static_matrix<double,2,2>", "xy", 2 * R);
    mat_ops< CrsP< blk<double,3>::M >, numa_vector<double>, std::vector< blk<double,3>::V >, double >(g, "builtin", "static_matrix<double,3,3>", "x", R);
    mat_ops< CrsP< blk<double,3>::M >, std::vector< blk<double,3>::V >, numa_vector<double>, double >(g, "builtin", "static_matrix<double,3,3>", "y", R);
    mat_ops< CrsP< blk<float,4>::M >, std::vector<float>, iterator_range<float*>, float >(g, "builtin", "static_matrix<float,4,4>", "xy", R);
    mat_ops< CrsP< eblk<double,2>::M >, std::vector<double>, std::vector<double>, double >(g, "builtin", "Eigen::Matrix<double,2,2>", "xy", R);
    vmul_mixed< numa_vector< blk<double,2>::M >, numa_vector<double>, double >(g, "builtin", "static_matrix<double,2,2>", R);
    vmul_mixed< std::vector< blk<double,3>::M >, std::vector<double>, double >(g, "builtin", "static_matrix<double,3,3>", R);
    vmul_mixed< std::vector< eblk<double,2>::M >, std::vector<double>, double >(g, "builtin", "Eigen::Matrix<double,2,2>", R);
    // value-type operations of block values
    value_ops< static_matrix<double,2,2> >(g, "static_matrix<double,2,2>", 2 * R);
    value_ops< static_matrix<double,3,3> >(g, "static_matrix<double,3,3>", R);
    value_ops< static_matrix<float,4,4> >(g, "static_matrix<float,4,4>", R);
    value_ops< static_matrix<double,2,3> >(g, "static_matrix<double,2,3>", R);
    value_ops< static_matrix<double,3,1> >(g, "static_matrix<double,3,1>", R);
    value_ops< static_matrix<cd,2,2> >(g, "static_matrix<complex<double>,2,2>", R);
    value_ops< Eigen::Matrix<double,2,2> >(g, "Eigen::Matrix<double,2,2>", 2 * R);
    value_ops< Eigen::Matrix<double,3,3> >(g, "Eigen::Matrix<double,3,3>", R);
    value_ops< Eigen::Matrix<float,4,4> >(g, "Eigen::Matrix<float,4,4>", R);
    value_ops< Eigen::Matrix<double,3,1> >(g, "Eigen::Matrix<double,3,1>", R);
    value_ops< Eigen::Matrix<cd,2,2> >(g, "Eigen::Matrix<complex<double>,2,2>", R);
    // every combination of {scalar, block} per vector operand, b = 2, 3, 4
    vmul_mixed< numa_vector< blk<double,2>::M >, std::vector<double>, double, std::vector< blk<double,2>::V > >(g, "builtin", "static_matrix<double,2,2>", R, "y");
    vmul_mixed< numa_vector< blk<double,2>::M >, std::vector< blk<double,2>::V >, double, numa_vector<double> >(g, "builtin", "static_matrix<double,2,2>", R, "z");
    vmul_mixed< std::vector< blk<double,3>::M >, numa_vector<double>, double, std::vector< blk<double,3>::V > >(g, "builtin", "static_matrix<double,3,3>", R, "y");
    vmul_mixed< std::vector< blk<double,3>::M >, std::vector< blk<double,3>::V >, double, std::vector<double> >(g, "builtin", "static_matrix<double,3,3>", R, "z");
    vmul_mixed< std::vector< blk<float,4>::M >, std::vector<float>, float, numa_vector< blk<float,4>::V > >(g, "builtin", "static_matrix<float,4,4>", R, "y");
    vmul_mixed< std::vector< blk<float,4>::M >, std::vector< blk<float,4>::V >, float, iterator_range<float*> >(g, "builtin", "static_matrix<float,4,4>", R, "z");
    vmul_mixed< std::vector< blk<float,4>::M >, std::vector<float>, float >(g, "builtin", "static_matrix<float,4,4>", R);
    vmul_mixed< std::vector< eblk<double,2>::M >, std::vector<double>, double, std::vector< eblk<double,2>::V > >(g, "builtin", "Eigen::Matrix<double,2,2>", R, "y");
    mat_ops< CrsP< blk<double,2>::M >, std::vector<double>, numa_vector< blk<double,2>::V >, double >(g, "builtin", "static_matrix<double,2,2>", "x", R);
    mat_ops< CrsP< blk<double,2>::M >, numa_vector< blk<double,2>::V >, std::vector<double>, double >(g, "builtin", "static_matrix<double,2,2>", "y", R);
    mat_ops< CrsP< blk<float,4>::M >, std::vector<float>, std::vector< blk<float,4>::V >, float >(g, "builtin", "static_matrix<float,4,4>", "x", R);
    mat_ops< CrsP< blk<float,4>::M >, std::vector< blk<float,4>::V >, std::vector<float>, float >(g, "builtin", "static_matrix<float,4,4>", "y", R);
    // residual: f and r of different kinds
    mat_ops< CrsP< blk<double,2>::M >, std::vector< blk<double,2>::V >, std::vector< blk<double,2>::V >, double, std::vector<double> >(g, "builtin", "static_matrix<double,2,2>", "f", R);
    mat_ops< CrsP< blk<double,3>::M >, std::vector<double>, std::vector<double>, double, std::vector< blk<double,3>::V > >(g, "builtin", "static_matrix<double,3,3>", "xr", R);
    mat_ops< CrsP< blk<float,4>::M >, std::vector< blk<float,4>::V >, numa_vector<float>, float, std::vector< blk<float,4>::V > >(g, "builtin", "static_matrix<float,4,4>", "r", R);
    // reinterpret_as_rhs of vectors that already are block vectors (identity view, same length)
    reint_ops< blk<double,2>::M, std::vector< blk<double,2>::V >, double >(g, "static_matrix<double,2,2> (block vectors)", R);
    reint_ops< blk<double,3>::M, numa_vector< blk<double,3>::V >, double >(g, "static_matrix<double,3,3> (block vectors)", R);
    reint_ops< blk<float,4>::M, std::vector< blk<float,4>::V >, float >(g, "static_matrix<float,4,4> (block vectors)", R);
    reint_ops< blk<double,2>::M, std::vector<double>, double >(g, "static_matrix<double,2,2>", R);
    reint_ops< blk<double,3>::M, numa_vector<double>, double >(g, "static_matrix<double,3,3>", R);
    reint_ops< blk<float,4>::M, std::vector<float>, float >(g, "static_matrix<float,4,4>", R);
    reint_ops< eblk<double,3>::M, std::vector<double>, double >(g, "Eigen::Matrix<double,3,3>", R);
#endif
#if PART == 0 || PART == 3
    // ---- block_crs backend: block sizes 1..4 on matrices whose sizes need not be divisible
    for (int bs = 1; bs <= 4; ++bs) {
        BcrsP<double>::bs() = bs; BcrsP<float>::bs() = bs;
        std::string l = "bs=" + std::to_string(bs);
        mat_ops< BcrsP<double>, numa_vector<double>, numa_vector<double>, double >(g, "block_crs", ("double " + l).c_str(), "", 2 * R);
        mat_ops< BcrsP<float>, numa_vector<float>, numa_vector<float>, float >(g, "block_crs", ("float " + l).c_str(), "", R);
    }
    // ---- eigen backend
    typedef Eigen::Matrix<double, Eigen::Dynamic, 1> EVd; typedef Eigen::Matrix<float, Eigen::Dynamic, 1> EVf;
    elem_ops< EVd, EVd, double >(g, "eigen", "double", R);
    elem_ops< EVf, EVf, float >(g, "eigen", "float", R);
    mat_ops< EigenP<double>, EVd, EVd, double >(g, "eigen", "double", "", 2 * R);
    mat_ops< EigenP<float>, EVf, EVf, float >(g, "eigen", "float", "", R);
    typedef Eigen::Matrix<cd, Eigen::Dynamic, 1> EVc;
    elem_ops< EVc, EVc, cd >(g, "eigen", "complex<double>", R);
    mat_ops< EigenP<cd>, EVc, EVc, cd >(g, "eigen", "complex<double>", "", R);
    // ---- hybrid backend: block matrix (converted by the backend), scalar vectors
    mat_ops< HybridP< blk<double,2>::M >, numa_vector<double>, numa_vector<double>, double >(g, "builtin_hybrid", "static_matrix<double,2,2>", "xy", 2 * R);
    mat_ops< HybridP< blk<double,3>::M >, numa_vector<double>, numa_vector<double>, double >(g, "builtin_hybrid", "static_matrix<double,3,3>", "xy", R);
    mat_ops< HybridP< blk<float,4>::M >, numa_vector<float>, numa_vector<float>, float >(g, "builtin_hybrid", "static_matrix<float,4,4>", "xy", R);
    mat_ops< HybridP< eblk<double,2>::M >, numa_vector<double>, numa_vector<double>, double >(g, "builtin_hybrid", "Eigen::Matrix<double,2,2>", "xy", R);
#endif
#if PART == 0 || PART == 4
    // float matrix under double vectors: the row sum of residual() is accumulated in the precision of the OUTPUT vector
    mat_ops< CrsP<float>, std::vector<double>, std::vector<double>, double >(g, "builtin", "float matrix/double vectors, x beyond float precision", "", 2 * R, true);
    mat_ops< CrsP<float>, numa_vector<double>, numa_vector<double>, double >(g, "builtin", "float matrix/double vectors, x beyond float precision", "", R, true);
    // converting assignment between block values of different precision converts EVERY entry (copy is y[i] = x[i])
    copy_conv< std::vector< blk<double,2>::M >, std::vector< blk<float,2>::M > >(g, "static_matrix<double,2,2> -> static_matrix<float,2,2>", R);
    copy_conv< std::vector< blk<double,3>::M >, numa_vector< blk<float,3>::M > >(g, "static_matrix<double,3,3> -> static_matrix<float,3,3>", R);
    copy_conv< numa_vector< blk<float,4>::M >, std::vector< blk<double,4>::M > >(g, "static_matrix<float,4,4> -> static_matrix<double,4,4>", R);
    copy_conv< std::vector< blk<double,3>::V >, std::vector< blk<float,3>::V > >(g, "static_matrix<double,3,1> -> static_matrix<float,3,1>", R);
    copy_conv< std::vector< static_matrix<double,2,3> >, std::vector< static_matrix<float,2,3> > >(g, "static_matrix<double,2,3> -> static_matrix<float,2,3>", R);
    // ... and with a vector precision different from the matrix precision (float blocks under double vectors as in the
    // mixed-precision hybrid set-up, double blocks under float vectors): reinterpret_as_rhs must keep the VECTOR's scalar type
    mat_ops< CrsP< blk<float,2>::M >, std::vector<double>, std::vector<double>, double >(g, "builtin", "static_matrix<float,2,2> matrix/double vectors", "xy", 2 * R);
    mat_ops< CrsP< blk<float,3>::M >, numa_vector<double>, std::vector< blk<double,3>::V >, double >(g, "builtin", "static_matrix<float,3,3> matrix/double vectors", "x", R);
    mat_ops< CrsP< blk<float,3>::M >, std::vector< blk<double,3>::V >, numa_vector<double>, double >(g, "builtin", "static_matrix<float,3,3> matrix/double vectors", "y", R);
    mat_ops< CrsP< blk<double,2>::M >, std::vector<float>, std::vector<float>, float >(g, "builtin", "static_matrix<double,2,2> matrix/float vectors", "xy", R);
    mat_ops< CrsP< blk<float,4>::M >, numa_vector<double>, iterator_range<double*>, double >(g, "builtin", "static_matrix<float,4,4> matrix/double vectors", "xy", R);
    vmul_mixed< numa_vector< blk<float,2>::M >, std::vector<double>, double >(g, "builtin", "static_matrix<float,2,2> diagonal/double vectors", R);
    vmul_mixed< std::vector< blk<double,3>::M >, numa_vector<float>, float >(g, "builtin", "static_matrix<double,3,3> diagonal/float vectors", R);
    // hybrid backend with a float block matrix under double vectors (tutorial/5.Nullspace/nullspace_hybrid.cpp)
    mat_ops< HybridP< blk<float,2>::M >, numa_vector<double>, numa_vector<double>, double >(g, "builtin_hybrid", "static_matrix<float,2,2> matrix/double vectors", "xy", 2 * R);
    mat_ops< HybridP< blk<float,3>::M >, std::vector<double>, numa_vector<double>, double >(g, "builtin_hybrid", "static_matrix<float,3,3> matrix/double vectors", "xy", R);
#endif
    vr::obj o; o.str("e", "End"); vr::emit(o.done());
    return 0;
}
