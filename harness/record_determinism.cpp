// C09 recorder (determinism): computes the same results under many OpenMP thread counts
// in one process (omp_set_num_threads; amgcl queries omp_get_max_threads() when objects are
// constructed) and logs, per item, the list of digests (bitwise class) or the relative
// spread in units of 2^-52 (rounding class).  Judged by spec/C09Trace.tla (DetClauses).
#include <vrec.hpp>
#include <amgcl/amg.hpp>
#include <amgcl/make_solver.hpp>
#include <amgcl/adapter/crs_tuple.hpp>
#include <amgcl/coarsening/aggregation.hpp>
#include <amgcl/coarsening/tentative_prolongation.hpp>
#include <amgcl/coarsening/smoothed_aggregation.hpp>
#include <amgcl/coarsening/smoothed_aggr_emin.hpp>
#include <amgcl/coarsening/ruge_stuben.hpp>
#include <amgcl/relaxation/gauss_seidel.hpp>
#include <amgcl/relaxation/spai0.hpp>
#include <amgcl/relaxation/spai1.hpp>
#include <amgcl/relaxation/damped_jacobi.hpp>
#include <amgcl/relaxation/chebyshev.hpp>
#include <amgcl/relaxation/ilu0.hpp>
#include <amgcl/solver/cg.hpp>
#include <amgcl/solver/idrs.hpp>
#include <amgcl/value_type/static_matrix.hpp>
#include <amgcl/adapter/block_matrix.hpp>
#include <omp.h>
#include <functional>
#include <map>

using vr::crsd;
typedef amgcl::backend::builtin<double> B;

// ascending by default; VERIF_ORDER=desc visits the same counts in descending order (a fresh
// process each: anything cached at first use - a static thread count, a lazily sized table -
// then meets a *smaller* team than it was laid out for)
static int TS[] = {1, 2, 3, 4, 5, 8, 16, 17, 24, 32};
static const int NTS = sizeof(TS) / sizeof(TS[0]);

typedef std::vector<double> vec;

static void dig_crs(vr::digest &d, const crsd &A) {
    d.pod(A.nrows); d.pod(A.ncols); d.vec(A.ptr, A.nrows + 1); d.vec(A.col, A.ptr[A.nrows]); d.vec(A.val, A.ptr[A.nrows]);
}
static vec flat(const crsd &A) { return vec(A.val, A.val + A.ptr[A.nrows]); }

// non-dyadic values so that association order matters
static std::shared_ptr<crsd> perturb(std::shared_ptr<crsd> A, vr::rng &g, bool keep_sym) {
    if (!keep_sym) { for (ptrdiff_t p = 0; p < A->ptr[A->nrows]; ++p) A->val[p] *= (1.0 + 0.37 * g.unit()); return A; }
    // symmetric scaling D A D keeps symmetry and the M-matrix sign pattern
    vec s(A->nrows); for (auto &v : s) v = 0.8 + 0.4 * g.unit();
    for (size_t i = 0; i < A->nrows; ++i) for (ptrdiff_t p = A->ptr[i]; p < A->ptr[i+1]; ++p) A->val[p] *= s[i] * s[A->col[p]];
    return A;
}

// two interleaved stars: hubs 0 and 1, leaf i attached to hub (i % 2); SPD M-matrix
static std::shared_ptr<crsd> two_stars(vr::rng &g, int n) {
    std::vector<std::vector<std::pair<int,double>>> rows(n);
    std::vector<double> hub(2, 0.0);
    for (int i = 2; i < n; ++i) { double w = 1.0 + 0.5 * g.unit(); int h = i % 2; rows[i].push_back({h, -w}); rows[i].push_back({i, w + 0.01}); hub[h] += w; }
    for (int h = 0; h < 2; ++h) { rows[h].push_back({h, hub[h] + 1.0}); }
    // hub rows: list their leaves (sorted)
    for (int h = 0; h < 2; ++h) for (int i = 2 + h; i < n; i += 2) rows[h].push_back({i, rows[i][0].second});
    for (auto &r : rows) std::sort(r.begin(), r.end());
    return vr::from_rows(n, n, rows);
}

struct item { std::string name, cls; long long bound; bool via_product; std::function<vec(vr::digest&)> f; bool repro = true; };

static void run_item(const item &it) {
    std::vector<vec> res(NTS); std::vector<vr::digest> dg(NTS);
    bool desc = getenv("VERIF_ORDER") && std::string(getenv("VERIF_ORDER")) == "desc";
    bool repeat_same = true;      // the same thread count twice in a row: bitwise the same result
    for (int q = 0; q < NTS; ++q) { int k = desc ? NTS - 1 - q : q; omp_set_num_threads(TS[k]); res[k] = it.f(dg[k]); dg[k].vec(res[k].data(), res[k].size());
        if (it.repro && (TS[k] == 4 || TS[k] == 8 || TS[k] == 17)) { vr::digest d2; vec r2 = it.f(d2); d2.vec(r2.data(), r2.size()); if (d2.h != dg[k].h) repeat_same = false; } }
    omp_set_num_threads(1);
    double spread = 0, scale = 0; bool shape = true;
    for (double v : res[0]) scale = std::max(scale, std::fabs(v));
    for (int k = 1; k < NTS; ++k) { if (res[k].size() != res[0].size()) { shape = false; continue; } for (size_t i = 0; i < res[0].size(); ++i) spread = std::max(spread, std::fabs(res[k][i] - res[0][i])); }
    long long ulps = !shape ? 1000000000LL : (scale > 0 ? (long long)std::min(1e9, spread / (scale * 2.220446049250313e-16)) : (spread > 0 ? 1000000000LL : 0));
    // spread restricted to thread counts on one side of the 16-thread SpGEMM switch
    double lo = 0, hi = 0; int first_hi = -1;
    for (int k = 0; k < NTS; ++k) if (TS[k] > 16 && first_hi < 0) first_hi = k;
    std::ostringstream d; d << "[";
    for (int k = 0; k < NTS; ++k) d << (k ? "," : "") << "[" << dg[k].lo() << "," << dg[k].hi() << "]";
    d << "]";
    vr::obj o; o.str("k", "det").str("name", it.name).str("cls", it.cls).b("via_product", it.via_product).i("spread", ulps).i("bound", it.bound);
    o.ints("ts", TS, TS + NTS).i("nlow", first_hi).raw("d", d.str()).b("repro", it.repro).b("repeat_same", repeat_same);
    vr::emit(o.done());
}

template <template <class> class C, template <class> class R>
static vec amg_apply(std::shared_ptr<crsd> A, const vec &f, vr::digest &d, int ncycle = 1) {
    typedef amgcl::amg<B, C, R> AMG;
    typename AMG::params p; p.coarse_enough = 20; p.ncycle = ncycle;
    AMG amg(*A, p);
    vec x(f.size(), 0.0); amg.apply(f, x); return x;
}
template <template <class> class C>
static vec transfer(std::shared_ptr<crsd> A, vr::digest &d) {
    C<B> c((typename C<B>::params()));
    auto PR = c.transfer_operators(*A);
    dig_crs(d, *std::get<0>(PR)); dig_crs(d, *std::get<1>(PR));
    return flat(*std::get<0>(PR));
}

int main() {
    vr::install_terminate();
    vr::rng g(vr::env_seed() + 900);
    bool th = vr::thorough();
    int reps = th ? 4 : 1;
    for (int rep = 0; rep < reps; ++rep) {
        int nx = g.range(14, 22), ny = g.range(12, 20);
        auto S = perturb(vr::poisson2d(nx, ny, 1, g.range(1, 3)), g, true);              // SPD M-matrix, non-dyadic
        auto G = perturb(vr::random_mmatrix(g, g.range(150, 300), 0.02, 5, 1), g, true);   // random-graph M-matrix
        auto N = perturb(vr::random_int(g, 200, 200, 0.03, 4, false, true), g, false);     // non-symmetric
        for (size_t i = 0; i < N->nrows; ++i) for (ptrdiff_t p = N->ptr[i]; p < N->ptr[i+1]; ++p) if (N->col[p] == (ptrdiff_t)i) N->val[p] = 9.5 + g.unit();
        auto Q = perturb(vr::random_int(g, 180, 220, 0.05, 4, false), g, false);
        auto Rm = perturb(vr::random_int(g, 220, 160, 0.05, 4, false), g, false);
        int n = S->nrows; vec f(n), y0(n); for (int i = 0; i < n; ++i) { f[i] = g.unit() - 0.5; y0[i] = g.unit(); }
        vec fg(G->nrows); for (auto &v : fg) v = g.unit() - 0.5;
        vec fn(N->nrows), xn(N->nrows); for (size_t i = 0; i < fn.size(); ++i) { fn[i] = g.unit(); xn[i] = g.unit(); }
        std::vector<item> items;
        // ---- bitwise class
        items.push_back({"product", "bitwise", 0, true, [&](vr::digest &d) { auto C = amgcl::backend::product(*Q, *Rm, true); dig_crs(d, *C); return flat(*C); }});
        // block-valued product (2x2 blocks that do not commute): the side a coefficient multiplies from matters
        {   typedef amgcl::static_matrix<double, 2, 2> BV; typedef amgcl::backend::crs<BV, ptrdiff_t, ptrdiff_t> bcrs;
            static std::shared_ptr<bcrs> Qb, Rb;
            Qb = std::make_shared<bcrs>(amgcl::adapter::block_matrix<BV>(*perturb(vr::random_int(g, 120, 140, 0.06, 4, false), g, false)));
            Rb = std::make_shared<bcrs>(amgcl::adapter::block_matrix<BV>(*perturb(vr::random_int(g, 140, 100, 0.06, 4, false), g, false)));
            items.push_back({"product-block2", "bitwise", 0, true, [&](vr::digest &d) { auto C = amgcl::backend::product(*Qb, *Rb, true);
                d.vec(C->ptr, C->nrows + 1); d.vec(C->col, C->nnz); vec v; v.reserve(C->nnz * 4);
                for (size_t k = 0; k < C->nnz; ++k) for (int r = 0; r < 2; ++r) for (int c = 0; c < 2; ++c) v.push_back(C->val[k](r, c)); return v; }});
        }
        items.push_back({"transpose", "bitwise", 0, false, [&](vr::digest &d) { auto C = amgcl::backend::transpose(*Q); dig_crs(d, *C); return flat(*C); }});
        items.push_back({"sum", "bitwise", 0, false, [&](vr::digest &d) { auto C = amgcl::backend::sum(0.3, *Q, 1.7, *Q, true); dig_crs(d, *C); return flat(*C); }});
        items.push_back({"spmv", "bitwise", 0, false, [&](vr::digest &d) { vec y(y0); amgcl::backend::spmv(0.7, *S, f, 0.3, y); return y; }});
        items.push_back({"residual", "bitwise", 0, false, [&](vr::digest &d) { vec y(n); amgcl::backend::residual(f, *S, y0, y); return y; }});
        items.push_back({"vector-updates", "bitwise", 0, false, [&](vr::digest &d) { vec y(y0), z(y0); amgcl::backend::axpby(0.3, f, 1.1, y); amgcl::backend::axpbypcz(0.2, f, 0.7, y, 0.9, z); amgcl::backend::vmul(1.3, f, y, 0.1, z); return z; }});
        items.push_back({"transfer-aggregation", "bitwise", 0, false, [&](vr::digest &d) { return transfer<amgcl::coarsening::aggregation>(S, d); }});
        items.push_back({"transfer-smoothed_aggregation", "bitwise", 0, false, [&](vr::digest &d) { return transfer<amgcl::coarsening::smoothed_aggregation>(G, d); }});
        items.push_back({"transfer-ruge_stuben", "bitwise", 0, false, [&](vr::digest &d) { return transfer<amgcl::coarsening::ruge_stuben>(S, d); }});
        items.push_back({"gauss_seidel-sweep-sym", "bitwise", 0, false, [&](vr::digest &d) { amgcl::relaxation::gauss_seidel<B> gs(*S, amgcl::relaxation::gauss_seidel<B>::params(), B::params()); vec x(y0), t(n); gs.apply_pre(*S, f, x, t); gs.apply_post(*S, f, x, t); return x; }});
        items.push_back({"gauss_seidel-sweep-nonsym", "bitwise", 0, false, [&](vr::digest &d) { amgcl::relaxation::gauss_seidel<B> gs(*N, amgcl::relaxation::gauss_seidel<B>::params(), B::params()); vec x(xn), t(xn.size()); gs.apply_pre(*N, fn, x, t); gs.apply_post(*N, fn, x, t); return x; }});
        items.push_back({"amg-aggregation-gauss_seidel", "bitwise", 0, true, [&](vr::digest &d) { return amg_apply<amgcl::coarsening::aggregation, amgcl::relaxation::gauss_seidel>(S, f, d); }});
        items.push_back({"amg-smoothed_aggregation-spai0", "bitwise", 0, true, [&](vr::digest &d) { return amg_apply<amgcl::coarsening::smoothed_aggregation, amgcl::relaxation::spai0>(G, fg, d, 2); }});
        items.push_back({"amg-ruge_stuben-damped_jacobi", "bitwise", 0, true, [&](vr::digest &d) { return amg_apply<amgcl::coarsening::ruge_stuben, amgcl::relaxation::damped_jacobi>(S, f, d); }});
        items.push_back({"amg-smoothed_aggregation-chebyshev", "bitwise", 0, true, [&](vr::digest &d) { return amg_apply<amgcl::coarsening::smoothed_aggregation, amgcl::relaxation::chebyshev>(S, f, d); }});
        // ---- rounding class: cross-thread reduction / critical accumulation / serial<->level-scheduled switch / thread-seeded rng
        items.push_back({"inner_product", "rounding", 8LL * n, false, [&](vr::digest &d) { return vec(1, amgcl::backend::inner_product(f, y0)); }});
        items.push_back({"transfer-smoothed_aggr_emin", "rounding", 1024, false, [&](vr::digest &d) { vr::digest dd; return transfer<amgcl::coarsening::smoothed_aggr_emin>(S, dd); }, false});
        items.push_back({"amg-smoothed_aggregation-ilu0", "rounding", 1LL << 16, true, [&](vr::digest &d) { vr::digest dd; return amg_apply<amgcl::coarsening::smoothed_aggregation, amgcl::relaxation::ilu0>(S, f, dd); }});
        items.push_back({"cg-amg-solve", "rounding", 1LL << 26, true, [&](vr::digest &d) {
            typedef amgcl::make_solver<amgcl::amg<B, amgcl::coarsening::smoothed_aggregation, amgcl::relaxation::spai0>, amgcl::solver::cg<B>> SOL;
            SOL::params p; p.precond.coarse_enough = 20; p.solver.tol = 1e-10; SOL s(*S, p); vec x(n, 0.0); s(f, x); return x; }});
        items.push_back({"idrs-amg-solve", "rounding", 1LL << 28, true, [&](vr::digest &d) {
            typedef amgcl::make_solver<amgcl::amg<B, amgcl::coarsening::smoothed_aggregation, amgcl::relaxation::spai0>, amgcl::solver::idrs<B>> SOL;
            SOL::params p; p.precond.coarse_enough = 20; p.solver.tol = 1e-10; SOL s(*S, p); vec x(n, 0.0); s(f, x); return x; }});
        // tentative prolongation with a user near-null space (3 vectors): through the aggregation coarsening, and
        // called directly with hand-made aggregates of 5 / 1 / 2 points (fewer points than vectors are allowed there)
        int ng = G->nrows; std::vector<double> Bns(ng * 3); for (int i = 0; i < ng; ++i) { double x = g.unit(), y = g.unit(); Bns[3*i] = 1.0 + 0.1 * x; Bns[3*i+1] = 1.0 - 0.2 * y; Bns[3*i+2] = x - y + 0.5; }
        items.push_back({"transfer-aggregation-nullspace3", "bitwise", 0, false, [&](vr::digest &d) {
            amgcl::coarsening::aggregation<B>::params ap; ap.nullspace.cols = 3; ap.nullspace.B = Bns;
            amgcl::coarsening::aggregation<B> c(ap); auto PR = c.transfer_operators(*G); dig_crs(d, *std::get<0>(PR)); return flat(*std::get<0>(PR)); }});
        std::vector<ptrdiff_t> hand; { int a = 0; while ((int)hand.size() + 5 <= 3000) { int sz = (a % 2 == 0) ? 5 : ((a % 4 == 1) ? 1 : 2); for (int k = 0; k < sz; ++k) hand.push_back(a); ++a; } }
        int nh = hand.size(), nah = hand.back() + 1; std::vector<double> Bh(nh * 3); for (int i = 0; i < nh; ++i) { double x = g.unit(), y = g.unit(); Bh[3*i] = 1.0 + 0.1 * x; Bh[3*i+1] = 1.0 - 0.2 * y; Bh[3*i+2] = x - y + 0.5; }
        items.push_back({"tentative_prolongation-direct-nullspace3", "bitwise", 0, false, [&](vr::digest &d) {
            amgcl::coarsening::nullspace_params ns; ns.cols = 3; ns.B = Bh;
            auto P = amgcl::coarsening::tentative_prolongation<crsd>(nh, nah, hand, ns, 1); dig_crs(d, *P); return flat(*P); }});
        // few large aggregates whose members are spread over the whole index range: every thread
        // accumulates into the same coarse columns at the same time (stresses the critical section)
        auto St = two_stars(g, th ? 60000 : 30000);
        items.push_back({"transfer-smoothed_aggr_emin-stars", "rounding", 4096, false, [&](vr::digest &d) {
            amgcl::coarsening::smoothed_aggr_emin<B>::params ep; ep.aggr.eps_strong = 0;     // every connection strong: two big aggregates
            amgcl::coarsening::smoothed_aggr_emin<B> c(ep); auto PR = c.transfer_operators(*St);
            vec v = flat(*std::get<0>(PR)); vec r = flat(*std::get<1>(PR)); v.insert(v.end(), r.begin(), r.end()); return v; }, false});
        for (auto &it : items) run_item(it);
        // ---- a team smaller than omp_get_max_threads(): amgcl called from inside a caller's parallel region
        // (nesting off: the inner team has one thread while omp_get_max_threads() still says 4 / 8).  Only the
        // cross-thread REDUCTION of the vector primitives is asked for here: its per-thread partial sums must not
        // depend on every slot having been written.  (The level-scheduled sweeps distribute rows over
        // omp_get_max_threads() task lists by design and are outside this record.)
        for (int mt : {4, 8}) {
            omp_set_num_threads(1);
            double ref = amgcl::backend::inner_product(f, y0);
            omp_set_num_threads(mt);
            double top = amgcl::backend::inner_product(f, y0), nested = 0;
#pragma omp parallel num_threads(2)
            {
#pragma omp single
                { nested = amgcl::backend::inner_product(f, y0); }
            }
            omp_set_num_threads(1);
            double sc = std::fabs(ref) > 0 ? std::fabs(ref) : 1;
            auto ul = [&](double v) { double u = std::fabs(v - ref) / (sc * 2.220446049250313e-16); return (long long)(std::isfinite(u) ? std::min(1e9, u) : 1e9); };
            vr::emit(vr::obj().str("k", "team").str("name", "inner_product").i("maxthreads", mt).i("top", ul(top)).i("nested", ul(nested)).i("bound", 8LL * n).done());
        }
    }
    vr::obj o; o.str("e", "End"); vr::emit(o.done());
    return 0;
}
