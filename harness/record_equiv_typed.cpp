// C14 recorder: COMPILE-TIME compositions.  Part PART of NPARTS of the covering set of
// (solver, coarsening, relaxation) triples: make_solver<amg<B, C, R>, S<B>> with parameters
// assigned member by member (c14_equiv.hpp configure), solved on the shared problems.  The
// run-time side of the same cases is produced by record_equiv_rt; checks/C14.py joins the two
// by (triple, problem, configuration) and C14Trace compares iteration count, residual bits,
// solution digest and preconditioner action bitwise.
#include "c14_equiv.hpp"
#ifndef PART
#define PART 0
#endif
#ifndef NPARTS
#define NPARTS 1
#endif
using namespace c14e;

static std::vector<problem> problems;

template <class S, template <class> class C, template <class> class R>
void run_typed(int idx, const char *s, const char *c, const char *r, std::true_type) {
    typedef amgcl::make_solver<amgcl::amg<B, C, R>, S> Solver;
    for (int m = 0; m < (int)problems.size(); ++m) for (int cfg = 0; cfg < nconfigs(); ++cfg) {
        typename Solver::params prm; ptree t;
        configure(prm, t, cfg);
        result res = run_solver<Solver>(problems[m], prm);
        vr::obj o; o.str("k", "typed").i("idx", idx).str("s", s).str("c", c).str("r", r).i("mat", m).i("cfg", cfg);
        res.json(o, "");
        vr::emit(o.done());
    }
}
template <class S, template <class> class C, template <class> class R>
void run_typed(int, const char *, const char *, const char *, std::false_type) {}

int main() {
    vr::install_terminate();
    for (int m = 0; m < nproblems(); ++m) problems.push_back(make_problem(m));
#define C14_X(i, s, c, r) run_typed<amgcl::solver::s<B>, amgcl::coarsening::c, amgcl::relaxation::r>( \
        i, #s, #c, #r, std::integral_constant<bool, (i % NPARTS) == PART>());
    C14_TRIPLES(C14_X)
    vr::emit("{\"e\":\"End\"}");
    return 0;
}
