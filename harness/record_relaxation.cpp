// C06 recorder: every relaxation class of amgcl through its public interface
// (apply_pre / apply_post / apply and relaxation::as_preconditioner) with the builtin backend.
//   small    mask-enumerated patterns with a full diagonal (encoding of Patterns.tla, values of
//            DirectVals.tla), integer f / x, dyadic damping: results logged as fixed point
//            rint(v * 2^20) and judged by TLC against the exact rational definition (C06Trace)
//   iluk5    5x5 patterns with five off-diagonal entries through ILU(1) (the space of IlukModel)
//   random   seeded random matrices: M-matrix, dominant structurally non-symmetric, dominant with
//            symmetric pattern, complex, 2x2 / 3x3 block valued; the recorder evaluates the dense
//            definition in long double and logs the quantised error (class O)
// Every record also carries the bitwise fixed-point test (x* integer, f = A x* exact).
// The incomplete factors are read from the (private) ilu_solve object of a *serial* instance:
// this file is compiled with -fno-access-control (no /repo edit); the level-scheduled solve of a
// second, parallel instance is compared with it when >= 4 threads are available.
#include <vrec.hpp>
#include <vdense.hpp>
#include <amgcl/util.hpp>
#include <amgcl/backend/builtin.hpp>
#include <amgcl/value_type/static_matrix.hpp>
#include <amgcl/value_type/complex.hpp>
#include <amgcl/relaxation/damped_jacobi.hpp>
#include <amgcl/relaxation/gauss_seidel.hpp>
#include <amgcl/relaxation/spai0.hpp>
#include <amgcl/relaxation/spai1.hpp>
#include <amgcl/relaxation/chebyshev.hpp>
#include <amgcl/relaxation/ilu0.hpp>
#include <amgcl/relaxation/iluk.hpp>
#include <amgcl/relaxation/ilup.hpp>
#include <amgcl/relaxation/ilut.hpp>
#include <amgcl/relaxation/as_preconditioner.hpp>
#include <amgcl/adapter/crs_tuple.hpp>
#include <omp.h>
#include <functional>

using namespace amgcl;
using vr::crsd;
using vd::ld; using vd::cld; using vd::dmat; using vd::dvec; using vd::md;

static const int SH = 20;
static int nthreads() { return omp_get_max_threads(); }
static void put(vr::obj &o) { if (o.exact) vr::emit(o.done()); else { vr::obj x; x.str("e", "Inexact"); vr::emit(x.done()); } }
static std::string J(const crsd &A, vr::obj &o) { bool ex = true; std::string s = vr::crs_json(A, ex, 0); if (!ex) o.exact = false; return s; }

// ---------------------------------------------------------------- typed helpers
template <class V> struct T {
    typedef backend::builtin<V> Bk;
    typedef typename Bk::matrix M;
    typedef typename vd::vt<V>::rhs rhs;
    typedef backend::numa_vector<rhs> vec;
    static const int B = vd::vt<V>::B;
};
template <class V> std::shared_ptr<typename T<V>::vec> mkvec(const dvec &d) {
    const int B = T<V>::B; size_t n = d.size() / B;
    auto v = std::make_shared<typename T<V>::vec>(n);
    for (size_t i = 0; i < n; ++i) for (int r = 0; r < B; ++r) vd::vt<V>::rset((*v)[i], r, d[i * B + r]);
    return v;
}
template <class V> dvec undense(const typename T<V>::vec &v) { return vd::dense_vec<V>(v, v.size()); }
template <class V> bool bitwise_same(const typename T<V>::vec &a, const typename T<V>::vec &b) {
    return a.size() == b.size() && std::memcmp(&a[0], &b[0], sizeof(typename T<V>::rhs) * a.size()) == 0;
}
// integer-valued (Gaussian integer) vector, imaginary parts only for complex value types
template <class V> dvec int_vec(vr::rng &g, size_t n, int vmax) {
    dvec d(n * T<V>::B);
    for (auto &z : d) z = cld(g.range(-vmax, vmax), std::is_same<V, std::complex<double>>::value ? g.range(-vmax, vmax) : 0);
    return d;
}

// three public entry points of a smoother + as_preconditioner
template <class V> struct sweeps { dvec pre, post, app, aspre, asu; ld e_aspre; bool finite; bool asu_exc = false; std::string asu_what; };
template <class V, class R>
sweeps<V> run_sweeps(const R &S, const typename T<V>::M &A, const dvec &f, const dvec &x0) {
    typedef typename T<V>::vec vec;
    size_t n = A.nrows; sweeps<V> o;
    auto F = mkvec<V>(f);
    dvec junk(f.size(), cld(7, 3));
    { auto X = mkvec<V>(x0); vec tmp(n); S.apply_pre(A, *F, *X, tmp); o.pre = undense<V>(*X); }
    { auto X = mkvec<V>(x0); vec tmp(n); S.apply_post(A, *F, *X, tmp); o.post = undense<V>(*X); }
    { auto X = mkvec<V>(junk); S.apply(A, *F, *X); o.app = undense<V>(*X); }
    o.finite = vd::all_finite(o.pre) && vd::all_finite(o.post) && vd::all_finite(o.app);
    return o;
}
template <class V, template <class> class Relax, class P>
void run_aspre(sweeps<V> &o, const typename T<V>::M &A, const P &prm, const dvec &f) {
    typedef relaxation::as_preconditioner<typename T<V>::Bk, Relax> AP;
    AP ap(A, prm);
    auto F = mkvec<V>(f); dvec junk(f.size(), cld(-5, 2)); auto X = mkvec<V>(junk);
    ap.apply(*F, *X);
    o.aspre = undense<V>(*X);
    // a second smoother object built from a copy of the matrix: the same operator (to rounding: the
    // power-method bound of chebyshev sums its start vector in thread-arrival order)
    o.e_aspre = vd::all_finite(o.aspre) ? vd::rel_diff(o.aspre, o.app) : 1e30L;
    // the same matrix handed over as a generic (tuple) matrix whose CRS rows are NOT sorted by column - the order
    // inside a row is not part of the matrix: row i % 3 = 0 diagonal first, 1 descending, 2 rotated by one
    {
        size_t n = A.nrows; std::vector<ptrdiff_t> ptr(A.ptr, A.ptr + n + 1), col(A.ptr[n]); std::vector<V> val(A.ptr[n]);
        for (size_t i = 0; i < n; ++i) {
            ptrdiff_t b = A.ptr[i], e = A.ptr[i + 1], w = e - b; std::vector<ptrdiff_t> ord(w);
            for (ptrdiff_t k = 0; k < w; ++k) ord[k] = (i % 3 == 1) ? b + w - 1 - k : (i % 3 == 2) ? b + (k + 1) % w : b + k;
            if (i % 3 == 0) for (ptrdiff_t k = 0; k < w; ++k) if (A.col[ord[k]] == (ptrdiff_t)i) { std::swap(ord[0], ord[k]); break; }
            for (ptrdiff_t k = 0; k < w; ++k) { col[b + k] = A.col[ord[k]]; val[b + k] = A.val[ord[k]]; }
        }
        o.asu.assign(f.size(), cld(0, 0));
        try {
            AP apu(std::tie(n, ptr, col, val), prm);
            dvec junk2(f.size(), cld(3, -4)); auto Xu = mkvec<V>(junk2);
            apu.apply(*F, *Xu);
            o.asu = undense<V>(*Xu);
        } catch (const std::exception &ex) { o.asu_exc = true; o.asu_what = ex.what(); }
    }
}
template <class V> static ld asu_err(const sweeps<V> &s, const dvec &want, ld m) {
    if (s.asu_exc || !vd::all_finite(s.asu)) return 1e30L;
    return vd::nrm_inf(vd::sub(s.asu, want)) / std::max(std::max((ld)1, vd::nrm_inf(want)), m);
}
// bitwise fixed point: f = A xs evaluated exactly (integers), one pre and one post sweep from xs
template <class V, class R> int fixed_point(const R &S, const typename T<V>::M &A, const dvec &xs, dvec &outpre, dvec &outpost, ld &err) {
    typedef typename T<V>::vec vec;
    dmat D = vd::dense_of(A); dvec f = vd::mul(D, xs);
    auto F = mkvec<V>(f); auto X0 = mkvec<V>(xs);
    int bad = 0; err = 0;
    { auto X = mkvec<V>(xs); vec tmp(A.nrows); S.apply_pre(A, *F, *X, tmp); if (!bitwise_same<V>(*X, *X0)) ++bad; outpre = undense<V>(*X); err = std::max(err, vd::rel_diff(outpre, xs)); if (!vd::all_finite(outpre)) err = 1e30L; }
    { auto X = mkvec<V>(xs); vec tmp(A.nrows); S.apply_post(A, *F, *X, tmp); if (!bitwise_same<V>(*X, *X0)) ++bad; outpost = undense<V>(*X); err = std::max(err, vd::rel_diff(outpost, xs)); if (!vd::all_finite(outpost)) err = 1e30L; }
    return bad;
}

// ---------------------------------------------------------------- dense definitions (long double)
static dmat block_of(const dmat &D, int B, int i, int j) { dmat X(B, B); for (int r = 0; r < B; ++r) for (int c = 0; c < B; ++c) X(r, c) = D(i * B + r, j * B + c); return X; }
static void set_block(dmat &D, int B, int i, int j, const dmat &X) { for (int r = 0; r < B; ++r) for (int c = 0; c < B; ++c) D(i * B + r, j * B + c) = X(r, c); }
// the part of D selected by keep(block row, block col)
static dmat part(const dmat &D, int B, std::function<bool(int,int)> keep) {
    dmat X(D.n, D.m); int nb = D.n / B;
    for (int i = 0; i < nb; ++i) for (int j = 0; j < nb; ++j) if (keep(i, j)) set_block(X, B, i, j, block_of(D, B, i, j));
    return X;
}
// x + s * M^-1 (f - A x)
static dvec split_sweep(const dmat &A, const dmat &M, cld s, const dvec &f, const dvec &x) {
    bool ok; dvec r = vd::sub(f, vd::mul(A, x)); dvec t = vd::solve(M, r, ok);
    return vd::add(x, vd::scal(s, t));
}
static ld gersh_norm(const dmat &D, int B, bool scale) {       // spectral_radius<scale>(A, 0) with Frobenius block norms
    int nb = D.n / B; ld hi = 0;
    for (int i = 0; i < nb; ++i) {
        ld s = 0; for (int j = 0; j < nb; ++j) { ld q = vd::fro(block_of(D, B, i, j)); s += q; }
        if (scale) { bool ok; s *= vd::fro(vd::inverse(block_of(D, B, i, i), ok)); }
        hi = std::max(hi, s);
    }
    return hi;
}

// ---------------------------------------------------------------- record assembly
struct rec {
    vr::obj o; bool big = false;
    rec(const char *kind, const char *tag, const char *vtag, bool rat, bool serial) {
        o.str("k", "relax").str("kind", kind).str("tag", tag).str("vtag", vtag).b("rat", rat).b("serial", serial).i("nt", nthreads()).i("sh", SH);
    }
    void vecs(const char *name, const dvec &v, bool rat) {      // real parts as fixed point (rat records are real)
        if (!rat) { o.raw(name, "[]"); return; }
        std::vector<double> r(v.size()); for (size_t i = 0; i < v.size(); ++i) r[i] = (double)v[i].real();
        o.raw(name, vd::fix_list(r, SH, big));
    }
    void ints(const char *name, const dvec &v) { std::vector<double> r(v.size()); for (size_t i = 0; i < v.size(); ++i) r[i] = (double)v[i].real(); o.dbls(name, r); }
};
template <class M> static std::string fix_crs(const M &A, bool &big) {     // real scalar CRS with fixed-point values
    vr::obj o; o.i("n", A.nrows).i("m", A.ncols).ints("ptr", A.ptr, A.ptr + A.nrows + 1);
    size_t nnz = A.ptr[A.nrows]; o.ints("col", A.col, A.col + nnz);
    std::vector<double> v(nnz); for (size_t k = 0; k < nnz; ++k) v[k] = vd::vt<typename backend::value_type<M>::type>::get(A.val[k], 0, 0).real();
    o.raw("val", vd::fix_list(v, SH, big));
    return o.done();
}

struct caseinfo { const char *tag; bool rat; const crsd *Aint; double wn, wd; };   // damping = wn / wd

template <class V> static void common_fields(rec &R, const caseinfo &ci, const dvec &f, const dvec &x, const dvec &xs) {
    R.o.d("wn", ci.wn).d("wd", ci.wd);
    if (ci.rat) { R.o.raw("A", J(*ci.Aint, R.o)); R.ints("f", f); R.ints("x", x); R.ints("xs", xs); }
    else { R.o.raw("A", "{}").raw("f", "[]").raw("x", "[]").raw("xs", "[]"); }
}
// mag: magnitude of the terms that are summed to form the result (default 0: the result itself). A rank deficient
// SPAI-1 row has entries of size 1/eps; x + M r is then accurate relative to |M| |r|, not to the (cancelled) result.
template <class V> static void sweep_fields(rec &R, const caseinfo &ci, const sweeps<V> &s, const dvec &dpre, const dvec &dpost, const dvec &dapp, ld mag = 0, ld magapp = 0) {
    R.vecs("pre", s.pre, ci.rat); R.vecs("post", s.post, ci.rat); R.vecs("app", s.app, ci.rat);
    R.o.b("finite", s.finite).i("e_aspre", md(s.e_aspre));
    auto rd = [](const dvec &got, const dvec &want, ld m) { return vd::nrm_inf(vd::sub(got, want)) / std::max(std::max((ld)1, vd::nrm_inf(want)), m); };
    R.o.i("e_pre", md(rd(s.pre, dpre, mag))).i("e_post", md(rd(s.post, dpost, mag))).i("e_app", md(rd(s.app, dapp, magapp)));
    // as_preconditioner on the unsorted copy: against the definition (which does not know about storage order)
    R.vecs("asu", s.asu, ci.rat); R.o.i("e_asu", md(asu_err<V>(s, dapp, magapp))).b("asu_exc", s.asu_exc);
}
template <class V, class Rx> static void fix_fields(rec &R, const Rx &S, const typename T<V>::M &A, const dvec &xs, bool expect_bitwise) {
    dvec fp, fq; ld err; int bad = fixed_point<V>(S, A, xs, fp, fq, err);
    R.o.b("fpx", expect_bitwise).i("fixbits", bad).i("e_fix", md(err));
}

// ---------------------------------------------------------------- the nine classes
template <class V> static void c_jacobi(const typename T<V>::M &A, const caseinfo &ci, const dvec &f, const dvec &x, const dvec &xs) {
    typedef relaxation::damped_jacobi<typename T<V>::Bk> Rx; const int B = T<V>::B;
    typename Rx::params prm; prm.damping = ci.wn / ci.wd;
    Rx S(A, prm, typename T<V>::Bk::params());
    auto s = run_sweeps<V>(S, A, f, x); run_aspre<V, relaxation::damped_jacobi>(s, A, prm, f);
    dmat D = vd::dense_of(A), Dg = part(D, B, [](int i, int j) { return i == j; });
    rec R("jacobi", ci.tag, vd::vt<V>::name(), ci.rat, true); common_fields<V>(R, ci, f, x, xs);
    dvec dp = split_sweep(D, Dg, cld(prm.damping, 0), f, x);
    bool ok; dvec da = vd::solve(Dg, f, ok);                       // apply(): D^-1 f, no damping
    sweep_fields<V>(R, ci, s, dp, dp, da);
    fix_fields<V>(R, S, A, xs, true);
    R.o.b("big", R.big); put(R.o);
}
static bool sym_pattern(const crsd &P) {
    for (size_t i = 0; i < P.nrows; ++i) for (ptrdiff_t p = P.ptr[i]; p < P.ptr[i+1]; ++p) {
        ptrdiff_t c = P.col[p]; bool found = false; for (ptrdiff_t q = P.ptr[c]; q < P.ptr[c+1]; ++q) if (P.col[q] == (ptrdiff_t)i) found = true;
        if (!found) return false; }
    return true;
}
template <class V> static void c_gs(const typename T<V>::M &A, const caseinfo &ci, const dvec &f, const dvec &x, const dvec &xs, bool serial, bool p2diag) {
    typedef relaxation::gauss_seidel<typename T<V>::Bk> Rx; const int B = T<V>::B;
    typename Rx::params prm; prm.serial = serial;
    Rx S(A, prm, typename T<V>::Bk::params());
    auto s = run_sweeps<V>(S, A, f, x); run_aspre<V, relaxation::gauss_seidel>(s, A, prm, f);
    dmat D = vd::dense_of(A);
    dmat Lo = part(D, B, [](int i, int j) { return j <= i; }), Up = part(D, B, [](int i, int j) { return j >= i; });
    rec R("gs", ci.tag, vd::vt<V>::name(), ci.rat, S.is_serial); common_fields<V>(R, ci, f, x, xs);
    dvec zero(f.size(), cld(0, 0));
    dvec dpre = split_sweep(D, Lo, 1, f, x), dpost = split_sweep(D, Up, 1, f, x), dapp = split_sweep(D, Up, 1, f, split_sweep(D, Lo, 1, f, zero));
    sweep_fields<V>(R, ci, s, dpre, dpost, dapp);
    fix_fields<V>(R, S, A, xs, p2diag);
    R.o.b("big", R.big); put(R.o);
}
template <class V> static void c_spai0(const typename T<V>::M &A, const caseinfo &ci, const dvec &f, const dvec &x, const dvec &xs) {
    typedef relaxation::spai0<typename T<V>::Bk> Rx; const int B = T<V>::B;
    Rx S(A, typename Rx::params(), typename T<V>::Bk::params());
    auto s = run_sweeps<V>(S, A, f, x); run_aspre<V, relaxation::spai0>(s, A, typename Rx::params(), f);
    dmat D = vd::dense_of(A); int nb = A.nrows;
    // the recorded M (public member) as a dense block diagonal matrix
    dmat Md(D.n, D.n); for (int i = 0; i < nb; ++i) for (int r = 0; r < B; ++r) for (int c = 0; c < B; ++c) Md(i * B + r, i * B + c) = vd::vt<V>::get((*S.M)[i], r, c);
    dvec r0 = vd::sub(f, vd::mul(D, x));
    dvec dp = vd::add(x, vd::mul(Md, r0)), da = vd::mul(Md, f);
    // minimiser of |1 - m a_ii|^2 + sum_{j != i} |m a_ij|^2  (scalar value types):  m sum_j |a_ij|^2 = conj(a_ii)
    ld edef = 0;
    if (B == 1) for (int i = 0; i < nb; ++i) { ld den = 0; for (int j = 0; j < nb; ++j) den += std::norm(D(i, j)); edef = std::max(edef, std::abs(Md(i, i) * cld(den, 0) - std::conj(D(i, i))) / std::abs(D(i, i))); }
    rec R("spai0", ci.tag, vd::vt<V>::name(), ci.rat, true); common_fields<V>(R, ci, f, x, xs);
    sweep_fields<V>(R, ci, s, dp, dp, da);
    { dvec m(nb); for (int i = 0; i < nb; ++i) m[i] = Md(i * B, i * B); R.vecs("M", m, ci.rat); }
    R.o.i("e_def", B == 1 ? md(edef) : -30000);
    fix_fields<V>(R, S, A, xs, true);
    R.o.b("big", R.big); put(R.o);
}
template <class V> static void c_spai1(const typename T<V>::M &A, const caseinfo &ci, const dvec &f, const dvec &x, const dvec &xs) {
    typedef relaxation::spai1<typename T<V>::Bk> Rx;
    Rx S(A, typename Rx::params(), typename T<V>::Bk::params());
    auto s = run_sweeps<V>(S, A, f, x); run_aspre<V, relaxation::spai1>(s, A, typename Rx::params(), f);
    dmat D = vd::dense_of(A), Md = vd::dense_of(*S.M); int n = A.nrows;
    bool samepat = S.M->nrows == A.nrows && std::equal(A.ptr, A.ptr + n + 1, S.M->ptr) && std::equal(A.col, A.col + A.ptr[n], S.M->col);
    dvec r0 = vd::sub(f, vd::mul(D, x));
    dvec dp = vd::add(x, vd::mul(Md, r0)), da = vd::mul(Md, f);
    // optimality: (m_i^T A - e_i^T) A(c,:)^H = 0 for every column c of row i's pattern; rank deficient rows excluded
    ld edef = 0; bool rankdef = false;
    dmat Rm = vd::subm(vd::mul(Md, D), vd::ident(n)); dmat G = vd::mul(Rm, vd::adjoint(D));
    for (int i = 0; i < n; ++i) {
        int ni = A.ptr[i+1] - A.ptr[i]; dmat Gi(ni, ni);
        for (int a = 0; a < ni; ++a) for (int b = 0; b < ni; ++b) { cld z = 0; for (int j = 0; j < n; ++j) z += D(A.col[A.ptr[i] + a], j) * std::conj(D(A.col[A.ptr[i] + b], j)); Gi(a, b) = z; }
        bool ok; dmat Gin = vd::inverse(Gi, ok); if (!ok || vd::max_abs(Gin) * vd::max_abs(Gi) > 1e8L) { rankdef = true; continue; }
        ld sc = 0; for (int j = 0; j < n; ++j) sc += std::norm(D(i, j)); sc = std::max((ld)1, vd::max_abs(D) * vd::max_abs(D));
        for (ptrdiff_t p = A.ptr[i]; p < A.ptr[i+1]; ++p) edef = std::max(edef, std::abs(G(i, A.col[p])) / sc);
    }
    rec R("spai1", ci.tag, vd::vt<V>::name(), ci.rat, true); common_fields<V>(R, ci, f, x, xs);
    sweep_fields<V>(R, ci, s, dp, dp, da, vd::max_abs(Md) * vd::nrm_inf(r0) * n, vd::max_abs(Md) * vd::nrm_inf(f) * n);
    { dvec m(A.ptr[n]); for (ptrdiff_t p = 0; p < A.ptr[n]; ++p) m[p] = vd::vt<V>::get(S.M->val[p], 0, 0); R.vecs("M", m, ci.rat && samepat); }
    R.o.b("samepat", samepat).b("rankdef", rankdef).i("e_def", md(edef));
    fix_fields<V>(R, S, A, xs, true);
    R.o.b("big", R.big); put(R.o);
}
struct chebprm { int degree; double lown, lowd, highn, highd; bool scale; int power_iters; };
template <class V> static void c_cheb(const typename T<V>::M &A, const caseinfo &ci, const dvec &f, const dvec &x, const dvec &xs, const chebprm &cp) {
    typedef relaxation::chebyshev<typename T<V>::Bk> Rx; const int B = T<V>::B;
    typename Rx::params prm; prm.degree = cp.degree; prm.lower = (float)(cp.lown / cp.lowd); prm.higher = (float)(cp.highn / cp.highd); prm.scale = cp.scale; prm.power_iters = cp.power_iters;
    Rx S(A, prm, typename T<V>::Bk::params());
    auto s = run_sweeps<V>(S, A, f, x); run_aspre<V, relaxation::chebyshev>(s, A, prm, f);
    dmat D = vd::dense_of(A); int N = D.n, nb = A.nrows;
    ld d = S.d, c = S.c;
    dmat Bm = D;
    if (cp.scale) { dmat Dg = part(D, B, [](int i, int j) { return i == j; }); bool ok; Bm = vd::mul(vd::inverse(Dg, ok), D); }
    // polynomial definition on the (scaled) residual:  r_k = T_k(Z) r_0 / T_k(d/c),  Z = (d I - B)/c;  c = 0: (I - B/d)^k
    auto resid = [&](const dvec &xx) { dvec r = vd::sub(f, vd::mul(D, xx)); if (cp.scale) { dmat Dg = part(D, B, [](int i, int j) { return i == j; }); bool ok; r = vd::solve(Dg, r, ok); } return r; };
    auto poly = [&](const dvec &r0) {
        dvec vm = r0, v = r0; ld tm = 1, t = 1;
        for (int k = 1; k <= cp.degree; ++k) {
            if (c == 0) { v = vd::sub(v, vd::scal(cld(1 / d, 0), vd::mul(Bm, v))); continue; }
            dvec zv = vd::scal(cld(1 / c, 0), vd::sub(vd::scal(cld(d, 0), v), vd::mul(Bm, v)));
            dvec nv = (k == 1) ? zv : vd::sub(vd::scal(2, zv), vm); ld nt = (k == 1) ? d / c : 2 * (d / c) * t - tm;
            vm = v; v = nv; tm = t; t = nt;
        }
        return vd::scal(cld(1 / t, 0), v);
    };
    dvec zero(f.size(), cld(0, 0));
    // error of the residual polynomial relative to the larger of input and output residual (an under-estimated
    // power-method bound makes p_k amplify the part of the spectrum above hi: the output can be large)
    auto perr = [&](const dvec &got, const dvec &r0) { dvec want = poly(r0); dvec rg = resid(got);
        return vd::nrm_inf(vd::sub(rg, want)) / std::max((ld)1, std::max(vd::nrm_inf(r0), vd::nrm_inf(want))); };
    ld e1 = vd::all_finite(s.pre) ? perr(s.pre, resid(x)) : 1e30L, e2 = vd::all_finite(s.post) ? perr(s.post, resid(x)) : 1e30L;
    ld e3 = vd::all_finite(s.app) ? perr(s.app, resid(zero)) : 1e30L;
    // bounds: Gershgorin (power_iters = 0): hi = g * higher, lo = g * lower
    ld ebnd = 0;
    if (cp.power_iters == 0) { ld g = gersh_norm(D, B, cp.scale); ld lo = g * (ld)prm.lower, hi = g * (ld)prm.higher; ebnd = std::max(std::abs(d - (hi + lo) / 2), std::abs(c - (hi - lo) / 2)) / std::max((ld)1, hi); }
    else { ebnd = (d + c > 0 && std::abs((d - c) - (d + c) / (ld)prm.higher * (ld)prm.lower) <= 1e-12L * (d + c)) ? 0 : 1; }   // lo = rho * lower, hi = rho * higher
    rec R("cheb", ci.tag, vd::vt<V>::name(), ci.rat && cp.power_iters == 0, true); common_fields<V>(R, ci, f, x, xs);
    R.o.i("deg", cp.degree).d("lown", cp.lown).d("lowd", cp.lowd).d("highn", cp.highn).d("highd", cp.highd).b("scale", cp.scale).i("piters", cp.power_iters);
    // x-space references are not needed: the three sweeps are judged through their residual polynomial
    R.vecs("pre", s.pre, ci.rat); R.vecs("post", s.post, ci.rat); R.vecs("app", s.app, ci.rat);
    R.o.b("finite", s.finite).i("e_aspre", md(s.e_aspre)).i("e_pre", md(e1)).i("e_post", md(e2)).i("e_app", md(e3)).i("e_def", md(ebnd));
    R.vecs("asu", s.asu, ci.rat); R.o.i("e_asu", md((s.asu_exc || !vd::all_finite(s.asu)) ? (ld)1e30L : perr(s.asu, resid(zero)))).b("asu_exc", s.asu_exc);
    { std::vector<double> dc(2); dc[0] = (double)d; dc[1] = (double)c; if (ci.rat) R.o.raw("dc", vd::fix_list(dc, SH, R.big)); else R.o.raw("dc", "[]"); }
    fix_fields<V>(R, S, A, xs, true);
    R.o.b("big", R.big); put(R.o);
}

// ---- incomplete factorisations
typedef std::vector<std::vector<char>> bpat;
template <class M> static bpat pattern_of(const M &A) { bpat P(A.nrows, std::vector<char>(A.nrows, 0)); for (size_t i = 0; i < A.nrows; ++i) for (ptrdiff_t p = A.ptr[i]; p < A.ptr[i+1]; ++p) P[i][A.col[p]] = 1; return P; }
// level of fill <= k with the rule of iluk.hpp (max + 1), Gaussian elimination order, entries above k never exist
static bpat level_pattern(const bpat &P, int k) {
    int n = P.size(); const int INF = 1 << 28; std::vector<std::vector<int>> L(n, std::vector<int>(n, INF));
    for (int i = 0; i < n; ++i) for (int j = 0; j < n; ++j) if (P[i][j]) L[i][j] = 0;
    for (int c = 0; c < n; ++c) for (int i = c + 1; i < n; ++i) if (L[i][c] <= k) for (int j = c + 1; j < n; ++j) if (L[c][j] <= k) {
        int lev = std::max(L[i][c], L[c][j]) + 1; if (lev <= k && lev < L[i][j]) L[i][j] = lev; }
    bpat S(n, std::vector<char>(n, 0)); for (int i = 0; i < n; ++i) for (int j = 0; j < n; ++j) S[i][j] = L[i][j] <= k;
    return S;
}
static bpat power_pattern(const bpat &P, int k) {           // pattern of A^(k+1)
    int n = P.size(); bpat C = P;
    for (int s = 0; s < k; ++s) { bpat Nx(n, std::vector<char>(n, 0)); for (int i = 0; i < n; ++i) for (int c = 0; c < n; ++c) if (C[i][c]) for (int j = 0; j < n; ++j) if (P[c][j]) Nx[i][j] = 1; C = Nx; }
    return C;
}
static bool subset(const bpat &X, const bpat &Y) { for (size_t i = 0; i < X.size(); ++i) for (size_t j = 0; j < X.size(); ++j) if (X[i][j] && !Y[i][j]) return false; return true; }

static bool ilut_nodrop(const bpat &PA, const bpat &full) {
    int nb = PA.size();
    for (int i = 0; i < nb; ++i) {
        int aL = 0, aU = 0, fL = 0, fU = 0;
        for (int j = 0; j < nb; ++j) { if (j < i) { aL += PA[i][j]; fL += full[i][j]; } if (j > i) { aU += PA[i][j]; fU += full[i][j]; } }
        if ((fL > 0 && aL == 0) || (fU > 0 && aU == 0)) return false;
    }
    return true;
}
template <class V, class S> static void read_factors(const S &ilu, int nb, dmat &Ld, dmat &Ud, bpat &stored) {
    const int B = T<V>::B; Ld = vd::ident(nb * B); Ud = dmat(nb * B, nb * B); stored = bpat(nb, std::vector<char>(nb, 0));
    const auto &L = *ilu.L; const auto &U = *ilu.U; const auto &D = *ilu.D;
    for (int i = 0; i < nb; ++i) {
        stored[i][i] = 1;
        for (ptrdiff_t p = L.ptr[i]; p < L.ptr[i+1]; ++p) { stored[i][L.col[p]] = 1; for (int r = 0; r < B; ++r) for (int c = 0; c < B; ++c) Ld(i * B + r, L.col[p] * B + c) = vd::vt<V>::get(L.val[p], r, c); }
        for (ptrdiff_t p = U.ptr[i]; p < U.ptr[i+1]; ++p) { stored[i][U.col[p]] = 1; for (int r = 0; r < B; ++r) for (int c = 0; c < B; ++c) Ud(i * B + r, U.col[p] * B + c) = vd::vt<V>::get(U.val[p], r, c); }
        dmat Di(B, B); for (int r = 0; r < B; ++r) for (int c = 0; c < B; ++c) Di(r, c) = vd::vt<V>::get(D[i], r, c);
        bool ok; set_block(Ud, B, i, i, vd::inverse(Di, ok));
    }
}
// kind: 0 ilu0, 1 iluk, 2 ilup, 3 ilut(no drop), 4 ilut(default dropping: fixed point only)
template <class V, class Rx, template <class> class RelaxT, class GetIlu>
static void ilu_case(const char *kind, int kcode, int kk, typename Rx::params prm, GetIlu get_ilu,
                     const typename T<V>::M &A, const caseinfo &ci, const dvec &f, const dvec &x, const dvec &xs) {
    const int B = T<V>::B; int nb = A.nrows;
    prm.damping = ci.wn / ci.wd;
    typename Rx::params sprm = prm; sprm.solve.serial = true;
    rec R(kind, ci.tag, vd::vt<V>::name(), ci.rat, true); common_fields<V>(R, ci, f, x, xs); R.o.i("kk", kk);
    try {
        Rx S(A, sprm, typename T<V>::Bk::params());
        auto s = run_sweeps<V>(S, A, f, x); run_aspre<V, RelaxT>(s, A, sprm, f);
        dmat D = vd::dense_of(A), Ld, Ud; bpat stored;
        read_factors<V>(*get_ilu(S), nb, Ld, Ud, stored);
        dmat P = vd::mul(Ld, Ud);
        bpat PA = pattern_of(A), full = level_pattern(PA, nb + 1);
        bpat Sadm = kcode == 0 ? PA : kcode == 1 ? level_pattern(PA, kk) : kcode == 2 ? power_pattern(PA, kk) : full;
        ld scale = std::max((ld)1, vd::max_abs(D)), edef = 0, efit = -1;
        if (kcode != 4 && !(kcode == 3 && !ilut_nodrop(PA, full))) for (int i = 0; i < nb; ++i) for (int j = 0; j < nb; ++j) if (Sadm[i][j]) edef = vd::amax(edef, vd::max_abs(vd::subm(block_of(P, B, i, j), block_of(D, B, i, j))) / scale);
        // ilut keeps at most floor(p * lenL) / floor(p * lenU) entries per row part, lenL / lenU counted on A's row:
        // with p > n and tau = 0 nothing is dropped exactly when fill only appears in row parts that A already occupies
        bool nodrop = kcode != 3 || ilut_nodrop(PA, full);
        if (!nodrop) Sadm = stored;
        bool fits = kcode != 4 && nodrop && subset(full, Sadm);
        bool ok; dvec exact = vd::solve(D, f, ok);
        if (fits) efit = std::max(vd::max_abs(vd::subm(P, D)) / scale, vd::rel_diff(s.app, exact));
        dvec dp = split_sweep(D, P, cld(prm.damping, 0), f, x), da = vd::solve(P, f, ok);
        sweep_fields<V>(R, ci, s, dp, dp, da);
        R.o.i("exc", 0).b("patok", kcode == 4 || subset(stored, Sadm)).b("nodrop", nodrop).b("fits", fits).i("e_def", md(edef)).i("e_fit", fits ? md(efit) : -30000);
        // level-scheduled solve of a second instance against the serial one
        ld epar = 0; bool par = false;
        if (nthreads() >= 4) {
            typename Rx::params pprm = prm; pprm.solve.serial = false;
            Rx Sp(A, pprm, typename T<V>::Bk::params());
            auto sp = run_sweeps<V>(Sp, A, f, x); par = true;
            epar = std::max(vd::rel_diff(sp.pre, s.pre), std::max(vd::rel_diff(sp.post, s.post), vd::rel_diff(sp.app, s.app)));
            if (!sp.finite) epar = 1e30L;
        }
        R.o.b("par", par).i("e_par", md(epar));
        if (ci.rat) {
            auto ilu = get_ilu(S);
            R.o.raw("L", fix_crs(*ilu->L, R.big)).raw("U", fix_crs(*ilu->U, R.big));
            dvec dd(nb); for (int i = 0; i < nb; ++i) dd[i] = vd::vt<V>::get((*ilu->D)[i], 0, 0); R.vecs("D", dd, true);
        } else R.o.raw("L", "{}").raw("U", "{}").raw("D", "[]");
        fix_fields<V>(R, S, A, xs, true);
    } catch (const std::exception &e) {
        R.o.i("exc", 1).str("what", e.what());
    }
    R.o.b("big", R.big); put(R.o);
}
template <class V> static void c_ilu0(const typename T<V>::M &A, const caseinfo &ci, const dvec &f, const dvec &x, const dvec &xs) {
    typedef relaxation::ilu0<typename T<V>::Bk> Rx; typename Rx::params prm;
    ilu_case<V, Rx, relaxation::ilu0>("ilu0", 0, 0, prm, [](const Rx &S) { return S.ilu; }, A, ci, f, x, xs);
}
template <class V> static void c_iluk(const typename T<V>::M &A, const caseinfo &ci, const dvec &f, const dvec &x, const dvec &xs, int k) {
    typedef relaxation::iluk<typename T<V>::Bk> Rx; typename Rx::params prm; prm.k = k;
    ilu_case<V, Rx, relaxation::iluk>("iluk", 1, k, prm, [](const Rx &S) { return S.ilu; }, A, ci, f, x, xs);
}
template <class V> static void c_ilup(const typename T<V>::M &A, const caseinfo &ci, const dvec &f, const dvec &x, const dvec &xs, int k) {
    typedef relaxation::ilup<typename T<V>::Bk> Rx; typename Rx::params prm; prm.k = k;
    ilu_case<V, Rx, relaxation::ilup>("ilup", 2, k, prm, [](const Rx &S) { return S.base->ilu; }, A, ci, f, x, xs);
}
template <class V> static void c_ilut(const typename T<V>::M &A, const caseinfo &ci, const dvec &f, const dvec &x, const dvec &xs, bool nodrop) {
    typedef relaxation::ilut<typename T<V>::Bk> Rx; typename Rx::params prm;
    if (nodrop) { prm.p = (double)A.nrows + 1; prm.tau = 0; }
    ilu_case<V, Rx, relaxation::ilut>(nodrop ? "ilut" : "ilutdrop", nodrop ? 3 : 4, 0, prm, [](const Rx &S) { return S.ilu; }, A, ci, f, x, xs);
}

// ---------------------------------------------------------------- modes
template <class V> static void all_classes(const typename T<V>::M &A, const crsd &pattern, const caseinfo &ci, const dvec &f, const dvec &x, const dvec &xs,
                                           bool dominant, bool p2diag, bool th, vr::rng *g) {
    c_jacobi<V>(A, ci, f, x, xs);
    c_gs<V>(A, ci, f, x, xs, true, p2diag);
    // the level-scheduled sweep (>= 4 threads and serial = false); since the anti-dependence repair of
    // gauss_seidel.hpp (DESIGN 6.1, owned by C09) also on structurally non-symmetric patterns
    if (nthreads() >= 4) c_gs<V>(A, ci, f, x, xs, false, p2diag);
    c_spai0<V>(A, ci, f, x, xs);
    if constexpr (T<V>::B == 1) c_spai1<V>(A, ci, f, x, xs);
    if (!dominant) return;
    if (ci.rat) {
        // parameter sets that exact 32-bit rationals can follow (see RelaxModel.ChebInv)
        c_cheb<V>(A, ci, f, x, xs, chebprm{1, 1, 2, 1, 1, false, 0}); c_cheb<V>(A, ci, f, x, xs, chebprm{2, 1, 2, 1, 1, false, 0});
        c_cheb<V>(A, ci, f, x, xs, chebprm{3, 0, 1, 1, 1, false, 0}); c_cheb<V>(A, ci, f, x, xs, chebprm{3, 1, 1, 1, 1, false, 0});
        if (p2diag) { c_cheb<V>(A, ci, f, x, xs, chebprm{2, 1, 2, 1, 1, true, 0}); c_cheb<V>(A, ci, f, x, xs, chebprm{3, 0, 1, 1, 1, true, 0}); }
    } else {
        c_cheb<V>(A, ci, f, x, xs, chebprm{5, 1, 30, 1, 1, false, 0});                       // defaults
        c_cheb<V>(A, ci, f, x, xs, chebprm{g->range(1, 6), 1, (double)g->range(2, 40), (double)g->range(4, 6), 4, g->coin(), 0});
        c_cheb<V>(A, ci, f, x, xs, chebprm{g->range(1, 4), 1, 8, 1, 1, g->coin(), g->range(1, 8)});   // power-method bound
    }
    c_ilu0<V>(A, ci, f, x, xs);
    c_iluk<V>(A, ci, f, x, xs, 1); c_iluk<V>(A, ci, f, x, xs, 2); c_iluk<V>(A, ci, f, x, xs, (int)A.nrows);
    c_ilup<V>(A, ci, f, x, xs, 1); c_ilup<V>(A, ci, f, x, xs, 2);
    if (!ci.rat) { c_iluk<V>(A, ci, f, x, xs, 0); c_ilup<V>(A, ci, f, x, xs, 0); c_iluk<V>(A, ci, f, x, xs, 3); }
    c_ilut<V>(A, ci, f, x, xs, true);
    if (!ci.rat) c_ilut<V>(A, ci, f, x, xs, false);
}

static void mode_small(bool th) {
    for (int n = 1; n <= 4; ++n) {
        unsigned long nm = 1ul << (n * n), cnt = 0, step = (n == 4) ? (th ? 4 : 32) : 1;
        for (unsigned long mask = 0; mask < nm; ++mask) {
            if (!vd::has_diag(n, mask)) continue;
            if ((cnt++) % step) continue;
            const int schemes[3] = {vd::P2, vd::DOM, vd::RAW};
            for (int sch : schemes) {
                auto A = vd::mk_matrix(n, mask, 0, sch);
                caseinfo ci{vd::scheme_name(sch), true, A.get(), 3, 4};
                dvec f(n), x(n), xs(n); auto fb = vd::vec_b(n), xa = vd::vec_a(n);
                for (int i = 0; i < n; ++i) { f[i] = fb[i]; x[i] = xa[i]; xs[i] = fb[n - 1 - i]; }
                all_classes<double>(*A, *A, ci, f, x, xs, sch != vd::RAW, sch != vd::DOM, th, 0);
            }
        }
    }
}

// 5 x 5 patterns with a full diagonal and exactly five off-diagonal entries through ILU(1): the space of
// IlukModel (the smallest one where a fill entry can be refused first and admitted later)
static void mode_iluk5(bool th) {
    const int n = 5; std::vector<int> off; for (int p = 0; p < n * n; ++p) if (p / n != p % n) off.push_back(p);
    unsigned long diag = 0; for (int i = 0; i < n; ++i) diag |= 1ul << (i * n + i);
    unsigned long cnt = 0, step = th ? 2 : 16;
    std::vector<int> c(5);
    for (c[0] = 0; c[0] < 20; ++c[0]) for (c[1] = c[0] + 1; c[1] < 20; ++c[1]) for (c[2] = c[1] + 1; c[2] < 20; ++c[2]) for (c[3] = c[2] + 1; c[3] < 20; ++c[3]) for (c[4] = c[3] + 1; c[4] < 20; ++c[4]) {
        unsigned long mask = diag; for (int k = 0; k < 5; ++k) mask |= 1ul << off[c[k]];
        bool witness = mask == (diag | (1ul << 1) | (1ul << 9) | (1ul << 14) | (1ul << 15) | (1ul << 17));
        if (((cnt++) % step) && !witness) continue;
        auto A = vd::mk_matrix(n, mask, 0, vd::DOM);
        caseinfo ci{"dom5", true, A.get(), 3, 4};
        dvec f(n), x(n), xs(n); auto fb = vd::vec_b(n), xa = vd::vec_a(n);
        for (int i = 0; i < n; ++i) { f[i] = fb[i]; x[i] = xa[i]; xs[i] = fb[n - 1 - i]; }
        c_iluk<double>(*A, ci, f, x, xs, 1);
    }
}

static std::shared_ptr<crsd> skeleton(vr::rng &g, int n, int kind) {
    // 0 general non-symmetric pattern, 1 symmetric M-matrix, 2 symmetric pattern with non-symmetric values, 3 tridiagonal, 4 arrow
    if (kind == 1) return vr::random_mmatrix(g, n, 2.5 / std::max(n, 2), 3, 1, true);
    std::vector<std::vector<double>> W(n, std::vector<double>(n, 0.0));
    double dens = std::min(0.8, 2.0 / std::max(n, 1) + g.unit() * 0.1);
    for (int i = 0; i < n; ++i) for (int j = 0; j < n; ++j) {
        if (i == j) { W[i][j] = 1; continue; }
        bool on = false;
        if (kind == 0) on = g.coin(dens);
        if (kind == 2) on = (i < j) ? g.coin(dens) : (W[j][i] != 0);
        if (kind == 3) on = std::abs(i - j) == 1;
        if (kind == 4) on = (i == n - 1 || j == n - 1);
        if (on) { int v = g.range(1, 3); W[i][j] = g.coin(0.7) ? -v : v; }
    }
    std::vector<std::vector<std::pair<int,double>>> rows(n);
    for (int i = 0; i < n; ++i) for (int j = 0; j < n; ++j) if (W[i][j] != 0) rows[i].push_back(std::make_pair(j, W[i][j]));
    return vr::from_rows(n, n, rows);
}
template <class V> static void random_case(vr::rng &g, const crsd &S, const char *tag, bool p2) {
    auto A = vd::typed<V>(S, g, true, p2);
    size_t n = S.nrows;
    dvec f = int_vec<V>(g, n, 3), x = int_vec<V>(g, n, 3), xs = int_vec<V>(g, n, 3);
    caseinfo ci{tag, false, 0, (double)g.range(1, 4), 4};
    all_classes<V>(*A, S, ci, f, x, xs, true, p2 && std::is_same<V, double>::value, false, &g);
}
static void mode_random(uint64_t seed, int reps, int nmax) {
    vr::rng g(seed + 600);
    const char *names[5] = {"nonsym", "mmatrix", "sympat", "tridiag", "arrow"};
    for (int r = 0; r < reps; ++r) {
        int kind = r % 5, n = g.range(kind >= 3 ? 3 : 1, nmax);
        auto S = skeleton(g, n, kind);
        bool p2 = g.coin(0.4);
        random_case<double>(g, *S, names[kind], p2);
        random_case<std::complex<double>>(g, *S, names[kind], p2);
        if (n <= 20) random_case<static_matrix<double,2,2>>(g, *S, names[kind], p2);
        if (n <= 12 && r % 2 == 0) random_case<static_matrix<double,3,3>>(g, *S, names[kind], p2);
    }
}

int main(int argc, char **argv) {
    vr::install_terminate();
    std::string mode = argc > 1 ? argv[1] : "small";
    uint64_t seed = vr::env_seed(); bool th = vr::thorough();
    if (mode == "small") mode_small(th);
    else if (mode == "iluk5") mode_iluk5(th);
    else if (mode == "random") mode_random(seed, vr::env_int("VERIF_REPS", th ? 200 : 40), vr::env_int("VERIF_NMAX", th ? 60 : 30));
    vr::obj o; o.str("e", "End"); vr::emit(o.done());
    return 0;
}
