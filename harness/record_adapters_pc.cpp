// C17 recorder (part 2):
//   precond  every preconditioner class that accepts a user matrix is built twice - from a matrix
//            with sorted rows and from a copy whose row entries are listed in a random order - and
//            applied to the same probe vectors (single-threaded): bitwise flag + quantised
//            relative difference + exception texts
//   solve    reorder adapter (Cuthill-McKee) and scaled problem: the back-transformed solution's
//            TRUE residual in the original system (long double), quantised to millidecades
// The verdict is taken by TLC (spec/C17Trace.tla).
#include <vrec.hpp>
#include <amgcl/adapter/crs_tuple.hpp>
#include <amgcl/adapter/reorder.hpp>
#include <amgcl/adapter/scaled_problem.hpp>
#include <amgcl/adapter/zero_copy.hpp>
#include <amgcl/adapter/crs_builder.hpp>
#include <amgcl/adapter/eigen.hpp>
#include <Eigen/SparseCore>
#include <amgcl/make_solver.hpp>
#include <amgcl/amg.hpp>
#include <amgcl/coarsening/smoothed_aggregation.hpp>
#include <amgcl/coarsening/ruge_stuben.hpp>
#include <amgcl/coarsening/aggregation.hpp>
#include <amgcl/relaxation/spai0.hpp>
#include <amgcl/relaxation/spai1.hpp>
#include <amgcl/relaxation/damped_jacobi.hpp>
#include <amgcl/relaxation/gauss_seidel.hpp>
#include <amgcl/relaxation/ilu0.hpp>
#include <amgcl/relaxation/iluk.hpp>
#include <amgcl/relaxation/ilut.hpp>
#include <amgcl/relaxation/chebyshev.hpp>
#include <amgcl/relaxation/as_preconditioner.hpp>
#include <amgcl/preconditioner/dummy.hpp>
#include <amgcl/preconditioner/cpr.hpp>
#include <amgcl/preconditioner/cpr_drs.hpp>
#include <amgcl/preconditioner/schur_pressure_correction.hpp>
#include <amgcl/solver/cg.hpp>
#include <amgcl/solver/bicgstab.hpp>
#include <amgcl/solver/preonly.hpp>
#include <omp.h>

using namespace amgcl;
typedef backend::builtin<double> B;
typedef backend::crs<double, ptrdiff_t, ptrdiff_t> M;

static int md(long double v) { if (!std::isfinite((double)v)) return 99999;   /* NaN / Inf: never "small" */
    if (!(v > 0)) return -99999; double q = 1000.0 * std::log10((double)v); return q < -99999 ? -99999 : (q > 99999 ? 99999 : (int)std::lrint(q)); }

struct arrays { size_t n; std::vector<ptrdiff_t> ptr, col; std::vector<double> val; };
static arrays to_arrays(const M &A, vr::rng *shuffle) {
    arrays a; a.n = A.nrows; a.ptr.assign(A.ptr, A.ptr + A.nrows + 1); a.col.assign(A.col, A.col + A.nnz); a.val.assign(A.val, A.val + A.nnz);
    if (shuffle) for (size_t i = 0; i < a.n; ++i) for (ptrdiff_t k = a.ptr[i+1] - a.ptr[i]; k > 1; --k) {
        ptrdiff_t j = shuffle->below((int)k), p = a.ptr[i] + k - 1, q = a.ptr[i] + j; std::swap(a.col[p], a.col[q]); std::swap(a.val[p], a.val[q]); }
    return a;
}
// Kronecker product of an M-matrix with an SPD integer block: a block-structured SPD matrix (sorted rows)
static std::shared_ptr<M> kron(const M &P, int b) {
    static const int blk[3][3] = {{3, 1, 0}, {1, 4, 1}, {0, 1, 2}};
    std::vector<std::vector<std::pair<int,double>>> rows(P.nrows * b);
    for (size_t i = 0; i < P.nrows; ++i) for (int r = 0; r < b; ++r) for (ptrdiff_t p = P.ptr[i]; p < P.ptr[i+1]; ++p) for (int c = 0; c < b; ++c)
        if (blk[r][c] != 0) rows[i * b + r].push_back(std::make_pair((int)(P.col[p] * b + c), P.val[p] * blk[r][c]));
    return vr::from_rows((int)P.nrows * b, (int)P.ncols * b, rows);
}

template <class P, class Prm>
void probe(const char *cls, const arrays &a, const Prm &prm, std::vector<double> &out, std::string &exc) {
    out.clear(); exc.clear();
    try {
        P p(std::tie(a.n, a.ptr, a.col, a.val), prm);
        for (int k = 0; k < 3; ++k) {
            std::vector<double> f(a.n), x(a.n, 0.0);
            for (size_t i = 0; i < a.n; ++i) f[i] = k == 0 ? 1.0 : (k == 1 ? ((i % 2) ? -1.0 : 2.0) : (double)((i * 37 + 11) % 13) - 6.0);
            p.apply(f, x);
            out.insert(out.end(), x.begin(), x.end());
        }
    } catch (const std::exception &e) { exc = e.what(); if (exc.empty()) exc = "exception"; }
}
template <class P, class Prm>
void compare(const char *cls, const M &A, vr::rng &g, const Prm &prm, const char *tag) {
    arrays s = to_arrays(A, 0), u = to_arrays(A, &g);
    std::vector<double> xs, xu; std::string es, eu;
    probe<P>(cls, s, prm, xs, es); probe<P>(cls, u, prm, xu, eu);
    bool bitwise = xs.size() == xu.size() && (xs.empty() || std::memcmp(xs.data(), xu.data(), xs.size() * sizeof(double)) == 0);
    long double dmax = 0, amax = 0; bool finite = true;
    for (size_t i = 0; i < xs.size() && i < xu.size(); ++i) { if (!std::isfinite(xs[i]) || !std::isfinite(xu[i])) finite = false; dmax = std::max<long double>(dmax, std::fabs((long double)xs[i] - xu[i])); amax = std::max<long double>(amax, std::fabs((long double)xs[i])); }
    vr::obj o; o.str("k", "precond").str("cls", cls).str("tag", tag).i("n", A.nrows).i("nnz", A.nnz).str("exc_sorted", es).str("exc_shuffled", eu);
    o.b("bitwise", bitwise && finite).i("reldiff_md", (!finite || xs.size() != xu.size()) ? 99999 : (dmax == 0 ? -99999 : md(dmax / (amax > 0 ? amax : 1)))).i("nt", omp_get_max_threads());
    vr::emit(o.done());
}

// ---- the same shuffled matrix handed over as every matrix type an entry point accepts
struct arr_builder {
    typedef double val_type; typedef ptrdiff_t col_type; const arrays *a;
    size_t rows() const { return a->n; } size_t nonzeros() const { return a->col.size(); }
    void operator()(size_t i, std::vector<col_type> &col, std::vector<val_type> &val) const { for (ptrdiff_t p = a->ptr[i]; p < a->ptr[i+1]; ++p) { col.push_back(a->col[p]); val.push_back(a->val[p]); } }
};
template <class P, class Prm, class Mat>
void probe_mat(const Mat &m, size_t n, const Prm &prm, std::vector<double> &out, std::string &exc) {
    out.clear(); exc.clear();
    try {
        P p(m, prm);
        for (int k = 0; k < 3; ++k) {
            std::vector<double> f(n), x(n, 0.0);
            for (size_t i = 0; i < n; ++i) f[i] = k == 0 ? 1.0 : (k == 1 ? ((i % 2) ? -1.0 : 2.0) : (double)((i * 37 + 11) % 13) - 6.0);
            p.apply(f, x);
            out.insert(out.end(), x.begin(), x.end());
        }
    } catch (const std::exception &e) { exc = e.what(); if (exc.empty()) exc = "exception"; }
}
static void emit_cmp(const std::string &cls, const char *tag, const M &A, const std::vector<double> &xs, const std::string &es, const std::vector<double> &xu, const std::string &eu) {
    bool bitwise = xs.size() == xu.size() && (xs.empty() || std::memcmp(xs.data(), xu.data(), xs.size() * sizeof(double)) == 0);
    long double dmax = 0, amax = 0; bool finite = true;
    for (size_t i = 0; i < xs.size() && i < xu.size(); ++i) { if (!std::isfinite(xs[i]) || !std::isfinite(xu[i])) finite = false; dmax = std::max<long double>(dmax, std::fabs((long double)xs[i] - xu[i])); amax = std::max<long double>(amax, std::fabs((long double)xs[i])); }
    vr::obj o; o.str("k", "precond").str("cls", cls).str("tag", tag).i("n", A.nrows).i("nnz", A.nnz).str("exc_sorted", es).str("exc_shuffled", eu);
    o.b("bitwise", bitwise && finite).i("reldiff_md", (!finite || xs.size() != xu.size()) ? 99999 : (dmax == 0 ? -99999 : md(dmax / (amax > 0 ? amax : 1)))).i("nt", omp_get_max_threads());
    vr::emit(o.done());
}
// P must expose apply(f, x) (make_solver is wrapped below)
template <class P, class Prm>
void compare_types(const char *cls, const M &A, vr::rng &g, const Prm &prm, const char *tag) {
    arrays s = to_arrays(A, 0), u = to_arrays(A, &g);
    std::vector<double> xs, xu; std::string es, eu;
    probe<P>(cls, s, prm, xs, es);                                               // reference: sorted rows, tuple
    {   M Mu(std::tie(u.n, u.ptr, u.col, u.val));                                // exactly the internal CRS type, by const reference
        const M &cref = Mu; probe_mat<P>(cref, u.n, prm, xu, eu); emit_cmp(std::string(cls) + " via backend::crs<double,ptrdiff_t,ptrdiff_t> const&", tag, A, xs, es, xu, eu); }
    {   backend::crs<double, int, int> Mi(std::tie(u.n, u.ptr, u.col, u.val));   // CRS with other index types
        probe_mat<P>(Mi, u.n, prm, xu, eu); emit_cmp(std::string(cls) + " via backend::crs<double,int,int>", tag, A, xs, es, xu, eu); }
    {   backend::crs<float, long, size_t> Mf(std::tie(u.n, u.ptr, u.col, u.val)); // integer-valued data: exact in float
        bool exact = true; for (double v : u.val) if ((double)(float)v != v) exact = false;
        if (exact) { probe_mat<P>(Mf, u.n, prm, xu, eu); emit_cmp(std::string(cls) + " via backend::crs<float,long,size_t>", tag, A, xs, es, xu, eu); } }
    {   arr_builder rb; rb.a = &u; probe_mat<P>(adapter::make_matrix(rb), u.n, prm, xu, eu); emit_cmp(std::string(cls) + " via crs_builder", tag, A, xs, es, xu, eu); }
    {   typedef Eigen::SparseMatrix<double, Eigen::RowMajor, ptrdiff_t> EM; arrays w = u; w.col.push_back(0); w.val.push_back(0);
        Eigen::Map<EM> Em(w.n, w.n, u.col.size(), w.ptr.data(), w.col.data(), w.val.data());
        probe_mat<P>(Em, u.n, prm, xu, eu); emit_cmp(std::string(cls) + " via Eigen::Map<SparseMatrix>", tag, A, xs, es, xu, eu); }
    {   auto Z = adapter::zero_copy_direct(u.n, u.ptr.data(), u.col.data(), u.val.data());       // borrowed CRS of the internal type (by reference: copied and sorted)
        const M &zref = *Z; probe_mat<P>(zref, u.n, prm, xu, eu); emit_cmp(std::string(cls) + " via zero_copy_direct CRS const&", tag, A, xs, es, xu, eu); }
}
// make_solver as an entry point: apply = the preconditioner it built from the matrix it was handed
template <class S> struct via_make_solver {
    typedef typename S::params params; S s;
    template <class Mat> via_make_solver(const Mat &m, const params &p) : s(m, p) {}
    template <class V1, class V2> void apply(const V1 &f, V2 &x) const { s.precond().apply(f, x); }
};

// construct(sorted A) -> rebuild(M): M given with sorted rows vs. the same M with shuffled rows (allow_rebuild = true)
template <class P, class Prm>
void probe_rebuild(const arrays &a0, const arrays &m, Prm prm, std::vector<double> &out, std::string &exc) {
    out.clear(); exc.clear();
    try {
        prm.allow_rebuild = true;
        P p(std::tie(a0.n, a0.ptr, a0.col, a0.val), prm);
        p.rebuild(std::tie(m.n, m.ptr, m.col, m.val));
        for (int k = 0; k < 3; ++k) {
            std::vector<double> f(m.n), x(m.n, 0.0);
            for (size_t i = 0; i < m.n; ++i) f[i] = k == 0 ? 1.0 : (k == 1 ? ((i % 2) ? -1.0 : 2.0) : (double)((i * 37 + 11) % 13) - 6.0);
            p.apply(f, x);
            out.insert(out.end(), x.begin(), x.end());
        }
    } catch (const std::exception &e) { exc = e.what(); if (exc.empty()) exc = "exception"; }
}
template <class P, class Prm>
void compare_rebuild(const char *cls, const M &A, vr::rng &g, const Prm &prm, int layout) {
    // the new matrix: same pattern, diagonal increased (still an M-matrix)
    M A2(A); for (size_t i = 0; i < A2.nrows; ++i) for (ptrdiff_t p = A2.ptr[i]; p < A2.ptr[i+1]; ++p) if (A2.col[p] == (ptrdiff_t)i) A2.val[p] += 1 + (i % 3);
    arrays a0 = to_arrays(A, 0), s = to_arrays(A2, 0), u = to_arrays(A2, &g);
    if (layout == 1) {                       // diagonal-first rows: the diagonal entry leads, the rest stays sorted
        u = s;
        for (size_t i = 0; i < u.n; ++i) for (ptrdiff_t p = u.ptr[i]; p < u.ptr[i+1]; ++p) if (u.col[p] == (ptrdiff_t)i) {
            for (ptrdiff_t q = p; q > u.ptr[i]; --q) { std::swap(u.col[q], u.col[q-1]); std::swap(u.val[q], u.val[q-1]); } break; }
    }
    std::vector<double> xs, xu; std::string es, eu;
    probe_rebuild<P>(a0, s, prm, xs, es); probe_rebuild<P>(a0, u, prm, xu, eu);
    bool bitwise = xs.size() == xu.size() && (xs.empty() || std::memcmp(xs.data(), xu.data(), xs.size() * sizeof(double)) == 0);
    long double dmax = 0, amax = 0; bool finite = true;
    for (size_t i = 0; i < xs.size() && i < xu.size(); ++i) { if (!std::isfinite(xs[i]) || !std::isfinite(xu[i])) finite = false; dmax = std::max<long double>(dmax, std::fabs((long double)xs[i] - xu[i])); amax = std::max<long double>(amax, std::fabs((long double)xs[i])); }
    vr::obj o; o.str("k", "precond").str("cls", cls).str("tag", layout == 1 ? "rebuild, diagonal-first rows" : "rebuild, shuffled rows").i("n", A.nrows).i("nnz", A.nnz).str("exc_sorted", es).str("exc_shuffled", eu);
    o.b("bitwise", bitwise && finite).i("reldiff_md", (!finite || xs.size() != xu.size()) ? 99999 : (dmax == 0 ? -99999 : md(dmax / (amax > 0 ? amax : 1)))).i("nt", omp_get_max_threads());
    vr::emit(o.done());
}

static void mode_precond(uint64_t seed, int reps) {
    vr::rng g(seed + 515);
    typedef amg<B, coarsening::smoothed_aggregation, relaxation::spai0> AMG1;
    typedef amg<B, coarsening::ruge_stuben, relaxation::damped_jacobi>  AMG2;
    typedef amg<B, coarsening::aggregation, relaxation::gauss_seidel>   AMG3;
    typedef relaxation::as_preconditioner<B, relaxation::spai0>         R_spai0;
    typedef relaxation::as_preconditioner<B, relaxation::spai1>         R_spai1;
    typedef relaxation::as_preconditioner<B, relaxation::damped_jacobi> R_jac;
    typedef relaxation::as_preconditioner<B, relaxation::gauss_seidel>  R_gs;
    typedef relaxation::as_preconditioner<B, relaxation::ilu0>          R_ilu0;
    typedef relaxation::as_preconditioner<B, relaxation::iluk>          R_iluk;
    typedef relaxation::as_preconditioner<B, relaxation::ilut>          R_ilut;
    typedef relaxation::as_preconditioner<B, relaxation::chebyshev>     R_cheb;
    typedef preconditioner::cpr<AMG1, R_spai0>     CPR;
    typedef preconditioner::cpr_drs<AMG1, R_spai0> CPRDRS;
    typedef make_solver<R_jac, solver::preonly<B>> Inner;
    typedef preconditioner::schur_pressure_correction<Inner, Inner> SCHUR;
    for (int r = 0; r < reps; ++r) {
        int n = g.range(30, vr::thorough() ? 400 : 160);
        auto A = vr::random_mmatrix(g, n, 3.0 / n + 0.02 * g.unit(), 4, g.range(1, 2));
        AMG1::params p1; p1.coarse_enough = 10; compare<AMG1>("amg<smoothed_aggregation,spai0>", *A, g, p1, "mmatrix");
        AMG2::params p2; p2.coarse_enough = 10; compare<AMG2>("amg<ruge_stuben,damped_jacobi>", *A, g, p2, "mmatrix");
        AMG3::params p3; p3.coarse_enough = 10; compare<AMG3>("amg<aggregation,gauss_seidel>", *A, g, p3, "mmatrix");
        compare<R_spai0>("as_preconditioner<spai0>", *A, g, R_spai0::params(), "mmatrix");
        compare<R_spai1>("as_preconditioner<spai1>", *A, g, R_spai1::params(), "mmatrix");
        compare<R_jac>("as_preconditioner<damped_jacobi>", *A, g, R_jac::params(), "mmatrix");
        compare<R_gs>("as_preconditioner<gauss_seidel>", *A, g, R_gs::params(), "mmatrix");
        compare<R_ilu0>("as_preconditioner<ilu0>", *A, g, R_ilu0::params(), "mmatrix");
        compare<R_iluk>("as_preconditioner<iluk>", *A, g, R_iluk::params(), "mmatrix");
        compare<R_ilut>("as_preconditioner<ilut>", *A, g, R_ilut::params(), "mmatrix");
        compare<R_cheb>("as_preconditioner<chebyshev>", *A, g, R_cheb::params(), "mmatrix");
        compare< preconditioner::dummy<B> >("dummy", *A, g, preconditioner::dummy<B>::params(), "mmatrix");
        // every entry point x every matrix type (order-sensitive ILU0 inside wherever the class takes a smoother)
        if (r % 2 == 0) {
            typedef amg<B, coarsening::smoothed_aggregation, relaxation::ilu0> TA; TA::params ta; ta.coarse_enough = 10;
            compare_types<TA>("amg<smoothed_aggregation,ilu0>", *A, g, ta, "matrix types");
            compare_types<R_ilu0>("as_preconditioner<ilu0>", *A, g, R_ilu0::params(), "matrix types");
            compare_types<R_gs>("as_preconditioner<gauss_seidel>", *A, g, R_gs::params(), "matrix types");
            typedef via_make_solver< make_solver<R_ilu0, solver::bicgstab<B>> > MS1; compare_types<MS1>("make_solver<as_preconditioner<ilu0>,bicgstab>", *A, g, MS1::params(), "matrix types");
            typedef via_make_solver< make_solver<TA, solver::cg<B>> > MS2; MS2::params m2; m2.precond.coarse_enough = 10; compare_types<MS2>("make_solver<amg<ilu0>,cg>", *A, g, m2, "matrix types");
        }
        // rebuild() with a new matrix whose rows are unsorted (order-sensitive and order-insensitive smoothers)
        {   typedef amg<B, coarsening::smoothed_aggregation, relaxation::ilu0> RA1; typedef amg<B, coarsening::smoothed_aggregation, relaxation::iluk> RA2;
            typedef amg<B, coarsening::aggregation, relaxation::gauss_seidel> RA3; typedef amg<B, coarsening::smoothed_aggregation, relaxation::spai0> RA4;
            typedef amg<B, coarsening::ruge_stuben, relaxation::ilut> RA5;
            for (int layout = 0; layout < 2; ++layout) {
                RA1::params q1; q1.coarse_enough = 10; compare_rebuild<RA1>("amg<smoothed_aggregation,ilu0>::rebuild", *A, g, q1, layout);
                RA2::params q2; q2.coarse_enough = 10; compare_rebuild<RA2>("amg<smoothed_aggregation,iluk>::rebuild", *A, g, q2, layout);
                RA3::params q3; q3.coarse_enough = 10; compare_rebuild<RA3>("amg<aggregation,gauss_seidel>::rebuild", *A, g, q3, layout);
                RA4::params q4; q4.coarse_enough = 10; compare_rebuild<RA4>("amg<smoothed_aggregation,spai0>::rebuild", *A, g, q4, layout);
                RA5::params q5; q5.coarse_enough = 10; compare_rebuild<RA5>("amg<ruge_stuben,ilut>::rebuild", *A, g, q5, layout);
            }
        }
        // block-structured systems (2 unknowns per node, the first one is the pressure)
        auto Pn = vr::random_mmatrix(g, g.range(20, 80), 0.06, 3, 1);
        auto K = kron(*Pn, 2);
        CPR::params pc; pc.block_size = 2; pc.pprecond.coarse_enough = 10; compare<CPR>("cpr<amg,spai0>", *K, g, pc, "kron2");
        CPRDRS::params pd; pd.block_size = 2; pd.pprecond.coarse_enough = 10; compare<CPRDRS>("cpr_drs<amg,spai0>", *K, g, pd, "kron2");
        SCHUR::params ps; ps.pmask.assign(K->nrows, 0); for (size_t i = 0; i < K->nrows; i += 2) ps.pmask[i] = 1;
        compare<SCHUR>("schur_pressure_correction<jacobi,jacobi>", *K, g, ps, "kron2");
        if (r % 2 == 1) {
            typedef preconditioner::cpr<AMG1, R_ilu0> CPRI; CPRI::params ci; ci.block_size = 2; ci.pprecond.coarse_enough = 10; compare_types<CPRI>("cpr<amg,ilu0>", *K, g, ci, "matrix types");
            typedef preconditioner::cpr_drs<AMG1, R_ilu0> CPRD; CPRD::params cd; cd.block_size = 2; cd.pprecond.coarse_enough = 10; compare_types<CPRD>("cpr_drs<amg,ilu0>", *K, g, cd, "matrix types");
            typedef make_solver<R_ilu0, solver::preonly<B>> InnerI; typedef preconditioner::schur_pressure_correction<InnerI, InnerI> SCHI;
            SCHI::params si; si.pmask.assign(K->nrows, 0); for (size_t i = 0; i < K->nrows; i += 2) si.pmask[i] = 1;
            compare_types<SCHI>("schur_pressure_correction<ilu0,ilu0>", *K, g, si, "matrix types");
        }
    }
}

// ---------------------------------------------------------------- reorder / scaled solves
static void true_residual(const M &A, const std::vector<double> &f, const std::vector<double> &x, long double &rel) {
    long double rn = 0, fn = 0;
    for (size_t i = 0; i < A.nrows; ++i) { long double s = f[i]; for (ptrdiff_t p = A.ptr[i]; p < A.ptr[i+1]; ++p) s -= (long double)A.val[p] * x[A.col[p]]; rn += s * s; fn += (long double)f[i] * f[i]; }
    rel = std::sqrt(rn / (fn > 0 ? fn : 1));
}
static void mode_solve(uint64_t seed, int reps) {
    vr::rng g(seed + 808);
    typedef make_solver< amg<B, coarsening::smoothed_aggregation, relaxation::spai0>, solver::cg<B> > SolverCG;
    typedef make_solver< relaxation::as_preconditioner<B, relaxation::ilu0>, solver::bicgstab<B> > SolverBi;
    for (int r = 0; r < reps; ++r) {
        int n = g.range(50, vr::thorough() ? 900 : 350);
        auto A0 = vr::random_mmatrix(g, n, 3.0 / n, 4, 1);
        // symmetric row/column re-scaling by powers of two keeps the data exact and makes the diagonal vary by up to 2^8
        std::vector<double> d(n); for (int i = 0; i < n; ++i) d[i] = std::ldexp(1.0, g.range(0, r % 2 ? 4 : 0));
        std::vector<std::vector<std::pair<int,double>>> rows(n);
        for (int i = 0; i < n; ++i) for (ptrdiff_t p = A0->ptr[i]; p < A0->ptr[i+1]; ++p) rows[i].push_back(std::make_pair((int)A0->col[p], d[i] * A0->val[p] * d[A0->col[p]]));
        auto A = vr::from_rows(n, n, rows);
        arrays a = to_arrays(*A, g.coin() ? &g : 0);
        std::vector<double> f(n); for (int i = 0; i < n; ++i) f[i] = g.range(-5, 5);
        auto T = std::tie(a.n, a.ptr, a.col, a.val);
        const double tol = 1e-8;
        {   // reorder adapter: solve P^T A P y = P^T f, x = P y
            vr::obj o; o.str("k", "solve").str("ad", "reorder").str("solver", r % 2 ? "bicgstab+ilu0" : "cg+amg").i("n", n);
            try {
                adapter::reorder<> perm(T);
                std::vector<double> fp(n), y(n, 0.0), x(n, 0.0); perm.forward(f, fp);
                size_t it; double err;
                if (r % 2) { SolverBi::params prm; prm.solver.tol = tol; prm.solver.maxiter = 2000;
                             arrays ps = to_arrays(M(perm(T)), 0); { M tmp(perm(T)); backend::sort_rows(tmp); ps = to_arrays(tmp, 0); }
                             SolverBi solve(std::tie(ps.n, ps.ptr, ps.col, ps.val), prm); std::tie(it, err) = solve(fp, y); }
                else { SolverCG::params prm; prm.solver.tol = tol; prm.solver.maxiter = 2000; prm.precond.coarse_enough = 20; SolverCG solve(perm(T), prm); std::tie(it, err) = solve(fp, y); }
                perm.inverse(y, x);
                long double rel; true_residual(*A, f, x, rel);
                o.i("iters", it).i("reported_md", md(err)).i("true_md", md(rel)).i("tol_md", -8000).i("band_md", 1000);
            } catch (const std::exception &e) { o.str("exc", e.what()); }
            vr::emit(o.done());
        }
        {   // scaled problem: solve (S A S) y = S f, x = S y
            vr::obj o; o.str("k", "solve").str("ad", "scaled_problem").str("solver", "cg+amg").i("n", n);
            try {
                auto scale = adapter::scale_diagonal<B>(T);
                SolverCG::params prm; prm.solver.tol = tol; prm.solver.maxiter = 2000; prm.precond.coarse_enough = 20;
                SolverCG solve(scale.matrix(T), prm);
                std::vector<double> x(n, 0.0);
                size_t it; double err; std::tie(it, err) = solve(*scale.rhs(f), x);
                scale(x);
                long double rel; true_residual(*A, f, x, rel);
                // ||r|| <= ||S^-1|| ||r_s||, ||S f|| <= ||S|| ||f||: the band grows with the spread of the scale
                double smin = 1e300, smax = 0; for (double s : *scale.s) { smin = std::min(smin, std::fabs(s)); smax = std::max(smax, std::fabs(s)); }
                o.i("iters", it).i("reported_md", md(err)).i("true_md", md(rel)).i("tol_md", -8000).i("band_md", 1000 + md(smax / smin));
            } catch (const std::exception &e) { o.str("exc", e.what()); }
            vr::emit(o.done());
        }
    }
}

// shared internal CRS: a solver built on std::shared_ptr<crs> obtained from zero_copy() uses the user's arrays in
// place (no copy, no sort); it must act like the one built from a copy, and the arrays (with canaries) stay intact
static void mode_shared(uint64_t seed, int reps) {
    vr::rng g(seed + 919);
    typedef amg<B, coarsening::smoothed_aggregation, relaxation::spai0> AMG;
    typedef make_solver<AMG, solver::cg<B>> Solver;
    for (int r = 0; r < reps; ++r) {
        int n = g.range(30, 200);
        auto A = vr::random_mmatrix(g, n, 3.0 / n, 4, 1);
        arrays a = to_arrays(*A, 0);
        const int G = 16;
        std::vector<ptrdiff_t> gp(a.ptr.size() + 2 * G, 0x5A5A), gc(a.col.size() + 2 * G, 0x5A5A); std::vector<double> gv(a.val.size() + 2 * G, 90.5);
        std::copy(a.ptr.begin(), a.ptr.end(), gp.begin() + G); std::copy(a.col.begin(), a.col.end(), gc.begin() + G); std::copy(a.val.begin(), a.val.end(), gv.begin() + G);
        std::vector<ptrdiff_t> sp(gp), sc(gc); std::vector<double> sv(gv);
        std::vector<double> f(n), x1(n, 0.0), x2(n, 0.0); for (int i = 0; i < n; ++i) f[i] = g.range(-5, 5);
        vr::obj o; o.str("k", "shared").str("cls", "make_solver<amg,cg> on shared_ptr<crs> from zero_copy").i("n", n);
        try {
            Solver::params prm; prm.precond.coarse_enough = 10;
            size_t it1, it2; double e1, e2;
            {
                auto Z = adapter::zero_copy((size_t)n, gp.data() + G, gc.data() + G, gv.data() + G);
                bool ident = Z->ptr == gp.data() + G && Z->col == gc.data() + G && Z->val == gv.data() + G && !Z->own_data;
                Solver s(Z, prm); std::tie(it1, e1) = s(f, x1);
                o.b("ident", ident).b("system_matrix_is_users", (const void*)s.system_matrix().val == (const void*)(gv.data() + G));
            }
            { Solver s(std::tie(a.n, a.ptr, a.col, a.val), prm); std::tie(it2, e2) = s(f, x2); }
            o.b("same", it1 == it2 && std::memcmp(x1.data(), x2.data(), n * sizeof(double)) == 0).b("canary", gp == sp && gc == sc && gv == sv);
        } catch (const std::exception &e) { o.str("exc", e.what()); }
        vr::emit(o.done());
    }
}

int main(int argc, char **argv) {
    vr::install_terminate();
    std::string mode = argc > 1 ? argv[1] : "precond";
    uint64_t seed = vr::env_seed(); bool th = vr::thorough();
    if (mode == "precond") mode_precond(seed, vr::env_int("VERIF_REPS", th ? 40 : 8));
    else if (mode == "solve") { mode_solve(seed, vr::env_int("VERIF_REPS", th ? 60 : 12)); mode_shared(seed, th ? 30 : 8); }
    vr::obj o; o.str("e", "End"); vr::emit(o.done());
    return 0;
}
