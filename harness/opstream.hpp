// Op-stream sink for hooks H1-H3: turns backend primitive / amg events into ndjson events
// with small integer register ids (addresses in order of first appearance).  Shared by the
// C02 (cycle) and C15 (object reuse) recorders.  Single-threaded use only.
#ifndef VERIF_OPSTREAM_HPP
#define VERIF_OPSTREAM_HPP
#include <vrec.hpp>
#include <map>

namespace vr {

struct opstream : amgcl::verif::sink {
    std::map<const void*, int> ids;
    std::map<const void*, int> level_of;     // amg level object -> level number (1-based)
    bool on = false;
    long count = 0;

    int id(const void *p) { if (!p) return 0; auto it = ids.find(p); if (it != ids.end()) return it->second; int k = (int)ids.size() + 1; ids[p] = k; return k; }
    void reset() { ids.clear(); level_of.clear(); count = 0; }

    void op(const char *name, const void *a0, const void *a1, const void *a2, const void *a3, int z0, int z1, int z2) override {
        if (!on) return;
        ++count;
        std::string n(name);
        obj o; o.str("e", "op").str("name", n);
        std::vector<int> a;
        if (n == "spmv") a = {id(a0), id(a1), id(a2)};
        else if (n == "residual") a = {id(a0), id(a1), id(a2), id(a3)};
        else if (n == "clear") a = {id(a0)};
        else if (n == "copy" || n == "inner_product" || n == "axpby") a = {id(a0), id(a1)};
        else a = {id(a0), id(a1), id(a2)};
        int z[3] = {z0, z1, z2};
        o.ints("a", a).ints("z", z, z + 3);
        emit(o.done());
    }
    void event(const char *name, const void *objp, long a, long b, long c, long d) override {
        if (!on) return;
        std::string n(name);
        int lvl = level_of.count(objp) ? level_of[objp] : 0;
        if (n == "amg.relax_pre" || n == "amg.relax_post") {
            obj o; o.str("e", "op").str("name", "relax").str("kind", n == "amg.relax_pre" ? "pre" : "post").i("lvl", lvl);
            int v[3] = {id((const void*)a), id((const void*)b), id((const void*)c)}; o.ints("a", v, v + 3); int z[3] = {0,0,0}; o.ints("z", z, z + 3);
            emit(o.done());
        } else if (n == "amg.coarse") {
            obj o; o.str("e", "op").str("name", "coarse").str("kind", "direct").i("lvl", lvl);
            int v[2] = {id((const void*)a), id((const void*)b)}; o.ints("a", v, v + 2); int z[3] = {0,0,0}; o.ints("z", z, z + 3);
            emit(o.done());
        }
    }
};

} // namespace vr
#endif
