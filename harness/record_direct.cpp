// C16 recorder: the direct and dense kernels of amgcl through their public interfaces.
//   small    mask-enumerated patterns (same encoding as Patterns.tla / DirectVals.tla) through
//            reorder::cuthill_mckee<false|true>::get and solver::skyline_lu<double>
//   random   seeded random patterns (non-symmetric, disconnected, missing diagonals for the
//            ordering) and real / complex / block valued dominant matrices through skyline_lu,
//            backend::builtin<V>::create_solver (the default direct solver) and solver::EigenSolver
//   inverse  math::inverse on static_matrix<double,N,N> (all small integer matrices, random ones,
//            matrices that need row exchanges) and detail::inverse on complex arrays
//   sm       static_matrix arithmetic on integer blocks
//   reuse    call histories on ONE object: QR (factorize / compute / solve of changing shapes, orders), skyline_lu
//            (operator() with unit / zero / leading-zero / random right-hand sides), detail::inverse with reused
//            work buffers; every call compared bitwise with a fresh object and with the definition
//   long     graphs with up to 70 000 BFS level sets (chains, strips, combs) through cuthill_mckee and skyline_lu
//   smc      static_matrix with complex elements (Gaussian integers): adjoint, products, inner products, norm
//   qr       detail::QR<double | complex | static_matrix>: factorize / Q / R / solve, both storage
//            orders, shapes to 12x12, rank deficient / zero columns (class-O observations)
// Verdicts are taken by TLC (spec/C16Trace.tla).
#include <vrec.hpp>
#include <vdense.hpp>
#include <amgcl/util.hpp>
#include <amgcl/backend/builtin.hpp>
#include <amgcl/value_type/static_matrix.hpp>
#include <amgcl/value_type/complex.hpp>
#include <amgcl/reorder/cuthill_mckee.hpp>
#include <amgcl/detail/inverse.hpp>
#include <amgcl/detail/qr.hpp>
#include <Eigen/Dense>
#include <Eigen/SparseLU>
#include <amgcl/solver/eigen.hpp>
// the solver keeps perm / ptr private; the harness (and only the harness) reads them:
// this file is compiled with -fno-access-control (see checks/C16.py)
#include <amgcl/solver/skyline_lu.hpp>
#include <omp.h>

using namespace amgcl;
using vr::crsd;
using vd::ld; using vd::cld; using vd::dmat; using vd::dvec; using vd::md;

static const int SH = 20;
static void put(vr::obj &o) { if (o.exact) vr::emit(o.done()); else { vr::obj x; x.str("e", "Inexact"); vr::emit(x.done()); } }
static std::string J(const crsd &A, vr::obj &o) { bool ex = true; std::string s = vr::crs_json(A, ex, 0); if (!ex) o.exact = false; return s; }

// pattern (values 1 where the stored value is non-zero, 0 for explicit zeros) of any CRS matrix
template <class M> std::shared_ptr<crsd> pattern_of(const M &A) {
    std::vector<std::vector<std::pair<int,double>>> rows(A.nrows);
    for (size_t i = 0; i < A.nrows; ++i) for (ptrdiff_t p = A.ptr[i]; p < A.ptr[i+1]; ++p)
        rows[i].push_back(std::make_pair((int)A.col[p], math::is_zero(A.val[p]) ? 0.0 : 1.0));
    return vr::from_rows(A.nrows, A.ncols, rows);
}

// ---------------------------------------------------------------- Cuthill-McKee
template <bool rev> static std::vector<int> cm_get(const crsd &A) { std::vector<int> perm(A.nrows, -7); reorder::cuthill_mckee<rev>::get(A, perm); return perm; }
static void c_cm(const crsd &A, bool rev, const char *tag) {
    vr::obj o; o.str("k", "cm").str("tag", tag).b("rev", rev);
    try { std::vector<int> perm = rev ? cm_get<true>(A) : cm_get<false>(A); o.i("exc", 0).ints("perm", perm); }
    catch (const std::exception &e) { o.i("exc", 1).str("what", e.what()).raw("perm", "[]"); }
    o.raw("A", J(A, o)); put(o);
}

// ---------------------------------------------------------------- skyline LU
template <class V, bool rev>
static void sky_case(const backend::crs<V, ptrdiff_t, ptrdiff_t> &A, const std::vector<double> &fs, const char *tag, bool rat, const crsd *Aint) {
    typedef typename vd::vt<V>::rhs rhs;
    typedef solver::skyline_lu<V, reorder::cuthill_mckee<rev>> S;
    const int B = vd::vt<V>::B; const size_t n = A.nrows;
    std::vector<rhs> f(n), x(n);
    for (size_t i = 0; i < n; ++i) for (int r = 0; r < B; ++r) { vd::vt<V>::rset(f[i], r, cld(fs[(i * B + r) % fs.size()], 0)); vd::vt<V>::rset(x[i], r, cld(0, 0)); }
    vr::obj o; o.str("k", "sky").str("tag", tag).str("vtag", vd::vt<V>::name()).b("rev", rev).b("rat", rat).i("n", n).i("sh", SH);
    std::vector<int> perm(n, -7);
    reorder::cuthill_mckee<rev>::get(A, perm);
    o.ints("perm", perm);
    bool big = false;
    try {
        S s(A);
        s(f, x);
        // called twice: the scratch vector y is reused, the second result must be the same
        std::vector<rhs> x2(n); for (size_t i = 0; i < n; ++i) x2[i] = x[i];
        s(f, x);
        bool same = true; for (size_t i = 0; i < n; ++i) for (int r = 0; r < B; ++r) if (!(vd::vt<V>::rget(x[i], r) == vd::vt<V>::rget(x2[i], r))) same = false;
        o.i("exc", 0).b("again", same).ints("iperm", s.perm).ints("ptr", s.ptr);
        dmat D = vd::dense_of(A); dvec fd = vd::dense_vec<V>(f, n), xd = vd::dense_vec<V>(x, n);
        ld an = 0; for (int i = 0; i < D.n; ++i) { ld sr = 0; for (int j = 0; j < D.m; ++j) sr += std::abs(D(i, j)); an = std::max(an, sr); }
        ld res = vd::nrm_inf(vd::sub(vd::mul(D, xd), fd)) / std::max((ld)1e-300L, an * vd::nrm_inf(xd) + vd::nrm_inf(fd));
        bool ok; dvec ref = vd::solve(D, fd, ok);
        o.i("res", md(res)).i("err", ok ? md(vd::rel_diff(xd, ref)) : -30000).b("finite", vd::all_finite(xd));
        if (B == 1 && std::is_same<V, double>::value) { std::vector<double> xr(n); for (size_t i = 0; i < n; ++i) xr[i] = (double)xd[i].real(); o.raw("x", vd::fix_list(xr, SH, big)); }
        else o.raw("x", "[]");
    } catch (const std::exception &e) {
        o.i("exc", 1).str("what", e.what()).b("again", true).raw("iperm", "[]").raw("ptr", "[]").i("res", -30000).i("err", -30000).b("finite", true).raw("x", "[]");
    }
    o.b("big", big);
    if (Aint) { o.raw("A", J(*Aint, o)); o.dbls("f", fs); } else { o.raw("A", J(*pattern_of(A), o)); o.raw("f", "[]"); }
    put(o);
}
template <class V> static void sky_both(const backend::crs<V, ptrdiff_t, ptrdiff_t> &A, const std::vector<double> &fs, const char *tag, bool rat, const crsd *Aint) {
    sky_case<V, false>(A, fs, tag, rat, Aint); sky_case<V, true>(A, fs, tag, rat, Aint);
}

// builtin backend's direct solver (create_solver) and the Eigen wrapper: class-O residuals
static void c_dsolve(const crsd &A, vr::rng &g) {
    const size_t n = A.nrows;
    std::vector<double> f(n), x(n, 0.0); for (auto &v : f) v = g.range(-3, 3);
    dmat D = vd::dense_of(A); dvec fd(n); for (size_t i = 0; i < n; ++i) fd[i] = f[i];
    bool ok; dvec ref = vd::solve(D, fd, ok);
    {
        typedef backend::builtin<double> Bk;
        auto Ap = std::make_shared<crsd>(A);
        vr::obj o; o.str("k", "dsolve").str("via", "builtin").i("n", n);
        try { auto s = Bk::create_solver(Ap, Bk::params()); (*s)(f, x); dvec xd(n); for (size_t i = 0; i < n; ++i) xd[i] = x[i];
              o.i("exc", 0).i("err", md(vd::rel_diff(xd, ref))); }
        catch (const std::exception &e) { o.i("exc", 1).str("what", e.what()).i("err", 30000); }
        put(o);
    }
    {
        typedef solver::EigenSolver<Eigen::SparseLU<Eigen::SparseMatrix<double, Eigen::ColMajor, int>>> ES;
        vr::obj o; o.str("k", "dsolve").str("via", "eigen").i("n", n);
        try { ES s(A); std::fill(x.begin(), x.end(), 0.0); s(f, x); dvec xd(n); for (size_t i = 0; i < n; ++i) xd[i] = x[i];
              o.i("exc", 0).i("err", md(vd::rel_diff(xd, ref))); }
        catch (const std::exception &e) { o.i("exc", 1).str("what", e.what()).i("err", 30000); }
        put(o);
    }
}

// ---------------------------------------------------------------- modes: small / random
static void mode_small(bool th) {
    for (int n = 1; n <= 4; ++n) {
        unsigned long nm = 1ul << (n * n);
        unsigned long step = (n == 4 && !th) ? 5 : 1;
        unsigned long cnt = 0;
        for (unsigned long mask = 0; mask < nm; ++mask) {
            if (n <= 3 || mask % 7 == 0 || th) { auto P = vr::mk_pattern(n, n, mask, 0, false); c_cm(*P, false, "small"); c_cm(*P, true, "small"); }
            if (!vd::has_diag(n, mask)) continue;
            if ((cnt++) % step) continue;
            for (int sch = 0; sch < 3; ++sch) {
                if (sch == vd::SPD && !vd::sym_pat(n, mask)) continue;
                auto A = vd::mk_matrix(n, mask, 0, sch);
                sky_both<double>(*A, vd::vec_b(n), vd::scheme_name(sch), true, A.get());
            }
        }
    }
}

static std::shared_ptr<crsd> random_skeleton(vr::rng &g, int n, int kind) {
    // kind 0: general non-symmetric pattern; 1: symmetric M-matrix; 2: two disconnected blocks; 3: banded + far entries; 4: arrow
    if (kind == 1) return vr::random_mmatrix(g, n, 2.0 / std::max(n, 2), 3, 1, g.coin());
    std::vector<std::vector<std::pair<int,double>>> rows(n);
    double dens = std::min(0.9, 1.5 / std::max(n, 1) + g.unit() * 0.15);
    for (int i = 0; i < n; ++i) for (int j = 0; j < n; ++j) {
        bool on = (i == j);
        if (kind == 0) on = on || g.coin(dens);
        if (kind == 2) on = on || ((i < n / 2) == (j < n / 2) && g.coin(2 * dens));
        if (kind == 3) on = on || (std::abs(i - j) <= 1) || g.coin(0.03);
        if (kind == 4) on = on || i == n - 1 || j == n - 1 || i == 0;
        if (!on) continue;
        int v = g.range(1, 3); if (g.coin()) v = -v;
        rows[i].push_back(std::make_pair(j, (double)v));
    }
    auto A = vr::from_rows(n, n, rows);
    for (int i = 0; i < n; ++i) { double s = 0; for (ptrdiff_t p = A->ptr[i]; p < A->ptr[i+1]; ++p) if (A->col[p] != i) s += std::fabs(A->val[p]);
        for (ptrdiff_t p = A->ptr[i]; p < A->ptr[i+1]; ++p) if (A->col[p] == i) A->val[p] = s + 1; }
    return A;
}

static void mode_random(uint64_t seed, int reps, int nmax) {
    vr::rng g(seed + 1600);
    for (int r = 0; r < reps; ++r) {
        int n = g.range(1, nmax), kind = g.range(0, 4);
        auto S = random_skeleton(g, n, kind);
        std::vector<double> fs(7); for (auto &v : fs) v = g.range(-3, 3);
        sky_both<double>(*S, fs, "rand", false, 0);
        { auto C = vd::typed<std::complex<double>>(*S, g, true); sky_both<std::complex<double>>(*C, fs, "rand", false, 0); }
        if (n <= 24) { auto Bm = vd::typed<static_matrix<double,2,2>>(*S, g, true); sky_both<static_matrix<double,2,2>>(*Bm, fs, "rand", false, 0); }
        if (n <= 16 && r % 2 == 0) { auto Bm = vd::typed<static_matrix<double,3,3>>(*S, g, true); sky_both<static_matrix<double,3,3>>(*Bm, fs, "rand", false, 0); }
        c_dsolve(*S, g);
        // orderings on arbitrary patterns: missing diagonals, empty rows, non-symmetric, disconnected
        auto P = vr::random_int(g, n, n, std::min(0.9, g.unit() * 3.0 / std::max(n, 1)), 1, g.coin(0.3), g.coin());
        c_cm(*P, false, "rand"); c_cm(*P, true, "rand");
        c_cm(*S, false, "rand"); c_cm(*S, true, "rand");
        // a matrix whose leading pivot vanishes in the chosen order: zero pivot must be reported
        if (r % 5 == 0 && n >= 2) {
            auto Z = std::make_shared<crsd>(*S);
            int row = g.below(n);
            for (ptrdiff_t p = Z->ptr[row]; p < Z->ptr[row+1]; ++p) Z->val[p] = 0;     // an all-zero row: singular for every order
            sky_both<double>(*Z, fs, "zerorow", false, 0);
            // ... and every row in turn for small systems, so that the row the ordering puts first (the first pivot) is among them
            if (n <= 16) for (int rw = 0; rw < n; ++rw) { auto Y = std::make_shared<crsd>(*S); for (ptrdiff_t p = Y->ptr[rw]; p < Y->ptr[rw+1]; ++p) Y->val[p] = 0; sky_both<double>(*Y, fs, "zerorow", false, 0); }
        }
    }
}

// ---------------------------------------------------------------- small inverse
static long long det_int(std::vector<long long> a, int n) {   // fraction-free (Bareiss) determinant
    long long prev = 1; int sign = 1;
    for (int k = 0; k < n - 1; ++k) {
        if (a[k * n + k] == 0) { int p = -1; for (int i = k + 1; i < n; ++i) if (a[i * n + k] != 0) { p = i; break; }
            if (p < 0) return 0; for (int j = 0; j < n; ++j) std::swap(a[k * n + j], a[p * n + j]); sign = -sign; }
        for (int i = k + 1; i < n; ++i) for (int j = k + 1; j < n; ++j) a[i * n + j] = (a[i * n + j] * a[k * n + k] - a[i * n + k] * a[k * n + j]) / prev;
        prev = a[k * n + k];
    }
    return sign * a[n * n - 1];
}
template <int N> static void inv_case(const std::vector<int> &a, const char *tag, bool rat) {
    std::vector<long long> al(a.begin(), a.end());
    if (det_int(al, N) == 0) return;                      // the property promises nothing for singular blocks
    static_matrix<double, N, N> A; for (int k = 0; k < N * N; ++k) A(k) = a[k];
    static_matrix<double, N, N> Ai = math::inverse(A);
    dmat D(N, N), Di(N, N); for (int i = 0; i < N; ++i) for (int j = 0; j < N; ++j) { D(i, j) = A(i, j); Di(i, j) = Ai(i, j); }
    ld e1 = vd::max_abs(vd::subm(vd::mul(D, Di), vd::ident(N))), e2 = vd::max_abs(vd::subm(vd::mul(Di, D), vd::ident(N)));
    bool ok; dmat R = vd::inverse(D, ok);
    bool big = false; std::vector<double> out(N * N); for (int k = 0; k < N * N; ++k) out[k] = Ai(k);
    vr::obj o; o.str("k", "inv").str("tag", tag).i("n", N).b("rat", rat).i("sh", SH).ints("A", a).raw("out", vd::fix_list(out, SH, big)).b("big", big).b("finite", vd::all_finite(Di));
    o.i("eres", md(std::max(e1, e2) / std::max((ld)1, vd::max_abs(Di) * vd::max_abs(D)))).i("err", md(vd::max_abs(vd::subm(Di, R)) / std::max((ld)1, vd::max_abs(R))));
    put(o);
}
template <int N> static void inv_enum(int lo, int hi, unsigned stride, const char *tag) {
    const int span = hi - lo + 1; unsigned long total = 1; for (int k = 0; k < N * N; ++k) total *= span;
    std::vector<int> a(N * N);
    for (unsigned long c = 0; c < total; c += stride) { unsigned long t = c; for (int k = 0; k < N * N; ++k) { a[k] = lo + (int)(t % span); t /= span; } inv_case<N>(a, tag, true); }
}
template <int N> static void inv_rand(vr::rng &g, int reps, int vmax, bool rat) {
    std::vector<int> a(N * N);
    for (int r = 0; r < reps; ++r) {
        for (auto &v : a) v = g.range(-vmax, vmax);
        if (r % 3 == 0) for (int i = 0; i + 1 < N; ++i) a[i * N + i] = 0;          // zero leading pivots: exchanges are necessary
        inv_case<N>(a, "rand", rat);
    }
}
static void c_inv_complex(vr::rng &g, int n) {
    typedef std::complex<double> C;
    std::vector<C> A(n * n), t(n * n), A0; std::vector<int> p(n);
    for (auto &v : A) v = C(g.range(-3, 3), g.range(-3, 3));
    if (g.coin(0.4)) A[0] = 0;
    A0 = A;
    dmat D(n, n); for (int i = 0; i < n; ++i) for (int j = 0; j < n; ++j) D(i, j) = cld(A0[i * n + j].real(), A0[i * n + j].imag());
    bool ok; dmat R = vd::inverse(D, ok);
    if (!ok || vd::max_abs(R) > 1e4) return;                // (nearly) singular draw: not in the property
    amgcl::detail::inverse(n, A.data(), t.data(), p.data());
    dmat Di(n, n); for (int i = 0; i < n; ++i) for (int j = 0; j < n; ++j) Di(i, j) = cld(A[i * n + j].real(), A[i * n + j].imag());
    ld e1 = vd::max_abs(vd::subm(vd::mul(D, Di), vd::ident(n))), e2 = vd::max_abs(vd::subm(vd::mul(Di, D), vd::ident(n)));
    vr::obj o; o.str("k", "inv").str("tag", "complex").i("n", n).b("rat", false).i("sh", SH).raw("A", "[]").raw("out", "[]").b("big", false).b("finite", vd::all_finite(Di));
    o.i("eres", md(std::max(e1, e2) / std::max((ld)1, vd::max_abs(Di) * vd::max_abs(D)))).i("err", md(vd::max_abs(vd::subm(Di, R)) / std::max((ld)1, vd::max_abs(R))));
    put(o);
}
static void mode_inverse(uint64_t seed, bool th) {
    inv_enum<1>(-3, 3, 1, "enum");
    inv_enum<2>(-2, 2, 1, "enum");
    inv_enum<3>(-1, 1, th ? 1 : 3, "enum");
    if (th) inv_enum<3>(-1, 2, 7, "enum");
    vr::rng g(seed + 1616);
    int reps = th ? 400 : 60;
    inv_rand<2>(g, reps, 4, true); inv_rand<3>(g, reps, 2, true); inv_rand<4>(g, reps, 2, true);
    inv_rand<4>(g, reps, 9, false); inv_rand<5>(g, reps, 5, false); inv_rand<6>(g, reps, 5, false); inv_rand<8>(g, reps / 2, 5, false);
    for (int r = 0; r < reps; ++r) c_inv_complex(g, g.range(1, 6));
}

// ---------------------------------------------------------------- static matrix arithmetic
template <class T, int N, int M> static std::vector<double> flat(const static_matrix<T, N, M> &x) { return std::vector<double>(x.buf.begin(), x.buf.end()); }
static std::vector<double> flat(double x) { return std::vector<double>(1, x); }
template <int N, int M> static std::vector<std::complex<double>> cflat(const static_matrix<std::complex<double>, N, M> &x) { return std::vector<std::complex<double>>(x.buf.begin(), x.buf.end()); }
static std::vector<std::complex<double>> cflat(std::complex<double> x) { return std::vector<std::complex<double>>(1, x); }
template <int N, int K, int M> static void sm_case(vr::rng &g, int vmax) {
    static_matrix<double, N, K> a, a2; static_matrix<double, K, M> b; static_matrix<double, N, N> sq, sq2;
    for (int k = 0; k < N * K; ++k) { a(k) = g.range(-vmax, vmax); a2(k) = g.range(-vmax, vmax); }
    for (int k = 0; k < K * M; ++k) b(k) = g.range(-vmax, vmax);
    for (int k = 0; k < N * N; ++k) { sq(k) = g.range(-vmax, vmax); sq2(k) = g.range(-vmax, vmax); }
    double s = g.range(-3, 3);
    auto mulr = a * b; auto addr = a + a2; auto subr = a - a2; auto scr = s * a; auto neg = -a; auto adj = math::adjoint(a);
    auto inn = math::inner_product(a, a2);
    static_matrix<double, N, K> acc = a; acc += a2; acc -= a; acc *= s;            // compound forms: (a + a2 - a) * s
    auto I = math::identity<static_matrix<double, N, N>>(); auto Z = math::zero<static_matrix<double, N, K>>(); auto Cn = math::constant<static_matrix<double, N, K>>(s);
    double nrm = math::norm(a);
    vr::obj o; o.str("k", "sm").i("N", N).i("K", K).i("M", M).d("s", s);
    o.dbls("a", a.buf).dbls("a2", a2.buf).dbls("b", b.buf).dbls("sq", sq.buf).dbls("sq2", sq2.buf);
    o.dbls("mul", mulr.buf).dbls("add", addr.buf).dbls("sub", subr.buf).dbls("scale", scr.buf).dbls("neg", neg.buf).dbls("adj", adj.buf);
    o.dbls("inner", flat(inn)).dbls("acc", acc.buf).dbls("ident", I.buf).dbls("zero", Z.buf).dbls("cnst", Cn.buf);
    o.dbls("sqmul", (sq * sq2).buf).b("less", sq < sq2).b("iszero", math::is_zero(a)).b("zeroiszero", math::is_zero(Z));
    o.d("norm2", std::rint(nrm * nrm)).b("normok", std::fabs(nrm * nrm - std::rint(nrm * nrm)) < 1e-9);
    put(o);
}
static void mode_sm(uint64_t seed, bool th) {
    vr::rng g(seed + 1633); int reps = th ? 600 : 120;
    for (int r = 0; r < reps; ++r) {
        sm_case<2,2,2>(g, 3); sm_case<3,3,3>(g, 3); sm_case<2,3,2>(g, 4); sm_case<3,2,4>(g, 4); sm_case<1,1,1>(g, 9); sm_case<4,4,1>(g, 3); sm_case<4,4,4>(g, 2);
        if (r % 10 == 0) { vr::rng z(0); sm_case<2,2,2>(z, 0); }            // all-zero operands
    }
}

// ---------------------------------------------------------------- QR (class O)
template <class T> struct qrt;
template <> struct qrt<double> { static double mk(vr::rng &g) { return g.range(-4, 4) + (g.coin(0.5) ? 0.0 : g.unit()); } static cld up(double v) { return cld(v, 0); } static const char *name() { return "real"; } };
template <> struct qrt<std::complex<double>> { typedef std::complex<double> C; static C mk(vr::rng &g) { return C(g.range(-4, 4) + g.unit(), g.range(-3, 3) + (g.coin() ? g.unit() : 0.0)); } static cld up(C v) { return cld(v.real(), v.imag()); } static const char *name() { return "complex"; } };

static ld cond2(const dmat &A) {
    Eigen::Matrix<std::complex<double>, Eigen::Dynamic, Eigen::Dynamic> E(A.n, A.m);
    for (int i = 0; i < A.n; ++i) for (int j = 0; j < A.m; ++j) E(i, j) = std::complex<double>((double)A(i, j).real(), (double)A(i, j).imag());
    Eigen::JacobiSVD<decltype(E)> svd(E);
    auto sv = svd.singularValues(); int k = std::min(A.n, A.m);
    return sv(k - 1) > 0 ? sv(0) / sv(k - 1) : 1e300L;
}
// least-squares / minimum-norm solution by Eigen (the oracle)
static dvec eigen_lsq(const dmat &A, const dvec &b) {
    typedef Eigen::Matrix<std::complex<long double>, Eigen::Dynamic, Eigen::Dynamic> EM; typedef Eigen::Matrix<std::complex<long double>, Eigen::Dynamic, 1> EV;
    EM E(A.n, A.m); EV B(A.n);
    for (int i = 0; i < A.n; ++i) { B(i) = b[i]; for (int j = 0; j < A.m; ++j) E(i, j) = A(i, j); }
    EV x = E.completeOrthogonalDecomposition().solve(B);
    dvec r(A.m); for (int j = 0; j < A.m; ++j) r[j] = x(j); return r;
}

// cls: 0 full rank random, 1 rank deficient (a column repeated / combination), 2 with zero columns, 3 all zero, 4 small integers
template <class T> static void qr_case(vr::rng &g, int rows, int cols, int order, int cls) {
    std::vector<T> A((size_t)rows * cols);
    auto at = [&](int i, int j) -> T& { return order == 0 ? A[(size_t)i * cols + j] : A[(size_t)i + (size_t)j * rows]; };
    for (int i = 0; i < rows; ++i) for (int j = 0; j < cols; ++j) at(i, j) = cls == 3 ? T(0) : (cls == 4 ? T(g.range(-3, 3)) : qrt<T>::mk(g));
    if (cls == 5) for (int i = 0; i < rows; ++i) for (int j = i + 1; j < cols; ++j) at(i, j) = T(0);     // lower trapezoidal: full rank, columns of A^H already zero below the diagonal
    if (cls == 1 && cols >= 2) { int c = g.below(cols), d = (c + 1 + g.below(cols - 1)) % cols; for (int i = 0; i < rows; ++i) at(i, c) = T(2) * at(i, d); }
    if (cls == 1 && rows >= 2 && cols < 2) { for (int i = 0; i < rows; ++i) at(i, 0) = T(0); }
    if (cls == 2) { int c = g.below(cols); for (int i = 0; i < rows; ++i) at(i, c) = T(0); if (cols > 2 && g.coin()) for (int i = 0; i < rows; ++i) at(i, 0) = T(0); }
    dmat D(rows, cols); for (int i = 0; i < rows; ++i) for (int j = 0; j < cols; ++j) D(i, j) = qrt<T>::up(at(i, j));
    const int k = std::min(rows, cols);
    vr::obj o; o.str("k", "qr").str("vt", qrt<T>::name()).i("rows", rows).i("cols", cols).i("order", order).i("cls", cls);
    {
        std::vector<T> W(A);
        amgcl::detail::QR<T> qr;
        qr.factorize(rows, cols, W.data(), order == 0 ? amgcl::detail::row_major : amgcl::detail::col_major);
        dmat Q(rows, k), R(k, cols); bool lowzero = true, qtail = true;
        for (int i = 0; i < rows; ++i) for (int j = 0; j < cols; ++j) { if (j < k) Q(i, j) = qrt<T>::up(qr.Q(i, j)); else if (!(qr.Q(i, j) == T(0))) qtail = false; }
        for (int i = 0; i < k; ++i) for (int j = 0; j < cols; ++j) { R(i, j) = qrt<T>::up(qr.R(i, j)); if (j < i && !(qr.R(i, j) == T(0))) lowzero = false; }
        ld scale = std::max((ld)1e-300L, vd::max_abs(D));
        o.i("e_fact", md(vd::max_abs(vd::subm(vd::mul(Q, R), D)) / (cls == 3 ? 1 : scale)));
        o.i("e_orth", md(vd::max_abs(vd::subm(vd::mul(vd::adjoint(Q), Q), vd::ident(k)))));
        o.b("lowzero", lowzero).b("qtail", qtail);
    }
    // solve (full-rank classes only): least squares (tall / square) or minimum norm (wide)
    bool full = (cls == 0 || cls == 4 || cls == 5);
    ld cnd = full ? cond2(D) : 0;
    if (full && cnd < 1e6L) {
        std::vector<T> W(A), b(rows), x(cols, T(0));
        for (auto &v : b) v = qrt<T>::mk(g);
        dvec bd(rows); for (int i = 0; i < rows; ++i) bd[i] = qrt<T>::up(b[i]);
        amgcl::detail::QR<T> qr;
        qr.solve(rows, cols, W.data(), b.data(), x.data(), order == 0 ? amgcl::detail::row_major : amgcl::detail::col_major);
        dvec xd(cols); for (int j = 0; j < cols; ++j) xd[j] = qrt<T>::up(x[j]);
        dvec ref = eigen_lsq(D, bd);
        dvec rr = vd::sub(vd::mul(D, xd), bd);
        ld fa = vd::fro(D);
        // normal equations A^H (A x - b) = 0 (tall) / consistency A x = b and x in range(A^H) (wide: compared with the oracle)
        ld e_opt = rows >= cols ? vd::nrm2(vd::mul(vd::adjoint(D), rr)) / std::max((ld)1e-300L, fa * (fa * vd::nrm2(xd) + vd::nrm2(bd)))
                                : vd::nrm2(rr) / std::max((ld)1e-300L, fa * vd::nrm2(xd) + vd::nrm2(bd));
        ld e_x = vd::nrm2(vd::sub(xd, ref)) / std::max((ld)1e-300L, cnd * std::max(vd::nrm2(ref), (ld)1e-30L));
        o.i("solved", 1).i("e_opt", md(e_opt)).i("e_x", md(e_x)).i("cond", md(cnd));
    } else o.i("solved", 0).i("e_opt", -30000).i("e_x", -30000).i("cond", md(cnd));
    put(o);
}
// the static_matrix specialisation, observed on the scalar expansion
template <int N> static void qr_block_case(vr::rng &g, int rows, int cols, int order) {
    typedef static_matrix<double, N, N> V; typedef static_matrix<double, N, 1> Rv;
    std::vector<V> A((size_t)rows * cols);
    auto at = [&](int i, int j) -> V& { return order == 0 ? A[(size_t)i * cols + j] : A[(size_t)i + (size_t)j * rows]; };
    for (auto &v : A) for (int k = 0; k < N * N; ++k) v(k) = g.range(-4, 4) + g.unit();
    dmat D(rows * N, cols * N); for (int i = 0; i < rows; ++i) for (int j = 0; j < cols; ++j) for (int r = 0; r < N; ++r) for (int c = 0; c < N; ++c) D(i * N + r, j * N + c) = at(i, j)(r, c);
    const int k = std::min(rows, cols) * N;
    vr::obj o; o.str("k", "qr").str("vt", N == 2 ? "block2" : "block3").i("rows", rows * N).i("cols", cols * N).i("order", order).i("cls", 0);
    {
        std::vector<V> W(A); amgcl::detail::QR<V> qr;
        qr.factorize(rows, cols, W.data(), order == 0 ? amgcl::detail::row_major : amgcl::detail::col_major);
        dmat Q(rows * N, k), R(k, cols * N); bool lowzero = true;
        for (int i = 0; i < rows; ++i) for (int j = 0; j < cols; ++j) { V q = qr.Q(i, j); for (int r = 0; r < N; ++r) for (int c = 0; c < N; ++c) if (j * N + c < k) Q(i * N + r, j * N + c) = q(r, c); }
        for (int i = 0; i < std::min(rows, cols); ++i) for (int j = 0; j < cols; ++j) { V rv = qr.R(i, j); for (int r = 0; r < N; ++r) for (int c = 0; c < N; ++c) { R(i * N + r, j * N + c) = rv(r, c); if (j < i && rv(r, c) != 0) lowzero = false; } }
        for (int i = 0; i < k; ++i) for (int j = 0; j < i; ++j) if (std::abs(R(i, j)) > 1e-12L * vd::max_abs(D)) lowzero = false;   // inside diagonal blocks: to rounding
        o.i("e_fact", md(vd::max_abs(vd::subm(vd::mul(Q, R), D)) / vd::max_abs(D)));
        o.i("e_orth", md(vd::max_abs(vd::subm(vd::mul(vd::adjoint(Q), Q), vd::ident(k)))));
        o.b("lowzero", lowzero).b("qtail", true);
    }
    ld cnd = cond2(D);
    if (cnd < 1e6L) {
        std::vector<V> W(A); std::vector<Rv> b(rows), x(cols);
        for (auto &v : b) for (int r = 0; r < N; ++r) v(r) = g.range(-4, 4) + g.unit();
        for (auto &v : x) for (int r = 0; r < N; ++r) v(r) = 0;
        dvec bd(rows * N); for (int i = 0; i < rows; ++i) for (int r = 0; r < N; ++r) bd[i * N + r] = b[i](r);
        amgcl::detail::QR<V> qr;
        qr.solve(rows, cols, W.data(), b.data(), x.data(), order == 0 ? amgcl::detail::row_major : amgcl::detail::col_major);
        dvec xd(cols * N); for (int j = 0; j < cols; ++j) for (int r = 0; r < N; ++r) xd[j * N + r] = x[j](r);
        dvec ref = eigen_lsq(D, bd); dvec rr = vd::sub(vd::mul(D, xd), bd); ld fa = vd::fro(D);
        ld e_opt = rows >= cols ? vd::nrm2(vd::mul(vd::adjoint(D), rr)) / (fa * (fa * vd::nrm2(xd) + vd::nrm2(bd))) : vd::nrm2(rr) / (fa * vd::nrm2(xd) + vd::nrm2(bd));
        ld e_x = vd::nrm2(vd::sub(xd, ref)) / (cnd * std::max(vd::nrm2(ref), (ld)1e-30L));
        o.i("solved", 1).i("e_opt", md(e_opt)).i("e_x", md(e_x)).i("cond", md(cnd));
    } else o.i("solved", 0).i("e_opt", -30000).i("e_x", -30000).i("cond", md(cnd));
    put(o);
}
// QR::solve through the strided entry point on a sub-matrix view of a larger array (leading dimension ld > size,
// as amgcl/solver/bicgstabl.hpp uses it): the solution must be the least-squares / minimum-norm solution of the
// view, and no element of the surrounding array may change.  off: offset of the view's (0,0) in the array.
template <class T> static void qr_view_case(vr::rng &g, int rows, int cols, int order, int pad) {
    const int lead = (order == 0 ? cols : rows) + pad;                 // row major: row_stride = ld, col major: col_stride = ld
    const int rs = order == 0 ? lead : 1, cs = order == 0 ? 1 : lead;
    const int lines = (order == 0 ? rows : cols) + 2;                // one spare line before and after the view
    const int off = lead + (pad > 1 ? 1 : 0);
    std::vector<T> W((size_t)lines * lead + 2);
    for (auto &v : W) v = qrt<T>::mk(g);                             // the surrounding array holds live data
    std::vector<char> inview(W.size(), 0);
    dmat D(rows, cols);
    for (int i = 0; i < rows; ++i) for (int j = 0; j < cols; ++j) { size_t k = off + (size_t)i * rs + (size_t)j * cs; inview[k] = 1; D(i, j) = qrt<T>::up(W[k]); }
    std::vector<T> W0(W), b(rows), x(cols, T(0));
    for (auto &v : b) v = qrt<T>::mk(g);
    dvec bd(rows); for (int i = 0; i < rows; ++i) bd[i] = qrt<T>::up(b[i]);
    ld cnd = cond2(D);
    vr::obj o; o.str("k", "qrview").str("vt", qrt<T>::name()).i("rows", rows).i("cols", cols).i("order", order).i("ld", lead).i("pad", pad);
    if (cnd < 1e6L) {
        amgcl::detail::QR<T> qr;
        qr.solve(rows, cols, rs, cs, W.data() + off, b.data(), x.data(), false);
        bool outside = true;
        for (size_t k = 0; k < W.size(); ++k) if (!inview[k] && std::memcmp(&W[k], &W0[k], sizeof(T)) != 0) outside = false;
        dvec xd(cols); for (int j = 0; j < cols; ++j) xd[j] = qrt<T>::up(x[j]);
        dvec ref = eigen_lsq(D, bd); dvec rr = vd::sub(vd::mul(D, xd), bd); ld fa = vd::fro(D);
        ld e_opt = rows >= cols ? vd::nrm2(vd::mul(vd::adjoint(D), rr)) / std::max((ld)1e-300L, fa * (fa * vd::nrm2(xd) + vd::nrm2(bd)))
                                : vd::nrm2(rr) / std::max((ld)1e-300L, fa * vd::nrm2(xd) + vd::nrm2(bd));
        ld e_x = vd::nrm2(vd::sub(xd, ref)) / std::max((ld)1e-300L, cnd * std::max(vd::nrm2(ref), (ld)1e-30L));
        if (!vd::all_finite(xd)) { e_opt = 1e30L; e_x = 1e30L; }
        o.i("solved", 1).i("e_opt", md(e_opt)).i("e_x", md(e_x)).i("cond", md(cnd)).b("outside", outside);
    } else o.i("solved", 0).i("e_opt", -30000).i("e_x", -30000).i("cond", md(cnd)).b("outside", true);
    put(o);
}
static void mode_qr(uint64_t seed, bool th) {
    vr::rng g(seed + 1650);
    int smax = 12;
    for (int rows = 1; rows <= smax; ++rows) for (int cols = 1; cols <= smax; ++cols) for (int order = 0; order < 2; ++order) {
        bool dense_grid = th || (rows <= 5 && cols <= 5) || ((rows * 7 + cols * 3 + (int)seed) % 4 == 0);
        if (!dense_grid) continue;
        for (int cls = 0; cls < 6; ++cls) {
            if (!th && cls >= 1 && cls != 5 && (rows + cols + cls) % 2) continue;
            qr_case<double>(g, rows, cols, order, cls);
            if (cls != 4 || th) qr_case<std::complex<double>>(g, rows, cols, order, cls);
        }
        if (rows <= 4 && cols <= 4) { qr_block_case<2>(g, rows, cols, order); if (rows <= 3 && cols <= 3) qr_block_case<3>(g, rows, cols, order); }
    }
    // sub-matrix views: square, tall and wide, both orders, real and complex
    int vmax = th ? 8 : 6;
    for (int rows = 1; rows <= vmax; ++rows) for (int cols = 1; cols <= vmax; ++cols) for (int order = 0; order < 2; ++order) for (int pad = 0; pad <= 3; ++pad) {
        if (!th && pad == 2 && rows != cols) continue;
        qr_view_case<double>(g, rows, cols, order, pad);
        qr_view_case<std::complex<double>>(g, rows, cols, order, pad);
    }
}

// ---------------------------------------------------------------- call histories on ONE object (mode reuse)
// The library reuses its kernels: one QR object per thread over all aggregates, one skyline_lu for every coarse
// solve, work buffers of detail::inverse.  Every call of a history is compared bitwise with the same call on a
// fresh object (a call must overwrite whatever scratch it reads) and with the definition.
template <class T> struct qr_result { std::vector<T> out; };     // Q then R (factorize), R (compute), x (solve)
template <class T> static bool same_bits(const std::vector<T> &a, const std::vector<T> &b) { return a.size() == b.size() && (a.empty() || std::memcmp(a.data(), b.data(), sizeof(T) * a.size()) == 0); }
// op: 0 factorize (+Q, R), 2 solve, 3 compute then solve(computed = true) (tall / square only); (1 = compute + R is not
// a valid use: the accessors take their strides from factorize())
template <class T> static std::vector<T> qr_call(amgcl::detail::QR<T> &qr, int op, int rows, int cols, int order, std::vector<T> W, const std::vector<T> &b) {
    auto so = order == 0 ? amgcl::detail::row_major : amgcl::detail::col_major;
    std::vector<T> out; const int k = std::min(rows, cols);
    if (op == 0) { qr.factorize(rows, cols, W.data(), so); for (int i = 0; i < rows; ++i) for (int j = 0; j < cols; ++j) out.push_back(qr.Q(i, j)); for (int i = 0; i < k; ++i) for (int j = 0; j < cols; ++j) out.push_back(qr.R(i, j)); }
    else if (op == 1) { qr.compute(rows, cols, W.data(), so); for (int i = 0; i < k; ++i) for (int j = 0; j < cols; ++j) out.push_back(qr.R(i, j)); }
    else { std::vector<T> x(cols, T(0)); if (op == 3) qr.compute(rows, cols, W.data(), so); qr.solve(rows, cols, W.data(), b.data(), x.data(), so, op == 3); out = x; }
    return out;
}
template <class T> static void qr_history(vr::rng &g, int steps, int smax) {
    amgcl::detail::QR<T> reused;
    int prows = 0, pcols = 0, pop = -1;
    for (int st = 0; st < steps; ++st) {
        int rows, cols;
        switch (st % 6) {                                  // larger then smaller, smaller then larger, tall then wide, ...
            case 0: rows = g.range(3, smax); cols = g.range(2, rows); break;                 // tall / square, >= 2 columns
            case 1: rows = g.range(2, std::max(2, prows - 1)); cols = g.range(2, std::max(2, std::min(rows, pcols))); break;   // smaller
            case 2: rows = g.range(2, smax); cols = g.range(rows, smax); break;              // wide / square
            case 3: rows = smax - g.below(2); cols = smax - g.below(3); break;               // large
            case 4: rows = g.range(1, 3); cols = g.range(1, 3); break;                       // tiny
            default: rows = g.range(2, smax); cols = g.range(2, smax); break;
        }
        int order = g.below(2), op = g.below(4); if (op == 1) op = 0; if (op == 3 && rows < cols) op = 2;   // R() / Q() are defined after factorize() only
        std::vector<T> A((size_t)rows * cols), b(rows);
        auto at = [&](int i, int j) -> T& { return order == 0 ? A[(size_t)i * cols + j] : A[(size_t)i + (size_t)j * rows]; };
        for (auto &v : A) v = qrt<T>::mk(g); for (auto &v : b) v = qrt<T>::mk(g);
        dmat D(rows, cols); for (int i = 0; i < rows; ++i) for (int j = 0; j < cols; ++j) D(i, j) = qrt<T>::up(at(i, j));
        const int k = std::min(rows, cols);
        amgcl::detail::QR<T> fresh;
        std::vector<T> got = qr_call<T>(reused, op, rows, cols, order, A, b), want = qr_call<T>(fresh, op, rows, cols, order, A, b);
        vr::obj o; o.str("k", "qrreuse").str("vt", qrt<T>::name()).i("step", st).i("op", op).i("rows", rows).i("cols", cols).i("order", order)
                    .i("prows", prows).i("pcols", pcols).i("pop", pop).b("fresh", same_bits(got, want));
        ld e_fact = 0, e_orth = 0, e_opt = 0, e_x = 0; bool lowzero = true, qtail = true; int solved = 0;
        if (op <= 1) {
            size_t base = op == 0 ? (size_t)rows * cols : 0;
            dmat R(k, cols); for (int i = 0; i < k; ++i) for (int j = 0; j < cols; ++j) { R(i, j) = qrt<T>::up(got[base + (size_t)i * cols + j]); if (j < i && !(got[base + (size_t)i * cols + j] == T(0))) lowzero = false; }
            if (op == 0) {
                dmat Q(rows, k); for (int i = 0; i < rows; ++i) for (int j = 0; j < cols; ++j) { if (j < k) Q(i, j) = qrt<T>::up(got[(size_t)i * cols + j]); else if (!(got[(size_t)i * cols + j] == T(0))) qtail = false; }
                e_fact = vd::max_abs(vd::subm(vd::mul(Q, R), D)) / std::max((ld)1e-300L, vd::max_abs(D));
                e_orth = vd::max_abs(vd::subm(vd::mul(vd::adjoint(Q), Q), vd::ident(k)));
            } else {
                // R alone: R^H R = A^H A (leading k columns / the Gram matrix of A), scale ||A||_F^2
                dmat G1 = vd::mul(vd::adjoint(R), R), G2 = vd::mul(vd::adjoint(D), D);
                e_fact = vd::max_abs(vd::subm(G1, G2)) / std::max((ld)1e-300L, vd::fro(D) * vd::fro(D));
            }
        } else {
            ld cnd = cond2(D);
            if (cnd < 1e6L) {
                solved = 1; dvec bd(rows), xd(cols); for (int i = 0; i < rows; ++i) bd[i] = qrt<T>::up(b[i]); for (int j = 0; j < cols; ++j) xd[j] = qrt<T>::up(got[j]);
                dvec ref = eigen_lsq(D, bd), rr = vd::sub(vd::mul(D, xd), bd); ld fa = vd::fro(D);
                e_opt = rows >= cols ? vd::nrm2(vd::mul(vd::adjoint(D), rr)) / std::max((ld)1e-300L, fa * (fa * vd::nrm2(xd) + vd::nrm2(bd))) : vd::nrm2(rr) / std::max((ld)1e-300L, fa * vd::nrm2(xd) + vd::nrm2(bd));
                e_x = vd::nrm2(vd::sub(xd, ref)) / std::max((ld)1e-300L, cnd * std::max(vd::nrm2(ref), (ld)1e-30L));
                if (!vd::all_finite(xd)) e_opt = e_x = 1e30L;
            }
        }
        o.i("e_fact", md(e_fact)).i("e_orth", md(e_orth)).b("lowzero", lowzero).b("qtail", qtail).i("solved", solved).i("e_opt", md(e_opt)).i("e_x", md(e_x));
        put(o);
        prows = rows; pcols = cols; pop = op;
    }
}
// the static_matrix specialisation keeps a scalar QR (base) and a scalar buffer: factorize histories on one object
template <int N> static void qr_block_history(vr::rng &g, int steps) {
    typedef static_matrix<double, N, N> V;
    amgcl::detail::QR<V> reused; int prows = 0, pcols = 0;
    for (int st = 0; st < steps; ++st) {
        int rows = g.range(1, 4), cols = g.range(1, 4), order = g.below(2);
        if (st % 3 == 0) { rows = 4; cols = g.range(2, 4); } if (st % 3 == 1) { rows = g.range(2, 3); cols = 2; }
        std::vector<V> A((size_t)rows * cols); for (auto &v : A) for (int k = 0; k < N * N; ++k) v(k) = g.range(-4, 4) + g.unit();
        auto at = [&](int i, int j) -> V& { return order == 0 ? A[(size_t)i * cols + j] : A[(size_t)i + (size_t)j * rows]; };
        dmat D(rows * N, cols * N); for (int i = 0; i < rows; ++i) for (int j = 0; j < cols; ++j) for (int r = 0; r < N; ++r) for (int c = 0; c < N; ++c) D(i * N + r, j * N + c) = at(i, j)(r, c);
        const int k = std::min(rows, cols) * N;
        auto call = [&](amgcl::detail::QR<V> &qr) { std::vector<V> W(A); qr.factorize(rows, cols, W.data(), order == 0 ? amgcl::detail::row_major : amgcl::detail::col_major);
            std::vector<double> out; for (int i = 0; i < rows; ++i) for (int j = 0; j < cols; ++j) { V q = qr.Q(i, j); out.insert(out.end(), q.buf.begin(), q.buf.end()); }
            for (int i = 0; i < std::min(rows, cols); ++i) for (int j = 0; j < cols; ++j) { V r = qr.R(i, j); out.insert(out.end(), r.buf.begin(), r.buf.end()); } return out; };
        amgcl::detail::QR<V> fresh; std::vector<double> got = call(reused), want = call(fresh);
        dmat Q(rows * N, k), R(k, cols * N); size_t pos = 0;
        for (int i = 0; i < rows; ++i) for (int j = 0; j < cols; ++j) for (int r = 0; r < N; ++r) for (int c = 0; c < N; ++c, ++pos) if (j * N + c < k) Q(i * N + r, j * N + c) = got[pos];
        for (int i = 0; i < std::min(rows, cols); ++i) for (int j = 0; j < cols; ++j) for (int r = 0; r < N; ++r) for (int c = 0; c < N; ++c, ++pos) R(i * N + r, j * N + c) = got[pos];
        vr::obj o; o.str("k", "qrreuse").str("vt", N == 2 ? "block2" : "block3").i("step", st).i("op", 0).i("rows", rows * N).i("cols", cols * N).i("order", order)
                    .i("prows", prows).i("pcols", pcols).i("pop", st ? 0 : -1).b("fresh", same_bits(got, want));
        o.i("e_fact", md(vd::max_abs(vd::subm(vd::mul(Q, R), D)) / vd::max_abs(D))).i("e_orth", md(vd::max_abs(vd::subm(vd::mul(vd::adjoint(Q), Q), vd::ident(k)))))
         .b("lowzero", true).b("qtail", true).i("solved", 0).i("e_opt", -30000).i("e_x", -30000);
        put(o); prows = rows * N; pcols = cols * N;
    }
}
// skyline_lu: one factorisation, operator() with a sequence of right-hand sides (the work vector y is a mutable member)
template <class V> static void sky_history(vr::rng &g, const backend::crs<V, ptrdiff_t, ptrdiff_t> &A, int steps) {
    typedef typename vd::vt<V>::rhs rhs; const int B = vd::vt<V>::B; const size_t n = A.nrows;
    solver::skyline_lu<V> reused(A);
    dmat D = vd::dense_of(A);
    const char *names[6] = {"rand", "unit", "zero", "leadzero", "unitlast", "big"};
    for (int st = 0; st < steps; ++st) {
        int kind = st % 6; dvec fd(n * B, cld(0, 0));
        if (kind == 0) for (auto &z : fd) z = cld(g.range(-3, 3), 0);
        if (kind == 1) fd[g.below((int)(n * B))] = 1;
        if (kind == 3) for (size_t i = n * B / 2; i < n * B; ++i) fd[i] = cld(g.range(1, 3), 0);
        if (kind == 4) fd[n * B - 1] = 1;
        if (kind == 5) for (auto &z : fd) z = cld(g.range(-3, 3) * 1024.0, 0);
        std::vector<rhs> f(n), x(n), xf(n);
        for (size_t i = 0; i < n; ++i) for (int r = 0; r < B; ++r) { vd::vt<V>::rset(f[i], r, fd[i * B + r]); vd::vt<V>::rset(x[i], r, cld(-9, 0)); vd::vt<V>::rset(xf[i], r, cld(5, 0)); }
        reused(f, x);
        solver::skyline_lu<V> fresh(A); fresh(f, xf);
        bool same = std::memcmp(x.data(), xf.data(), sizeof(rhs) * n) == 0;
        dvec xd = vd::dense_vec<V>(x, n); bool ok; dvec ref = vd::solve(D, fd, ok);
        bool exactzero = true; if (kind == 2) for (auto &z : xd) if (!(z == cld(0, 0))) exactzero = false;
        vr::obj o; o.str("k", "skyreuse").str("vtag", vd::vt<V>::name()).i("n", n).i("step", st).str("rhs", names[kind]).b("fresh", same).b("finite", vd::all_finite(xd))
                    .b("zero_in_zero_out", exactzero).i("err", md(vd::rel_diff(xd, ref)));
        put(o);
    }
}
// detail::inverse with one pair of work buffers (t, p) reused for matrices of changing size
template <class T> static void inv_history(vr::rng &g, int steps) {
    std::vector<T> t(64, qrt<T>::mk(g)); std::vector<int> p(8, 7);
    for (int st = 0; st < steps; ++st) {
        int n = (st % 4 == 0) ? g.range(5, 8) : (st % 4 == 1) ? g.range(1, 3) : g.range(2, 6);
        std::vector<T> A((size_t)n * n); for (auto &v : A) v = T(g.range(-3, 3)) + qrt<T>::mk(g) * T(0.125); if (g.coin(0.4)) A[0] = T(0);
        dmat D(n, n); for (int i = 0; i < n; ++i) for (int j = 0; j < n; ++j) D(i, j) = qrt<T>::up(A[i * n + j]);
        bool ok; dmat Rf = vd::inverse(D, ok); if (!ok || vd::max_abs(Rf) > 1e4) continue;
        std::vector<T> A1(A), A2(A), t2((size_t)n * n); std::vector<int> p2(n);
        amgcl::detail::inverse(n, A1.data(), t.data(), p.data());
        amgcl::detail::inverse(n, A2.data(), t2.data(), p2.data());
        dmat Di(n, n); for (int i = 0; i < n; ++i) for (int j = 0; j < n; ++j) Di(i, j) = qrt<T>::up(A1[i * n + j]);
        ld e1 = vd::max_abs(vd::subm(vd::mul(D, Di), vd::ident(n))), e2 = vd::max_abs(vd::subm(vd::mul(Di, D), vd::ident(n)));
        vr::obj o; o.str("k", "invreuse").str("vt", qrt<T>::name()).i("n", n).i("step", st).b("fresh", same_bits(A1, A2)).b("finite", vd::all_finite(Di))
                    .i("eres", md(std::max(e1, e2) / std::max((ld)1, vd::max_abs(Di) * vd::max_abs(D))));
        put(o);
    }
}
static void mode_reuse(uint64_t seed, bool th) {
    vr::rng g(seed + 1688); int rounds = th ? 12 : 3;
    for (int r = 0; r < rounds; ++r) {
        qr_history<double>(g, 24, 6 + r % 3 * 3); qr_history<std::complex<double>>(g, 24, 6 + r % 3 * 3);
        qr_block_history<2>(g, 9); qr_block_history<3>(g, 6);
        for (int kind = 0; kind < 5; ++kind) {
            int n = g.range(2, th ? 40 : 20); auto S = random_skeleton(g, n, kind);
            sky_history<double>(g, *S, 12);
            { auto C = vd::typed<std::complex<double>>(*S, g, true); sky_history<std::complex<double>>(g, *C, 6); }
            if (n <= 14) { auto Bm = vd::typed<static_matrix<double,2,2>>(*S, g, true); sky_history<static_matrix<double,2,2>>(g, *Bm, 6); }
        }
        inv_history<double>(g, 24); inv_history<std::complex<double>>(g, 24);
    }
}

// ---------------------------------------------------------------- long thin graphs (mode long)
// Graphs with hundreds to tens of thousands of BFS level sets (chains, narrow strips, combs): the level-set number
// kept per node grows with the graph diameter.  Orderings are judged as permutations, skyline_lu on them through the
// exact solution (integer xs, f = A xs exact; O(nnz) checks).  perm gets slack so that an overrun is seen, not fatal.
static std::shared_ptr<crsd> long_graph(const std::string &fam, int len, vr::rng &g) {
    std::vector<std::pair<int,int>> edges; int n = 0;
    if (fam == "chain") { n = len; for (int i = 0; i + 1 < n; ++i) edges.push_back({i, i + 1}); }
    else if (fam == "strip3") { n = len * 3; for (int i = 0; i < len; ++i) for (int j = 0; j < 3; ++j) { int k = i * 3 + j; if (j + 1 < 3) edges.push_back({k, k + 1}); if (i + 1 < len) edges.push_back({k, k + 3}); } }
    else if (fam == "comb") { n = len * 4; for (int i = 0; i < len; ++i) { int k = i * 4; if (i + 1 < len) edges.push_back({k, k + 4}); for (int t = 0; t < 3; ++t) edges.push_back({k + t, k + t + 1}); } }
    else if (fam == "twochains") { n = 2 * len; for (int i = 0; i + 1 < len; ++i) { edges.push_back({i, i + 1}); edges.push_back({len + i, len + i + 1}); } }
    else if (fam == "square") { n = len * len; for (int i = 0; i < len; ++i) for (int j = 0; j < len; ++j) { int k = i * len + j; if (j + 1 < len) edges.push_back({k, k + 1}); if (i + 1 < len) edges.push_back({k, k + len}); } }
    else /* chainmid: a chain whose numbering starts in the middle (node 0 has two neighbours) */ { n = len; std::vector<int> id(n); int h = n / 2; for (int i = 0; i < n; ++i) id[i] = (i >= h) ? i - h : n - 1 - i; for (int i = 0; i + 1 < n; ++i) edges.push_back({id[i], id[i + 1]}); }
    std::vector<std::vector<std::pair<int,double>>> rows(n);
    for (auto &e : edges) { int w = g.range(1, 3); rows[e.first].push_back({e.second, -(double)w}); rows[e.second].push_back({e.first, -(double)(g.coin(0.3) ? w : g.range(1, 3))}); }
    for (int i = 0; i < n; ++i) { double sa = 0; for (auto &e : rows[i]) sa += std::fabs(e.second); rows[i].push_back({i, sa + 1}); std::sort(rows[i].begin(), rows[i].end()); }
    return vr::from_rows(n, n, rows);
}
static bool is_perm(const int *p, int n) { std::vector<char> seen(n, 0); for (int i = 0; i < n; ++i) { if (p[i] < 0 || p[i] >= n || seen[p[i]]) return false; seen[p[i]] = 1; } return true; }
template <bool rev> static void long_case(const std::string &fam, int len, vr::rng &g, bool with_sky) {
    auto A = long_graph(fam, len, g); const int n = A->nrows;
    {
        std::vector<int> perm(2 * n + 16, -7);
        vr::obj o; o.str("k", "cmlong").str("fam", fam).i("n", n).b("rev", rev);
        try { reorder::cuthill_mckee<rev>::get(*A, perm);
              bool slack = true; for (size_t k = n; k < perm.size(); ++k) if (perm[k] != -7) slack = false;
              o.i("exc", 0).b("permok", is_perm(perm.data(), n)).b("noverrun", slack);
              if (n <= 1300) o.ints("perm", perm.begin(), perm.begin() + n); else o.raw("perm", "[]"); }
        catch (const std::exception &e) { o.i("exc", 1).str("what", e.what()).b("permok", false).b("noverrun", true).raw("perm", "[]"); }
        put(o);
    }
    if (!with_sky) return;
    std::vector<double> xs(n), f(n, 0.0), x(n, 0.0);
    for (auto &v : xs) v = g.range(-3, 3);
    for (int i = 0; i < n; ++i) for (ptrdiff_t p = A->ptr[i]; p < A->ptr[i+1]; ++p) f[i] += A->val[p] * xs[A->col[p]];
    vr::obj o; o.str("k", "skylong").str("fam", fam).i("n", n).b("rev", rev);
    try {
        solver::skyline_lu<double, reorder::cuthill_mckee<rev>> S(*A); S(f, x);
        ld res = 0, fn = 0, err = 0, xn = 1; bool fin = true;
        for (int i = 0; i < n; ++i) { ld r = -(ld)f[i]; for (ptrdiff_t p = A->ptr[i]; p < A->ptr[i+1]; ++p) r += (ld)A->val[p] * x[A->col[p]]; res = vd::amax(res, std::fabs(r)); fn = std::max(fn, (ld)std::fabs(f[i]));
            err = vd::amax(err, std::fabs((ld)x[i] - xs[i])); xn = std::max(xn, (ld)std::fabs(xs[i])); if (!std::isfinite(x[i])) fin = false; }
        o.i("exc", 0).b("permok", is_perm(S.perm.data(), n)).b("finite", fin).i("res", md(res / std::max((ld)1, fn))).i("err", md(err / xn));
    } catch (const std::exception &e) { o.i("exc", 1).str("what", e.what()).b("permok", false).b("finite", false).i("res", 30000).i("err", 30000); }
    put(o);
}
static void mode_long(uint64_t seed, bool th) {
    vr::rng g(seed + 1711);
    struct { const char *fam; int len; bool sky; } cases[] = {
        {"chain", 250, true}, {"chain", 257, true}, {"chain", 300, true}, {"chain", 1000, true}, {"chain", 70000, false},
        {"strip3", 400, true}, {"comb", 300, true}, {"twochains", 400, true}, {"chainmid", 600, true}, {"chainmid", 1100, true}, {"square", 20, true},
        {"chain", 513, true}, {"strip3", 90, true}};
    for (auto &c : cases) { long_case<false>(c.fam, c.len, g, c.sky); long_case<true>(c.fam, c.len, g, c.sky); }
    int extra = th ? 12 : 3;
    for (int r = 0; r < extra; ++r) { int len = g.range(258, th ? 3000 : 900); const char *fams[4] = {"chain", "chainmid", "comb", "strip3"}; const char *fam = fams[g.below(4)];
        if (std::string(fam) == "strip3" || std::string(fam) == "comb") len = std::max(260, len / 3);
        long_case<false>(fam, len, g, true); long_case<true>(fam, len, g, true); }
}

// ---------------------------------------------------------------- static_matrix with complex elements (Gaussian integers)
template <int N, int K, int M> static void smc_case(vr::rng &g, int vmax) {
    typedef std::complex<double> C;
    static_matrix<C, N, K> a, a2; static_matrix<C, K, M> b; static_matrix<C, K, 1> u; static_matrix<C, N, 1> v;
    auto rc = [&]() { return C(g.range(-vmax, vmax), g.range(-vmax, vmax)); };
    for (int k = 0; k < N * K; ++k) { a(k) = rc(); a2(k) = rc(); } for (int k = 0; k < K * M; ++k) b(k) = rc();
    for (int k = 0; k < K; ++k) u(k) = rc(); for (int k = 0; k < N; ++k) v(k) = rc();
    auto adj = math::adjoint(a); auto mulr = a * b; auto adjmul = math::adjoint(mulr);
    auto inn = math::inner_product(a, a2);                       // K x K (a scalar for K = 1)
    C axv = math::inner_product(a * u, v);                       // <A u, v>
    C uahv = math::inner_product(u, adj * v);                    // <u, A^H v>
    auto aha = adj * a; C tr = 0; for (int i = 0; i < K; ++i) tr += aha(i, i);
    double nrm = math::norm(a);
    auto parts = [](const C *p, int n, bool im) { std::vector<double> r(n); for (int i = 0; i < n; ++i) r[i] = im ? p[i].imag() : p[i].real(); return r; };
    vr::obj o; o.str("k", "smc").i("N", N).i("K", K).i("M", M);
    #define CPL(name, ptr, n) o.dbls(name "_re", parts(ptr, n, false)).dbls(name "_im", parts(ptr, n, true))
    CPL("a", a.data(), N * K); CPL("a2", a2.data(), N * K); CPL("b", b.data(), K * M); CPL("u", u.data(), K); CPL("v", v.data(), N);
    CPL("adj", adj.data(), N * K); CPL("mul", mulr.data(), N * M); CPL("adjmul", adjmul.data(), N * M);
    { std::vector<C> iv = cflat(inn); CPL("inner", iv.data(), (int)iv.size()); }
    CPL("axv", &axv, 1); CPL("uahv", &uahv, 1); CPL("tr", &tr, 1);
    #undef CPL
    o.d("norm2", std::rint(nrm * nrm)).b("normok", std::fabs(nrm * nrm - std::rint(nrm * nrm)) < 1e-9);
    put(o);
}
static void mode_smc(uint64_t seed, bool th) {
    vr::rng g(seed + 1722); int reps = th ? 400 : 80;
    for (int r = 0; r < reps; ++r) { smc_case<2,2,2>(g, 3); smc_case<3,3,3>(g, 2); smc_case<2,3,2>(g, 3); smc_case<3,2,4>(g, 3); smc_case<1,1,1>(g, 9); smc_case<4,1,1>(g, 3); smc_case<3,1,2>(g, 3); smc_case<4,4,1>(g, 2); smc_case<1,3,1>(g, 3); }
}

int main(int argc, char **argv) {
    vr::install_terminate();
    std::string mode = argc > 1 ? argv[1] : "small";
    uint64_t seed = vr::env_seed(); bool th = vr::thorough();
    if (mode == "small") mode_small(th);
    else if (mode == "random") mode_random(seed, vr::env_int("VERIF_REPS", th ? 300 : 60), vr::env_int("VERIF_NMAX", th ? 60 : 30));
    else if (mode == "inverse") mode_inverse(seed, th);
    else if (mode == "sm") mode_sm(seed, th);
    else if (mode == "qr") mode_qr(seed, th);
    else if (mode == "reuse") mode_reuse(seed, th);
    else if (mode == "long") mode_long(seed, th);
    else if (mode == "smc") mode_smc(seed, th);
    vr::obj o; o.str("e", "End"); vr::emit(o.done());
    return 0;
}
