// C15 replayer: steps real solver / preconditioner objects through the call histories that
// TLC generated from spec/SolverObject.tla (file argument: one history per line, kinds
// separated by commas) and compares every call, bitwise, with the same call on a freshly
// constructed object.  mode "ops" additionally streams the backend primitives of whole
// histories (hooks H2/H3) for the NoLeak freshness monitor.  Judged by spec/C15Trace.tla.
//
// usage: replay_objects hist <file> | ops <file>
#include <opstream.hpp>
#include <amgcl/amg.hpp>
#include <amgcl/make_solver.hpp>
#include <amgcl/adapter/crs_tuple.hpp>
#include <amgcl/coarsening/smoothed_aggregation.hpp>
#include <amgcl/coarsening/ruge_stuben.hpp>
#include <amgcl/relaxation/spai0.hpp>
#include <amgcl/relaxation/damped_jacobi.hpp>
#include <amgcl/relaxation/ilu0.hpp>
#include <amgcl/relaxation/gauss_seidel.hpp>
#include <amgcl/relaxation/chebyshev.hpp>
#include <amgcl/relaxation/as_preconditioner.hpp>
#include <amgcl/solver/cg.hpp>
#include <amgcl/solver/bicgstab.hpp>
#include <amgcl/solver/bicgstabl.hpp>
#include <amgcl/solver/gmres.hpp>
#include <amgcl/solver/fgmres.hpp>
#include <amgcl/solver/lgmres.hpp>
#include <amgcl/solver/idrs.hpp>
#include <amgcl/solver/richardson.hpp>
#include <amgcl/solver/preonly.hpp>
#include <amgcl/solver/skyline_lu.hpp>
#include <fstream>
#include <limits>

using vr::crsd;
typedef amgcl::backend::builtin<double> B;
typedef std::vector<double> vec;
typedef amgcl::amg<B, amgcl::coarsening::smoothed_aggregation, amgcl::relaxation::spai0> AMG1;
typedef amgcl::amg<B, amgcl::coarsening::ruge_stuben, amgcl::relaxation::ilu0> AMG2;
typedef amgcl::amg<B, amgcl::coarsening::smoothed_aggregation, amgcl::relaxation::chebyshev> AMG3;

static vr::opstream S;

struct problem {
    std::shared_ptr<crsd> A, A2, Abad, Ar, Aun; vec f1, f2, guess, xstar, fnan, zero, funit; int n;
};
// exact solution of A x = f by dense elimination in long double
static vec dense_solve(const crsd &A, const vec &f) {
    int n = A.nrows;
    std::vector<long double> M((size_t)n * n, 0.0L), b(f.begin(), f.end());
    for (int i = 0; i < n; ++i) for (ptrdiff_t q = A.ptr[i]; q < A.ptr[i+1]; ++q) M[(size_t)i * n + A.col[q]] += A.val[q];
    for (int k = 0; k < n; ++k) { for (int i = k + 1; i < n; ++i) { long double m = M[(size_t)i*n+k] / M[(size_t)k*n+k]; if (m == 0) continue; for (int j = k; j < n; ++j) M[(size_t)i*n+j] -= m * M[(size_t)k*n+j]; b[i] -= m * b[k]; } }
    vec x(n); for (int i = n - 1; i >= 0; --i) { long double t = b[i]; for (int j = i + 1; j < n; ++j) t -= M[(size_t)i*n+j] * x[j]; x[i] = (double)(t / M[(size_t)i*n+i]); }
    return x;
}
static problem make_problem(vr::rng &g) {
    problem p; p.A = vr::poisson2d(g.range(7, 10), g.range(6, 9)); p.n = p.A->nrows;
    p.A2 = std::make_shared<crsd>(*p.A); for (size_t i = 0; i < p.A2->nrows; ++i) for (ptrdiff_t q = p.A2->ptr[i]; q < p.A2->ptr[i+1]; ++q) if (p.A2->col[q] == (ptrdiff_t)i) p.A2->val[q] += 0.5 + (i % 3) * 0.25;
    p.Abad = std::make_shared<crsd>(*p.A); for (size_t i = 0; i < p.Abad->nrows; ++i) for (ptrdiff_t q = p.Abad->ptr[i]; q < p.Abad->ptr[i+1]; ++q) if (p.Abad->col[q] == (ptrdiff_t)i) p.Abad->val[q] -= 4.05;   // strongly indefinite: the methods stagnate or break down
    int n = p.n; p.f1.resize(n); p.f2.resize(n); p.guess.resize(n); p.zero.assign(n, 0.0);
    for (int i = 0; i < n; ++i) { p.f1[i] = g.unit() + 0.1; p.f2[i] = std::sin(0.37 * i) + g.unit(); p.guess[i] = g.unit() - 0.5; }
    p.fnan = p.f1; p.fnan[n / 2] = std::nan("");
    p.funit.assign(n, 0.0); p.funit[(2 * n) / 3] = 1.0;      // point source: exactly zero almost everywhere
    p.xstar = dense_solve(*p.A, p.f1);
    // the matrix a "rebuild" call switches to: 4 A.  rebuild() keeps the transfer operators of the hierarchy, so
    // only for a matrix whose transfer operators are the same (an exact power-of-two multiple) is the rebuilt
    // object required to act like a freshly constructed one, bit for bit
    p.Ar = std::make_shared<crsd>(*p.A); for (ptrdiff_t q = 0; q < (ptrdiff_t)p.Ar->nnz; ++q) p.Ar->val[q] *= 4.0;
    // ... and the system matrix once more with every row stored diagonal-first (valid CRS, rows not sorted):
    // handed over by shared_ptr, which amg uses as it is and must not modify
    p.Aun = std::make_shared<crsd>(*p.A);
    for (size_t i = 0; i < p.Aun->nrows; ++i) for (ptrdiff_t q = p.Aun->ptr[i]; q < p.Aun->ptr[i+1]; ++q) if (p.Aun->col[q] == (ptrdiff_t)i) {
        for (ptrdiff_t t = q; t > p.Aun->ptr[i]; --t) { std::swap(p.Aun->col[t], p.Aun->col[t-1]); std::swap(p.Aun->val[t], p.Aun->val[t-1]); } break; }
    return p;
}

static problem rebuilt(const problem &p) { problem r = p; r.A = p.Ar; r.Ar = p.A; r.xstar = dense_solve(*r.A, r.f1); return r; }

template <class P> static auto try_rebuild(P &q, const crsd &A, int) -> decltype(q.rebuild(A), bool()) { q.rebuild(A); return true; }
template <class P> static bool try_rebuild(P &, const crsd &, long) { return false; }
template <class P> static auto allow_rebuild(P &q, int) -> decltype((void)q.allow_rebuild) { q.allow_rebuild = true; }
template <class P> static void allow_rebuild(P &, long) {}

static bool g_relax_coarse = false;     // build the next preconditioner with direct_coarse = false
template <class P> static auto relaxcoarse(P &q, int) -> decltype((void)q.direct_coarse) { q.direct_coarse = !g_relax_coarse; }
template <class P> static void relaxcoarse(P &, long) {}

// multi-level hierarchies even on these small problems
template <class P> static auto pprm(int) -> decltype((void)typename P::params().coarse_enough, typename P::params()) { typename P::params q; q.coarse_enough = 8; relaxcoarse(q, 0); allow_rebuild(q, 0); return q; }
template <class P> static typename P::params pprm(long) { return typename P::params(); }

struct outcome { vec x; size_t it = 0; double res = 0; bool threw = false; };
static bool same(const outcome &a, const outcome &b) {
    return a.threw == b.threw && a.it == b.it && std::memcmp(&a.res, &b.res, 8) == 0 && a.x.size() == b.x.size() && std::memcmp(a.x.data(), b.x.data(), a.x.size() * 8) == 0;
}

// preconditioner wrapper that throws from its k-th apply
template <class P> struct throwing {
    const P &p; mutable int left; throwing(const P &p, int k) : p(p), left(k) {}
    typedef typename P::backend_type backend_type; typedef typename P::matrix matrix;
    template <class V1, class V2> void apply(const V1 &r, V2 &&x) const { if (--left <= 0) throw std::runtime_error("verif: inner failure"); p.apply(r, x); }
    const matrix& system_matrix() const { return p.system_matrix(); }
    std::shared_ptr<matrix> system_matrix_ptr() const { return p.system_matrix_ptr(); }
};

// preconditioner wrapper whose k-th apply returns a vector with an Inf entry (a failure inside the
// iteration that does not throw)
template <class P> struct poisoning {
    const P &p; mutable int left; poisoning(const P &p, int k) : p(p), left(k) {}
    typedef typename P::backend_type backend_type; typedef typename P::matrix matrix;
    template <class V1, class V2> void apply(const V1 &r, V2 &&x) const { p.apply(r, x); if (--left == 0) x[x.size() / 2] = std::numeric_limits<double>::infinity(); }
    const matrix& system_matrix() const { return p.system_matrix(); }
    std::shared_ptr<matrix> system_matrix_ptr() const { return p.system_matrix_ptr(); }
};

// what the output vector of an apply() holds on entry must not matter: every call gets a different filling (NaN included:
// a preconditioner that scales its output by zero instead of overwriting it would let it through)
static double prefill() { static int k = 0; static const double V[] = {7.25, -3.5, 1e3, 0.0, -0.015625, std::nan("")}; return V[k++ % 6]; }

// a make_solver used as a preconditioner: constructed from (matrix, amg-like params), inner iteration capped
template <class MS> struct nested : MS {
    struct params : MS::params { params() { this->precond.coarse_enough = 8; this->precond.allow_rebuild = true; this->solver.maxiter = 3; this->solver.tol = 1e-2; } };
    template <class M> nested(const M &A, const params &p = params()) : MS(A, p) {}
    template <class M> void rebuild(const M &A) { this->precond().rebuild(A); }
};
// ---------------------------------------------------------------- object kinds
struct object { virtual ~object() {} virtual outcome call(const std::string &kind, const problem &p, vec *xbuf = 0) = 0; virtual bool has_tol() const { return true; }
    // switch the object to the matrix of `target` (amg::rebuild); false = this kind of object has no rebuild
    virtual bool rebuild(const problem &target) { (void)target; return false; } };

template <class Solver, class Precond>
struct krylov : object {
    Precond P; Solver Sv; bool tol;
    krylov(const problem &p, const typename Solver::params &sp, bool tol = true) : P(*p.A, pprm<Precond>(0)), Sv(p.n, sp), tol(tol) {}
    bool has_tol() const override { return tol; }
    bool rebuild(const problem &t) override { return try_rebuild(P, *t.A, 0); }
    outcome call(const std::string &kind, const problem &p, vec *xbuf = 0) override {
        outcome o; vec own; vec &X = xbuf ? *xbuf : own; X.assign(p.n, 0.0);
        try {
            std::tuple<size_t, double> r;
            if (kind == "solve") r = Sv(*p.A, P, p.f1, X);
            else if (kind == "solve_guess") { X = p.guess; r = Sv(*p.A, P, p.f2, X); }
            else if (kind == "solve_unit") r = Sv(*p.A, P, p.funit, X);
            else if (kind == "solve_mtx") r = Sv(*p.A2, P, p.f1, X);
            else if (kind == "zero_rhs") { X = p.guess; r = Sv(*p.A, P, p.zero, X); }
            else if (kind == "converged_guess") { X = p.xstar; r = Sv(*p.A, P, p.f1, X); }
            else if (kind == "nan_rhs") r = Sv(*p.A, P, p.fnan, X);
            else if (kind == "diverge") r = Sv(*p.Abad, P, p.f2, X);
            else if (kind == "throw_inside") { throwing<Precond> T(P, 2); r = Sv(*p.A, T, p.f2, X); }
            else if (kind == "throw_late") { throwing<Precond> T(P, 9); r = Sv(*p.A, T, p.f2, X); }
            else if (kind == "poison_inside") { poisoning<Precond> T(P, 2); r = Sv(*p.A, T, p.f2, X); }
            o.it = std::get<0>(r); o.res = std::get<1>(r);
        } catch (const std::exception &) { o.threw = true; }
        o.x = X; return o;
    }
};
template <class Precond>
struct precond_only : object {      // amg / as_preconditioner: apply()
    Precond P; precond_only(const problem &p) : P(*p.A, pprm<Precond>(0)) {}
    precond_only(const problem &p, std::shared_ptr<crsd> shared) : P(shared, pprm<Precond>(0)) { (void)p; }     // non-copying constructor
    bool has_tol() const override { return false; }
    bool rebuild(const problem &t) override { return try_rebuild(P, *t.A, 0); }
    outcome call(const std::string &kind, const problem &p, vec *xbuf = 0) override {
        outcome o; vec own; vec &X = xbuf ? *xbuf : own; X.assign(p.n, prefill());
        const vec &f = kind == "solve" || kind == "converged_guess" || kind == "throw_inside" || kind == "throw_late" ? p.f1 : kind == "zero_rhs" ? p.zero : kind == "solve_unit" ? p.funit : kind == "nan_rhs" || kind == "poison_inside" ? p.fnan : p.f2;
        try { P.apply(f, X); } catch (const std::exception &) { o.threw = true; }
        o.x = X; return o;
    }
};
// preconditioner-only object built from a scaled copy of the matrix (the Chebyshev recurrence depends on
// the spectrum estimate, hence on the scaling, through expressions like alpha*d - 1)
template <class Precond>
struct precond_scaled : object {
    std::shared_ptr<crsd> As; Precond P;
    static std::shared_ptr<crsd> scaled(const problem &p, double s) { auto M = std::make_shared<crsd>(*p.A); amgcl::backend::scale(*M, s); return M; }
    double sc;
    precond_scaled(const problem &p, double s) : As(scaled(p, s)), P(*As, pprm<Precond>(0)), sc(s) {}
    bool has_tol() const override { return false; }
    bool rebuild(const problem &t) override { As = scaled(t, sc); return try_rebuild(P, *As, 0); }
    outcome call(const std::string &kind, const problem &p, vec *xbuf = 0) override {
        outcome o; vec own; vec &X = xbuf ? *xbuf : own; X.assign(p.n, prefill());
        const vec &f = kind == "solve" || kind == "converged_guess" || kind == "throw_inside" || kind == "throw_late" ? p.f1 : kind == "zero_rhs" ? p.zero : kind == "solve_unit" ? p.funit : kind == "nan_rhs" || kind == "poison_inside" ? p.fnan : p.f2;
        try { P.apply(f, X); } catch (const std::exception &) { o.threw = true; }
        o.x = X; return o;
    }
};
struct skyline : object {
    amgcl::solver::skyline_lu<double> lu; skyline(const problem &p) : lu(*p.A) {}
    bool has_tol() const override { return false; }
    outcome call(const std::string &kind, const problem &p, vec *xbuf = 0) override {
        outcome o; vec own; vec &X = xbuf ? *xbuf : own; X.assign(p.n, prefill());
        const vec &f = kind == "solve" || kind == "converged_guess" || kind == "throw_inside" || kind == "throw_late" ? p.f1 : kind == "zero_rhs" ? p.zero : kind == "solve_unit" ? p.funit : kind == "nan_rhs" || kind == "poison_inside" ? p.fnan : p.f2;
        lu(f, X); o.x = X; return o;
    }
};
template <class MS>
struct bundled : object {           // make_solver: operator()(rhs, x) and operator()(A, rhs, x)
    MS ms; bundled(const problem &p, const typename MS::params &prm) : ms(*p.A, prm) {}
    bundled(const problem &p, std::shared_ptr<crsd> shared, const typename MS::params &prm) : ms(shared, prm) { (void)p; }
    bool rebuild(const problem &t) override { return try_rebuild(ms.precond(), *t.A, 0); }
    outcome call(const std::string &kind, const problem &p, vec *xbuf = 0) override {
        outcome o; vec own; vec &X = xbuf ? *xbuf : own; X.assign(p.n, 0.0);
        try {
            std::tuple<size_t, double> r;
            if (kind == "solve" || kind == "throw_inside" || kind == "throw_late") r = ms(p.f1, X);
            else if (kind == "solve_guess") { X = p.guess; r = ms(p.f2, X); }
            else if (kind == "solve_unit") r = ms(p.funit, X);
            else if (kind == "solve_mtx") r = ms(*p.A2, p.f1, X);
            else if (kind == "zero_rhs") { X = p.guess; r = ms(p.zero, X); }
            else if (kind == "converged_guess") { X = p.xstar; r = ms(p.f1, X); }
            else if (kind == "nan_rhs" || kind == "poison_inside") r = ms(p.fnan, X);
            else if (kind == "diverge") r = ms(*p.Abad, p.f2, X);
            o.it = std::get<0>(r); o.res = std::get<1>(r);
        } catch (const std::exception &) { o.threw = true; }
        o.x = X; return o;
    }
};

typedef std::function<std::unique_ptr<object>(const problem&)> factory;
template <class Sv, class Pc> static factory K(typename Sv::params sp = typename Sv::params(), bool tol = true) {
    return [sp, tol](const problem &p) { return std::unique_ptr<object>(new krylov<Sv, Pc>(p, sp, tol)); };
}
static std::vector<std::pair<std::string, factory>> kinds() {
    using namespace amgcl::solver;
    std::vector<std::pair<std::string, factory>> v;
    v.push_back({"cg", K<cg<B>, AMG1>()});
    v.push_back({"bicgstab", K<bicgstab<B>, AMG1>()});
    { bicgstabl<B>::params p; p.L = 3; v.push_back({"bicgstabl", K<bicgstabl<B>, AMG2>(p)}); }
    { gmres<B>::params p; p.M = 4; v.push_back({"gmres", K<gmres<B>, AMG1>(p)}); }
    { fgmres<B>::params p; p.M = 3; v.push_back({"fgmres", K<fgmres<B>, AMG3>(p)}); }
    { lgmres<B>::params p; p.M = 3; p.K = 2; v.push_back({"lgmres", K<lgmres<B>, AMG1>(p)}); }
    { idrs<B>::params p; p.s = 3; v.push_back({"idrs", K<idrs<B>, AMG2>(p)}); }
    { richardson<B>::params p; p.maxiter = 40; v.push_back({"richardson", K<richardson<B>, AMG1>(p)}); }
    v.push_back({"preonly", K<preonly<B>, AMG1>(preonly<B>::params(), false)});
    // non-default solver options whose extra state lives in the object
    { bicgstabl<B>::params p; p.L = 2; p.convex = false; v.push_back({"bicgstabl-nonconvex", K<bicgstabl<B>, AMG1>(p)}); }
    { bicgstabl<B>::params p; p.L = 2; p.delta = 0.01; v.push_back({"bicgstabl-reliable", K<bicgstabl<B>, AMG1>(p)}); }
    { idrs<B>::params p; p.s = 2; p.smoothing = true; v.push_back({"idrs-smoothing", K<idrs<B>, AMG1>(p)}); }
    { idrs<B>::params p; p.s = 4; p.replacement = true; v.push_back({"idrs-replacement", K<idrs<B>, AMG1>(p)}); }
    { gmres<B>::params p; p.M = 3; p.pside = amgcl::preconditioner::side::left; v.push_back({"gmres-left", K<gmres<B>, AMG1>(p)}); }
    { lgmres<B>::params p; p.M = 2; p.K = 3; p.pside = amgcl::preconditioner::side::left; v.push_back({"lgmres-left", K<lgmres<B>, AMG1>(p)}); }
    // one-sweep preconditioners whose apply() is a single backend primitive writing into the solver's persistent scratch
    // (z[j] of FGMRES, v[j+1] of left-preconditioned GMRES): what a failed call left there must not reach the next call
    { fgmres<B>::params p; p.M = 3; v.push_back({"fgmres-spai0", K<fgmres<B>, amgcl::relaxation::as_preconditioner<B, amgcl::relaxation::spai0>>(p)}); }
    { fgmres<B>::params p; p.M = 4; v.push_back({"fgmres-damped_jacobi", K<fgmres<B>, amgcl::relaxation::as_preconditioner<B, amgcl::relaxation::damped_jacobi>>(p)}); }
    { gmres<B>::params p; p.M = 3; p.pside = amgcl::preconditioner::side::left; v.push_back({"gmres-left-spai0", K<gmres<B>, amgcl::relaxation::as_preconditioner<B, amgcl::relaxation::spai0>>(p)}); }
    // (ns_search = true is left out on purpose: it is documented to ignore the trivial solution of a zero right-hand side)
    // a complete inner solver used as the preconditioner (make_solver::apply clears its output and runs the inner iteration)
    { typedef amgcl::make_solver<AMG1, bicgstab<B>> INNER; fgmres<B>::params p; p.M = 4;
      v.push_back({"fgmres-nested-make_solver", [p](const problem &q) { return std::unique_ptr<object>(new krylov<fgmres<B>, nested<INNER>>(q, p, true)); }});
      v.push_back({"nested-make_solver-apply", [](const problem &q) { return std::unique_ptr<object>(new precond_only<nested<INNER>>(q)); }}); }
    v.push_back({"amg-sa-spai0", [](const problem &p) { return std::unique_ptr<object>(new precond_only<AMG1>(p)); }});
    v.push_back({"amg-rs-ilu0", [](const problem &p) { return std::unique_ptr<object>(new precond_only<AMG2>(p)); }});
    v.push_back({"as_preconditioner-gauss_seidel", [](const problem &p) { return std::unique_ptr<object>(new precond_only<amgcl::relaxation::as_preconditioner<B, amgcl::relaxation::gauss_seidel>>(p)); }});
    v.push_back({"amg-sa-spai0-relaxed-coarse", [](const problem &p) { g_relax_coarse = true; std::unique_ptr<object> o(new precond_only<AMG1>(p)); g_relax_coarse = false; return o; }});
    { bicgstab<B>::params sp; v.push_back({"bicgstab-relaxed-coarse", [sp](const problem &p) { g_relax_coarse = true; std::unique_ptr<object> o(new krylov<bicgstab<B>, AMG1>(p, sp, true)); g_relax_coarse = false; return o; }}); }
    { static const double sc[] = {1.0, 1.1, 1.37, 2.3, 0.77, 3.3, 0.013, 57.0};
      for (int k = 0; k < 8; ++k) { double f = sc[k];
        v.push_back({"as_preconditioner-chebyshev-scale" + std::to_string(k), [f](const problem &p) { return std::unique_ptr<object>(new precond_scaled<amgcl::relaxation::as_preconditioner<B, amgcl::relaxation::chebyshev>>(p, f)); }});
        v.push_back({"amg-sa-chebyshev-scale" + std::to_string(k), [f](const problem &p) { return std::unique_ptr<object>(new precond_scaled<AMG3>(p, f)); }}); } }
    // the caller's matrix handed over by shared_ptr with unsorted rows: used as it is, never modified
    v.push_back({"amg-sa-spai0-shared-unsorted", [](const problem &p) { return std::unique_ptr<object>(new precond_only<AMG1>(p, p.Aun)); }});
    v.push_back({"amg-sa-chebyshev-shared-unsorted", [](const problem &p) { return std::unique_ptr<object>(new precond_only<AMG3>(p, p.Aun)); }});
    v.push_back({"skyline_lu", [](const problem &p) { return std::unique_ptr<object>(new skyline(p)); }});
    { typedef amgcl::make_solver<AMG1, gmres<B>> MS; MS::params prm; prm.solver.M = 5; prm.precond.coarse_enough = 8;
      prm.precond.allow_rebuild = true;
      v.push_back({"make_solver-amg-gmres", [prm](const problem &p) { return std::unique_ptr<object>(new bundled<MS>(p, prm)); }});
      v.push_back({"make_solver-amg-gmres-shared-unsorted", [prm](const problem &p) { return std::unique_ptr<object>(new bundled<MS>(p, p.Aun, prm)); }}); }
    return v;
}

static std::vector<std::string> split(const std::string &s) { std::vector<std::string> v; std::stringstream ss(s); std::string t; while (std::getline(ss, t, ',')) if (!t.empty()) v.push_back(t); return v; }

int main(int argc, char **argv) {
    vr::install_terminate();
    std::string mode = argc > 1 ? argv[1] : "hist";
    std::ifstream in(argc > 2 ? argv[2] : "/dev/null");
    std::vector<std::vector<std::string>> hists; std::string line;
    while (std::getline(in, line)) { auto h = split(line); if (!h.empty()) hists.push_back(h); }
    vr::rng g(vr::env_seed() + 1515);
    problem p = make_problem(g);
    auto ks = kinds();
    if (mode == "hist") {
        // fresh results, one per (object kind, call kind, matrix version); a "rebuild" call switches the object
        // between the matrix it was built for (version 0) and Ar (version 1): every later call must give what
        // the same call gives on an object freshly constructed for the current matrix
        problem pv[2] = {p, rebuilt(p)};
        auto digest_inputs = [&]() { vr::digest d; for (auto &M : {p.A, p.A2, p.Ar, p.Aun}) { d.vec(M->val, M->nnz); d.vec(M->col, M->nnz); d.vec(M->ptr, M->nrows + 1); }
            d.vec(p.f1.data(), p.n); d.vec(p.f2.data(), p.n); d.vec(p.zero.data(), p.n); d.vec(p.fnan.data(), p.n); d.vec(p.funit.data(), p.n); return d.h; };
        for (auto &k : ks) {
            std::map<std::pair<std::string, int>, outcome> fresh;
            uint64_t in0 = digest_inputs();
            bool shared = k.first.find("shared") != std::string::npos;
            for (auto &h : hists) {
                auto obj = k.second(p);
                int ver = 0;
                for (size_t i = 0; i < h.size(); ++i) {
                    const std::string &c = h[i];
                    std::string hs; for (size_t q = 0; q < h.size(); ++q) hs += (q ? "," : "") + h[q];
                    if (c == "rebuild") {
                        bool threw = false, did = false;
                        // (objects built from the unsorted shared matrix keep transfer operators computed in that entry order; a fresh
                        //  twin for the other matrix would differ by rounding, so they are not rebuilt)
                        try { did = !shared && obj->rebuild(pv[1 - ver]); } catch (const std::exception &) { threw = true; }
                        if (did) ver = 1 - ver;
                        vr::obj o2; o2.str("k", "call").str("obj", k.first).str("hist", hs).i("i", i + 1).str("call", c).b("tol", obj->has_tol()).i("ver", ver);
                        o2.b("same", !threw).b("threw", threw).i("it", 0).b("allzero", false).b("unchanged", false).b("inputs", in0 == digest_inputs());
                        vr::emit(o2.done());
                        continue;
                    }
                    const problem &pc = pv[ver];
                    auto key = std::make_pair(c, ver);
                    if (!fresh.count(key)) {
                        // an object built by the non-copying constructor has no fresh twin for the other matrix: build the twin the copying way
                        fresh[key] = k.second(pc)->call(c, pc);
                    }
                    outcome o = obj->call(c, pc);
                    const outcome &f = fresh[key];
                    bool allzero = true; for (double v : o.x) if (v != 0.0) allzero = false;
                    bool unchanged = std::memcmp(o.x.data(), pc.xstar.data(), p.n * 8) == 0;
                    vr::obj o2; o2.str("k", "call").str("obj", k.first).str("hist", hs).i("i", i + 1).str("call", c).b("tol", obj->has_tol()).i("ver", ver);
                    o2.b("same", same(o, f)).b("threw", o.threw).i("it", o.it).b("allzero", allzero).b("unchanged", unchanged).b("inputs", in0 == digest_inputs());
                    vr::emit(o2.done());
                }
            }
        }
    } else {
        // op stream of whole histories on one object each (construction = setup phase)
        problem pvo[2] = {p, rebuilt(p)};
        amgcl::verif::current() = &S;
        size_t stride = std::max<size_t>(1, hists.size() / (vr::thorough() ? 60 : 14));
        for (auto &k : ks) {
            if (k.first == "skyline_lu") continue;
            for (size_t hi = 0; hi < hists.size(); hi += stride) {
                auto &h = hists[hi];
                S.reset(); { vr::obj o; o.str("e", "Reset").str("obj", k.first); vr::emit(o.done()); }
                S.on = true; auto obj = k.second(p); S.on = false;
                vec xbuf(p.n, 0.0); int vero = 0;
                for (auto &c : h) {
                    { vr::obj o; o.str("e", "begin").str("call", c); int xi[1] = {S.id(amgcl::verif::id(xbuf))}; o.ints("ins", xi, xi + 1).ints("clob", xi, xi + 1); vr::emit(o.done()); }
                    S.on = true; if (c == "rebuild") { if (k.first.find("shared") == std::string::npos && obj->rebuild(pvo[1 - vero])) vero = 1 - vero; } else obj->call(c, pvo[vero], &xbuf); S.on = false;
                    { vr::obj o; o.str("e", "end"); vr::emit(o.done()); }
                }
            }
        }
        amgcl::verif::current() = 0;
    }
    vr::obj o; o.str("e", "End"); vr::emit(o.done());
    return 0;
}
