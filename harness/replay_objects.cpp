// C15 replayer: steps real solver / preconditioner objects through the call histories that
// TLC generated from spec/SolverObject.tla (file argument: one history per line, kinds
// separated by commas) and compares every call, bitwise, with the same call on a freshly
// constructed object.  mode "ops" additionally streams the backend primitives of whole
// histories (hooks H2/H3) for the NoLeak freshness monitor.  Judged by spec/C15Trace.tla.
//
// usage: replay_objects hist <file> | ops <file>
#include <opstream.hpp>
#include <amgcl/amg.hpp>
#include <amgcl/make_solver.hpp>
#include <amgcl/adapter/crs_tuple.hpp>
#include <amgcl/coarsening/smoothed_aggregation.hpp>
#include <amgcl/coarsening/ruge_stuben.hpp>
#include <amgcl/relaxation/spai0.hpp>
#include <amgcl/relaxation/ilu0.hpp>
#include <amgcl/relaxation/gauss_seidel.hpp>
#include <amgcl/relaxation/chebyshev.hpp>
#include <amgcl/relaxation/as_preconditioner.hpp>
#include <amgcl/solver/cg.hpp>
#include <amgcl/solver/bicgstab.hpp>
#include <amgcl/solver/bicgstabl.hpp>
#include <amgcl/solver/gmres.hpp>
#include <amgcl/solver/fgmres.hpp>
#include <amgcl/solver/lgmres.hpp>
#include <amgcl/solver/idrs.hpp>
#include <amgcl/solver/richardson.hpp>
#include <amgcl/solver/preonly.hpp>
#include <amgcl/solver/skyline_lu.hpp>
#include <fstream>
#include <limits>

using vr::crsd;
typedef amgcl::backend::builtin<double> B;
typedef std::vector<double> vec;
typedef amgcl::amg<B, amgcl::coarsening::smoothed_aggregation, amgcl::relaxation::spai0> AMG1;
typedef amgcl::amg<B, amgcl::coarsening::ruge_stuben, amgcl::relaxation::ilu0> AMG2;
typedef amgcl::amg<B, amgcl::coarsening::smoothed_aggregation, amgcl::relaxation::chebyshev> AMG3;

static vr::opstream S;

struct problem {
    std::shared_ptr<crsd> A, A2, Abad; vec f1, f2, guess, xstar, fnan, zero, funit; int n;
};
static problem make_problem(vr::rng &g) {
    problem p; p.A = vr::poisson2d(g.range(7, 10), g.range(6, 9)); p.n = p.A->nrows;
    p.A2 = std::make_shared<crsd>(*p.A); for (size_t i = 0; i < p.A2->nrows; ++i) for (ptrdiff_t q = p.A2->ptr[i]; q < p.A2->ptr[i+1]; ++q) if (p.A2->col[q] == (ptrdiff_t)i) p.A2->val[q] += 0.5 + (i % 3) * 0.25;
    p.Abad = std::make_shared<crsd>(*p.A); for (size_t i = 0; i < p.Abad->nrows; ++i) for (ptrdiff_t q = p.Abad->ptr[i]; q < p.Abad->ptr[i+1]; ++q) if (p.Abad->col[q] == (ptrdiff_t)i) p.Abad->val[q] -= 4.05;   // strongly indefinite: the methods stagnate or break down
    int n = p.n; p.f1.resize(n); p.f2.resize(n); p.guess.resize(n); p.zero.assign(n, 0.0);
    for (int i = 0; i < n; ++i) { p.f1[i] = g.unit() + 0.1; p.f2[i] = std::sin(0.37 * i) + g.unit(); p.guess[i] = g.unit() - 0.5; }
    p.fnan = p.f1; p.fnan[n / 2] = std::nan("");
    p.funit.assign(n, 0.0); p.funit[(2 * n) / 3] = 1.0;      // point source: exactly zero almost everywhere
    // exact solution of A x = f1 by dense elimination in long double
    std::vector<long double> M((size_t)n * n, 0.0L), b(p.f1.begin(), p.f1.end());
    for (int i = 0; i < n; ++i) for (ptrdiff_t q = p.A->ptr[i]; q < p.A->ptr[i+1]; ++q) M[(size_t)i * n + p.A->col[q]] += p.A->val[q];
    for (int k = 0; k < n; ++k) { for (int i = k + 1; i < n; ++i) { long double m = M[(size_t)i*n+k] / M[(size_t)k*n+k]; if (m == 0) continue; for (int j = k; j < n; ++j) M[(size_t)i*n+j] -= m * M[(size_t)k*n+j]; b[i] -= m * b[k]; } }
    p.xstar.resize(n); for (int i = n - 1; i >= 0; --i) { long double s = b[i]; for (int j = i + 1; j < n; ++j) s -= M[(size_t)i*n+j] * p.xstar[j]; p.xstar[i] = (double)(s / M[(size_t)i*n+i]); }
    return p;
}

static bool g_relax_coarse = false;     // build the next preconditioner with direct_coarse = false
template <class P> static auto relaxcoarse(P &q, int) -> decltype((void)q.direct_coarse) { q.direct_coarse = !g_relax_coarse; }
template <class P> static void relaxcoarse(P &, long) {}

// multi-level hierarchies even on these small problems
template <class P> static auto pprm(int) -> decltype((void)typename P::params().coarse_enough, typename P::params()) { typename P::params q; q.coarse_enough = 8; relaxcoarse(q, 0); return q; }
template <class P> static typename P::params pprm(long) { return typename P::params(); }

struct outcome { vec x; size_t it = 0; double res = 0; bool threw = false; };
static bool same(const outcome &a, const outcome &b) {
    return a.threw == b.threw && a.it == b.it && std::memcmp(&a.res, &b.res, 8) == 0 && a.x.size() == b.x.size() && std::memcmp(a.x.data(), b.x.data(), a.x.size() * 8) == 0;
}

// preconditioner wrapper that throws from its k-th apply
template <class P> struct throwing {
    const P &p; mutable int left; throwing(const P &p, int k) : p(p), left(k) {}
    typedef typename P::backend_type backend_type; typedef typename P::matrix matrix;
    template <class V1, class V2> void apply(const V1 &r, V2 &&x) const { if (--left <= 0) throw std::runtime_error("verif: inner failure"); p.apply(r, x); }
    const matrix& system_matrix() const { return p.system_matrix(); }
    std::shared_ptr<matrix> system_matrix_ptr() const { return p.system_matrix_ptr(); }
};

// preconditioner wrapper whose k-th apply returns a vector with an Inf entry (a failure inside the
// iteration that does not throw)
template <class P> struct poisoning {
    const P &p; mutable int left; poisoning(const P &p, int k) : p(p), left(k) {}
    typedef typename P::backend_type backend_type; typedef typename P::matrix matrix;
    template <class V1, class V2> void apply(const V1 &r, V2 &&x) const { p.apply(r, x); if (--left == 0) x[x.size() / 2] = std::numeric_limits<double>::infinity(); }
    const matrix& system_matrix() const { return p.system_matrix(); }
    std::shared_ptr<matrix> system_matrix_ptr() const { return p.system_matrix_ptr(); }
};

// ---------------------------------------------------------------- object kinds
struct object { virtual ~object() {} virtual outcome call(const std::string &kind, const problem &p, vec *xbuf = 0) = 0; virtual bool has_tol() const { return true; } };

template <class Solver, class Precond>
struct krylov : object {
    Precond P; Solver Sv; bool tol;
    krylov(const problem &p, const typename Solver::params &sp, bool tol = true) : P(*p.A, pprm<Precond>(0)), Sv(p.n, sp), tol(tol) {}
    bool has_tol() const override { return tol; }
    outcome call(const std::string &kind, const problem &p, vec *xbuf = 0) override {
        outcome o; vec own; vec &X = xbuf ? *xbuf : own; X.assign(p.n, 0.0);
        try {
            std::tuple<size_t, double> r;
            if (kind == "solve") r = Sv(*p.A, P, p.f1, X);
            else if (kind == "solve_guess") { X = p.guess; r = Sv(*p.A, P, p.f2, X); }
            else if (kind == "solve_unit") r = Sv(*p.A, P, p.funit, X);
            else if (kind == "solve_mtx") r = Sv(*p.A2, P, p.f1, X);
            else if (kind == "zero_rhs") { X = p.guess; r = Sv(*p.A, P, p.zero, X); }
            else if (kind == "converged_guess") { X = p.xstar; r = Sv(*p.A, P, p.f1, X); }
            else if (kind == "nan_rhs") r = Sv(*p.A, P, p.fnan, X);
            else if (kind == "diverge") r = Sv(*p.Abad, P, p.f2, X);
            else if (kind == "throw_inside") { throwing<Precond> T(P, 2); r = Sv(*p.A, T, p.f2, X); }
            else if (kind == "throw_late") { throwing<Precond> T(P, 9); r = Sv(*p.A, T, p.f2, X); }
            else if (kind == "poison_inside") { poisoning<Precond> T(P, 2); r = Sv(*p.A, T, p.f2, X); }
            o.it = std::get<0>(r); o.res = std::get<1>(r);
        } catch (const std::exception &) { o.threw = true; }
        o.x = X; return o;
    }
};
template <class Precond>
struct precond_only : object {      // amg / as_preconditioner: apply()
    Precond P; precond_only(const problem &p) : P(*p.A, pprm<Precond>(0)) {}
    bool has_tol() const override { return false; }
    outcome call(const std::string &kind, const problem &p, vec *xbuf = 0) override {
        outcome o; vec own; vec &X = xbuf ? *xbuf : own; X.assign(p.n, 7.25);
        const vec &f = kind == "solve" || kind == "converged_guess" || kind == "throw_inside" || kind == "throw_late" ? p.f1 : kind == "zero_rhs" ? p.zero : kind == "solve_unit" ? p.funit : kind == "nan_rhs" || kind == "poison_inside" ? p.fnan : p.f2;
        try { P.apply(f, X); } catch (const std::exception &) { o.threw = true; }
        o.x = X; return o;
    }
};
// preconditioner-only object built from a scaled copy of the matrix (the Chebyshev recurrence depends on
// the spectrum estimate, hence on the scaling, through expressions like alpha*d - 1)
template <class Precond>
struct precond_scaled : object {
    std::shared_ptr<crsd> As; Precond P;
    static std::shared_ptr<crsd> scaled(const problem &p, double s) { auto M = std::make_shared<crsd>(*p.A); amgcl::backend::scale(*M, s); return M; }
    precond_scaled(const problem &p, double s) : As(scaled(p, s)), P(*As, pprm<Precond>(0)) {}
    bool has_tol() const override { return false; }
    outcome call(const std::string &kind, const problem &p, vec *xbuf = 0) override {
        outcome o; vec own; vec &X = xbuf ? *xbuf : own; X.assign(p.n, 7.25);
        const vec &f = kind == "solve" || kind == "converged_guess" || kind == "throw_inside" || kind == "throw_late" ? p.f1 : kind == "zero_rhs" ? p.zero : kind == "solve_unit" ? p.funit : kind == "nan_rhs" || kind == "poison_inside" ? p.fnan : p.f2;
        try { P.apply(f, X); } catch (const std::exception &) { o.threw = true; }
        o.x = X; return o;
    }
};
struct skyline : object {
    amgcl::solver::skyline_lu<double> lu; skyline(const problem &p) : lu(*p.A) {}
    bool has_tol() const override { return false; }
    outcome call(const std::string &kind, const problem &p, vec *xbuf = 0) override {
        outcome o; vec own; vec &X = xbuf ? *xbuf : own; X.assign(p.n, -3.5);
        const vec &f = kind == "solve" || kind == "converged_guess" || kind == "throw_inside" || kind == "throw_late" ? p.f1 : kind == "zero_rhs" ? p.zero : kind == "solve_unit" ? p.funit : kind == "nan_rhs" || kind == "poison_inside" ? p.fnan : p.f2;
        lu(f, X); o.x = X; return o;
    }
};
template <class MS>
struct bundled : object {           // make_solver: operator()(rhs, x) and operator()(A, rhs, x)
    MS ms; bundled(const problem &p, const typename MS::params &prm) : ms(*p.A, prm) {}
    outcome call(const std::string &kind, const problem &p, vec *xbuf = 0) override {
        outcome o; vec own; vec &X = xbuf ? *xbuf : own; X.assign(p.n, 0.0);
        try {
            std::tuple<size_t, double> r;
            if (kind == "solve" || kind == "throw_inside" || kind == "throw_late") r = ms(p.f1, X);
            else if (kind == "solve_guess") { X = p.guess; r = ms(p.f2, X); }
            else if (kind == "solve_unit") r = ms(p.funit, X);
            else if (kind == "solve_mtx") r = ms(*p.A2, p.f1, X);
            else if (kind == "zero_rhs") { X = p.guess; r = ms(p.zero, X); }
            else if (kind == "converged_guess") { X = p.xstar; r = ms(p.f1, X); }
            else if (kind == "nan_rhs" || kind == "poison_inside") r = ms(p.fnan, X);
            else if (kind == "diverge") r = ms(*p.Abad, p.f2, X);
            o.it = std::get<0>(r); o.res = std::get<1>(r);
        } catch (const std::exception &) { o.threw = true; }
        o.x = X; return o;
    }
};

typedef std::function<std::unique_ptr<object>(const problem&)> factory;
template <class Sv, class Pc> static factory K(typename Sv::params sp = typename Sv::params(), bool tol = true) {
    return [sp, tol](const problem &p) { return std::unique_ptr<object>(new krylov<Sv, Pc>(p, sp, tol)); };
}
static std::vector<std::pair<std::string, factory>> kinds() {
    using namespace amgcl::solver;
    std::vector<std::pair<std::string, factory>> v;
    v.push_back({"cg", K<cg<B>, AMG1>()});
    v.push_back({"bicgstab", K<bicgstab<B>, AMG1>()});
    { bicgstabl<B>::params p; p.L = 3; v.push_back({"bicgstabl", K<bicgstabl<B>, AMG2>(p)}); }
    { gmres<B>::params p; p.M = 4; v.push_back({"gmres", K<gmres<B>, AMG1>(p)}); }
    { fgmres<B>::params p; p.M = 3; v.push_back({"fgmres", K<fgmres<B>, AMG3>(p)}); }
    { lgmres<B>::params p; p.M = 3; p.K = 2; v.push_back({"lgmres", K<lgmres<B>, AMG1>(p)}); }
    { idrs<B>::params p; p.s = 3; v.push_back({"idrs", K<idrs<B>, AMG2>(p)}); }
    { richardson<B>::params p; p.maxiter = 40; v.push_back({"richardson", K<richardson<B>, AMG1>(p)}); }
    v.push_back({"preonly", K<preonly<B>, AMG1>(preonly<B>::params(), false)});
    v.push_back({"amg-sa-spai0", [](const problem &p) { return std::unique_ptr<object>(new precond_only<AMG1>(p)); }});
    v.push_back({"amg-rs-ilu0", [](const problem &p) { return std::unique_ptr<object>(new precond_only<AMG2>(p)); }});
    v.push_back({"as_preconditioner-gauss_seidel", [](const problem &p) { return std::unique_ptr<object>(new precond_only<amgcl::relaxation::as_preconditioner<B, amgcl::relaxation::gauss_seidel>>(p)); }});
    v.push_back({"amg-sa-spai0-relaxed-coarse", [](const problem &p) { g_relax_coarse = true; std::unique_ptr<object> o(new precond_only<AMG1>(p)); g_relax_coarse = false; return o; }});
    { bicgstab<B>::params sp; v.push_back({"bicgstab-relaxed-coarse", [sp](const problem &p) { g_relax_coarse = true; std::unique_ptr<object> o(new krylov<bicgstab<B>, AMG1>(p, sp, true)); g_relax_coarse = false; return o; }}); }
    { static const double sc[] = {1.0, 1.1, 1.37, 2.3, 0.77, 3.3, 0.013, 57.0};
      for (int k = 0; k < 8; ++k) { double f = sc[k];
        v.push_back({"as_preconditioner-chebyshev-scale" + std::to_string(k), [f](const problem &p) { return std::unique_ptr<object>(new precond_scaled<amgcl::relaxation::as_preconditioner<B, amgcl::relaxation::chebyshev>>(p, f)); }});
        v.push_back({"amg-sa-chebyshev-scale" + std::to_string(k), [f](const problem &p) { return std::unique_ptr<object>(new precond_scaled<AMG3>(p, f)); }}); } }
    v.push_back({"skyline_lu", [](const problem &p) { return std::unique_ptr<object>(new skyline(p)); }});
    { typedef amgcl::make_solver<AMG1, gmres<B>> MS; MS::params prm; prm.solver.M = 5; prm.precond.coarse_enough = 8;
      v.push_back({"make_solver-amg-gmres", [prm](const problem &p) { return std::unique_ptr<object>(new bundled<MS>(p, prm)); }}); }
    return v;
}

static std::vector<std::string> split(const std::string &s) { std::vector<std::string> v; std::stringstream ss(s); std::string t; while (std::getline(ss, t, ',')) if (!t.empty()) v.push_back(t); return v; }

int main(int argc, char **argv) {
    vr::install_terminate();
    std::string mode = argc > 1 ? argv[1] : "hist";
    std::ifstream in(argc > 2 ? argv[2] : "/dev/null");
    std::vector<std::vector<std::string>> hists; std::string line;
    while (std::getline(in, line)) { auto h = split(line); if (!h.empty()) hists.push_back(h); }
    vr::rng g(vr::env_seed() + 1515);
    problem p = make_problem(g);
    auto ks = kinds();
    if (mode == "hist") {
        // fresh results, one per (object kind, call kind)
        for (auto &k : ks) {
            std::map<std::string, outcome> fresh;
            vr::digest in0; in0.vec(p.A->val, p.A->nnz); in0.vec(p.A->col, p.A->nnz); in0.vec(p.A2->val, p.A2->nnz); in0.vec(p.f1.data(), p.n); in0.vec(p.f2.data(), p.n); in0.vec(p.zero.data(), p.n); in0.vec(p.fnan.data(), p.n);
            for (auto &h : hists) {
                auto obj = k.second(p);
                for (size_t i = 0; i < h.size(); ++i) {
                    const std::string &c = h[i];
                    if (!fresh.count(c)) { auto fo = k.second(p); fresh[c] = fo->call(c, p); }
                    outcome o = obj->call(c, p);
                    const outcome &f = fresh[c];
                    bool allzero = true; for (double v : o.x) if (v != 0.0) allzero = false;
                    bool unchanged = std::memcmp(o.x.data(), p.xstar.data(), p.n * 8) == 0;
                    vr::digest in1; in1.vec(p.A->val, p.A->nnz); in1.vec(p.A->col, p.A->nnz); in1.vec(p.A2->val, p.A2->nnz); in1.vec(p.f1.data(), p.n); in1.vec(p.f2.data(), p.n); in1.vec(p.zero.data(), p.n); in1.vec(p.fnan.data(), p.n);
                    std::string hs; for (size_t q = 0; q < h.size(); ++q) hs += (q ? "," : "") + h[q];
                    vr::obj o2; o2.str("k", "call").str("obj", k.first).str("hist", hs).i("i", i + 1).str("call", c).b("tol", obj->has_tol());
                    o2.b("same", same(o, f)).b("threw", o.threw).i("it", o.it).b("allzero", allzero).b("unchanged", unchanged).b("inputs", in0.h == in1.h);
                    vr::emit(o2.done());
                }
            }
        }
    } else {
        // op stream of whole histories on one object each (construction = setup phase)
        amgcl::verif::current() = &S;
        size_t stride = std::max<size_t>(1, hists.size() / (vr::thorough() ? 60 : 14));
        for (auto &k : ks) {
            if (k.first == "skyline_lu") continue;
            for (size_t hi = 0; hi < hists.size(); hi += stride) {
                auto &h = hists[hi];
                S.reset(); { vr::obj o; o.str("e", "Reset").str("obj", k.first); vr::emit(o.done()); }
                S.on = true; auto obj = k.second(p); S.on = false;
                vec xbuf(p.n, 0.0);
                for (auto &c : h) {
                    { vr::obj o; o.str("e", "begin").str("call", c); int xi[1] = {S.id(amgcl::verif::id(xbuf))}; o.ints("ins", xi, xi + 1).ints("clob", xi, xi + 1); vr::emit(o.done()); }
                    S.on = true; obj->call(c, p, &xbuf); S.on = false;
                    { vr::obj o; o.str("e", "end"); vr::emit(o.done()); }
                }
            }
        }
        amgcl::verif::current() = 0;
    }
    vr::obj o; o.str("e", "End"); vr::emit(o.done());
    return 0;
}
