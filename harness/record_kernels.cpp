// C08 recorder: pushes small (mask-enumerated, same encoding as Patterns.tla) and
// seeded-random integer matrices through the real sparse kernels of
// amgcl/backend/builtin.hpp + detail/spgemm.hpp and logs input/output as ndjson.
// The verdict is taken by TLC (spec/C08Trace.tla).
//
// usage: record_kernels <mode>      mode: small | random | obs
#include <vrec.hpp>
#include <amgcl/value_type/static_matrix.hpp>
#include <amgcl/value_type/complex.hpp>
#include <amgcl/adapter/crs_tuple.hpp>
#include <amgcl/adapter/block_matrix.hpp>
#include <Eigen/Dense>
#include <omp.h>

using namespace amgcl;
using vr::crsd;
typedef backend::crs<double, ptrdiff_t, ptrdiff_t> M;

static int nthreads() { return omp_get_max_threads(); }

static void put(vr::obj &o) { o.i("nt", nthreads()); if (o.exact) vr::emit(o.done()); else { vr::obj x; x.str("e", "Inexact"); vr::emit(x.done()); } }

// ---- block / complex expansion done by the harness, independent of amgcl adapters
template <int B>
std::shared_ptr<M> expand(const backend::crs<static_matrix<double, B, B>, ptrdiff_t, ptrdiff_t> &A) {
    std::vector<std::vector<std::pair<int,double>>> rows(A.nrows * B);
    for (size_t i = 0; i < A.nrows; ++i)
        for (ptrdiff_t p = A.ptr[i]; p < A.ptr[i+1]; ++p)
            for (int r = 0; r < B; ++r) for (int c = 0; c < B; ++c)
                rows[i * B + r].push_back(std::make_pair((int)(A.col[p] * B + c), A.val[p](r, c)));
    return vr::from_rows(A.nrows * B, A.ncols * B, rows);
}
inline std::shared_ptr<M> expand(const backend::crs<std::complex<double>, ptrdiff_t, ptrdiff_t> &A) {
    std::vector<std::vector<std::pair<int,double>>> rows(A.nrows * 2);
    for (size_t i = 0; i < A.nrows; ++i)
        for (ptrdiff_t p = A.ptr[i]; p < A.ptr[i+1]; ++p) {
            double a = A.val[p].real(), b = A.val[p].imag(); int c = A.col[p];
            rows[2*i  ].push_back(std::make_pair(2*c, a)); rows[2*i  ].push_back(std::make_pair(2*c+1, -b));
            rows[2*i+1].push_back(std::make_pair(2*c, b)); rows[2*i+1].push_back(std::make_pair(2*c+1,  a));
        }
    return vr::from_rows(A.nrows * 2, A.ncols * 2, rows);
}
template <int B>
std::shared_ptr<backend::crs<static_matrix<double,B,B>, ptrdiff_t, ptrdiff_t>> block_random(vr::rng &g, int n, int m, double dens) {
    typedef static_matrix<double,B,B> V;
    auto A = std::make_shared<backend::crs<V, ptrdiff_t, ptrdiff_t>>();
    A->set_size(n, m, true);
    std::vector<std::vector<int>> cols(n);
    for (int i = 0; i < n; ++i) for (int j = 0; j < m; ++j) if (g.coin(dens)) cols[i].push_back(j);
    for (int i = 0; i < n; ++i) A->ptr[i+1] = cols[i].size();
    A->set_nonzeros(A->scan_row_sizes());
    for (int i = 0; i < n; ++i) { ptrdiff_t h = A->ptr[i]; for (int c : cols[i]) { A->col[h] = c; V v; for (int r = 0; r < B; ++r) for (int q = 0; q < B; ++q) v(r,q) = g.range(-2, 2); A->val[h] = v; ++h; } }
    return A;
}
inline std::shared_ptr<backend::crs<std::complex<double>, ptrdiff_t, ptrdiff_t>> complex_random(vr::rng &g, int n, int m, double dens) {
    auto A = std::make_shared<backend::crs<std::complex<double>, ptrdiff_t, ptrdiff_t>>();
    A->set_size(n, m, true);
    std::vector<std::vector<int>> cols(n);
    for (int i = 0; i < n; ++i) for (int j = 0; j < m; ++j) if (g.coin(dens)) cols[i].push_back(j);
    for (int i = 0; i < n; ++i) A->ptr[i+1] = cols[i].size();
    A->set_nonzeros(A->scan_row_sizes());
    for (int i = 0; i < n; ++i) { ptrdiff_t h = A->ptr[i]; for (int c : cols[i]) { A->col[h] = c; A->val[h] = std::complex<double>(g.range(-2,2), g.range(-2,2)); ++h; } }
    return A;
}

// block matrix with entries of type T -> scalar matrix of T (same entry order), by the harness itself
template <class T, int B>
std::shared_ptr<backend::crs<T, ptrdiff_t, ptrdiff_t>> unblock(const backend::crs<static_matrix<T, B, B>, ptrdiff_t, ptrdiff_t> &A) {
    auto S = std::make_shared<backend::crs<T, ptrdiff_t, ptrdiff_t>>();
    S->set_size(A.nrows * B, A.ncols * B, true);
    for (size_t i = 0; i < A.nrows; ++i) for (int r = 0; r < B; ++r) S->ptr[i * B + r + 1] = (A.ptr[i+1] - A.ptr[i]) * B;
    S->set_nonzeros(S->scan_row_sizes());
    for (size_t i = 0; i < A.nrows; ++i) for (int r = 0; r < B; ++r) { ptrdiff_t h = S->ptr[i * B + r];
        for (ptrdiff_t p = A.ptr[i]; p < A.ptr[i+1]; ++p) for (int c = 0; c < B; ++c) { S->col[h] = A.col[p] * B + c; S->val[h] = A.val[p](r, c); ++h; } }
    return S;
}
template <int B>
std::shared_ptr<backend::crs<static_matrix<std::complex<double>,B,B>, ptrdiff_t, ptrdiff_t>> cblock_random(vr::rng &g, int n, int m, double dens) {
    typedef static_matrix<std::complex<double>,B,B> V;
    auto A = std::make_shared<backend::crs<V, ptrdiff_t, ptrdiff_t>>();
    A->set_size(n, m, true);
    std::vector<std::vector<int>> cols(n);
    for (int i = 0; i < n; ++i) for (int j = 0; j < m; ++j) if (g.coin(dens)) cols[i].push_back(j);
    for (int i = 0; i < n; ++i) A->ptr[i+1] = cols[i].size();
    A->set_nonzeros(A->scan_row_sizes());
    for (int i = 0; i < n; ++i) { ptrdiff_t h = A->ptr[i]; for (int c : cols[i]) { A->col[h] = c; V v; for (int r = 0; r < B; ++r) for (int q = 0; q < B; ++q) v(r,q) = std::complex<double>(g.range(-2, 2), g.range(-2, 2)); A->val[h] = v; ++h; } }
    return A;
}

// ---------------------------------------------------------------- one case each
static std::string J(const M &A, vr::obj &o, int shift = 0) { bool ex = true; std::string s = vr::crs_json(A, ex, shift); if (!ex) o.exact = false; return s; }

static void c_transpose(const M &A, const char *tag) {
    auto T = backend::transpose(A);
    vr::obj o; o.str("k", "transpose").str("tag", tag); o.raw("A", J(A, o)).raw("out", J(*T, o)); put(o);
}
static void c_product(const M &A, const M &B, int algo, bool sort, const char *tag) {
    // algo 0: spgemm_saad, 1: spgemm_rmerge, 2: product() (dispatch on thread count)
    auto C = std::make_shared<M>();
    if (algo == 0) backend::spgemm_saad(A, B, *C, sort);
    else if (algo == 1) backend::spgemm_rmerge(A, B, *C);
    else C = backend::product(A, B, sort);
    vr::obj o; o.str("k", "product").str("tag", tag).i("algo", algo).b("sort", sort);
    o.raw("A", J(A, o)).raw("B", J(B, o)).raw("out", J(*C, o)); put(o);
}
static void c_sum(double a, const M &A, double b, const M &B, bool sort, const char *tag) {
    auto C = backend::sum(a, A, b, B, sort);
    vr::obj o; o.str("k", "sum").str("tag", tag).d("alpha", a).d("beta", b).b("sort", sort);
    o.raw("A", J(A, o)).raw("B", J(B, o)).raw("out", J(*C, o)); put(o);
}
static void c_scale(const M &A, double s, const char *tag) {
    M C(A); backend::scale(C, s);
    vr::obj o; o.str("k", "scale").str("tag", tag).d("s", s); o.raw("A", J(A, o)).raw("out", J(C, o)); put(o);
}
static void c_sort(const M &A, const char *tag) {
    M C(A); backend::sort_rows(C);
    vr::obj o; o.str("k", "sort").str("tag", tag); o.raw("A", J(A, o)).raw("out", J(C, o)); put(o);
}
static void c_pointwise(const M &A, int bs, const char *tag) {
    auto P = backend::pointwise_matrix(A, bs);
    vr::obj o; o.str("k", "pointwise").str("tag", tag).i("bs", bs); o.raw("A", J(A, o)).raw("out", J(*P, o)); put(o);
}
static void c_diag(const M &A, const char *tag) {
    // only rows with exactly one stored diagonal entry are defined; invert with power-of-two diagonals
    auto d = backend::diagonal(A, false);
    std::vector<double> dd(A.nrows, 0.0);
    for (size_t i = 0; i < A.nrows; ++i) for (ptrdiff_t p = A.ptr[i]; p < A.ptr[i+1]; ++p) if (A.col[p] == (ptrdiff_t)i) { dd[i] = (*d)[i]; break; }
    vr::obj o; o.str("k", "diag").str("tag", tag); o.raw("A", J(A, o)).dbls("out", dd); put(o);
}
static void c_diag_inv(vr::rng &g, int n) {
    // diagonal entries +-2^k (k in -3..3) or 0: inverse exact; zero -> identity
    std::vector<std::vector<std::pair<int,double>>> rows(n);
    std::vector<double> want(n);
    for (int i = 0; i < n; ++i) {
        int k = g.range(-3, 4); double dv = k == 4 ? 0.0 : std::ldexp(g.coin() ? 1.0 : -1.0, k);
        for (int j = 0; j < n; ++j) if (j == i) rows[i].push_back(std::make_pair(j, dv)); else if (g.coin(0.3)) rows[i].push_back(std::make_pair(j, (double)g.range(1,3)));
        want[i] = dv == 0.0 ? 1.0 : 1.0 / dv;
    }
    auto A = vr::from_rows(n, n, rows);
    auto d = backend::diagonal(*A, true);
    std::vector<double> got(n); for (int i = 0; i < n; ++i) got[i] = (*d)[i];
    vr::obj o; o.str("k", "diaginv").str("tag", "dyadic").dbls("want", want, 4).dbls("out", got, 4); put(o);
}
static void c_copy(const M &A, const char *tag) {
    // the copy / convert constructors and assignments must preserve the storage exactly
    std::vector<ptrdiff_t> ptr(A.ptr, A.ptr + A.nrows + 1), col(A.col, A.col + A.nnz);
    std::vector<double> val(A.val, A.val + A.nnz);
    M c1(A.nrows, A.ncols, ptr, col, val);                 // from ranges
    M c2(std::tie(A.nrows, ptr, col, val));                // from an adapted matrix (row iterator path)
    M c3(c1);                                              // copy
    M c4; c4 = c2;                                         // copy assignment
    M c5(std::move(c3));                                   // move
    M c6; c6 = std::move(c4);                              // move assignment
    backend::crs<float, int, int> f(A);                    // narrowing convert (ints are exact in float)
    M c7(f);
    const M *all[] = {&c1, &c2, &c5, &c6, &c7};
    const char *names[] = {"ranges", "tuple", "move", "moveassign", "viafloat"};
    for (int k = 0; k < 5; ++k) {
        vr::obj o; o.str("k", "copy").str("tag", tag).str("via", names[k]);
        o.raw("A", J(A, o)).raw("out", J(*all[k], o)); put(o);
    }
}
// CRS convert constructor from the block-matrix adapter: the b x b block view of a scalar matrix with
// sorted rows (structurally incomplete blocks are zero-filled) must be the same operator
template <int Bs>
static void c_blockconv(const M &A, const char *tag) {
    typedef static_matrix<double, Bs, Bs> V;
    std::vector<ptrdiff_t> ptr(A.ptr, A.ptr + A.nrows + 1), col(A.col, A.col + A.nnz); std::vector<double> val(A.val, A.val + A.nnz);
    size_t n = A.nrows;
    backend::crs<V, ptrdiff_t, ptrdiff_t> Bm(adapter::block_matrix<V>(std::tie(n, ptr, col, val)));
    vr::obj o; o.str("k", "blockconv").str("tag", tag).i("bs", Bs); o.raw("A", J(A, o)).raw("out", J(*expand<Bs>(Bm), o)); put(o);
}

static void c_gersh(const M &A, const char *tag) {
    double g = backend::spectral_radius<false>(A, 0);
    vr::obj o; o.str("k", "gersh").str("tag", tag).d("out", g); o.raw("A", J(A, o)); put(o);
}

static void c_gersh_scaled(vr::rng &g, int n) {
    // every row has a diagonal entry +-2^k (k = 0..3): the scaled bound max_i sum_j |a_ij| / |a_ii| is dyadic
    auto A = vr::random_int(g, n, n, 0.3, 5, g.coin(), true);
    for (size_t i = 0; i < A->nrows; ++i) for (ptrdiff_t p = A->ptr[i]; p < A->ptr[i+1]; ++p) if (A->col[p] == (ptrdiff_t)i) A->val[p] = std::ldexp(g.coin() ? 1.0 : -1.0, g.range(0, 3));
    double s = backend::spectral_radius<true>(*A, 0);
    vr::obj o; o.str("k", "gershs").str("tag", "dyadic"); bool ok = true; o.i("out", vr::dyadic(s, 8, ok)); if (!ok) o.exact = false; o.raw("A", J(*A, o)); put(o);
}

// ---------------------------------------------------------------- modes
static void mode_small() {
    // the exhaustive small spaces of KernelsModel / PointwiseModel, through the real code
    const int RA = 2, CA = 3, CB = 3;
    for (unsigned am = 0; am < (1u << (RA * CA)); ++am) for (int rev = 0; rev < 2; ++rev) {
        auto A = vr::mk_pattern(RA, CA, am, 0, rev);
        c_transpose(*A, "small"); c_sort(*A, "small"); c_scale(*A, -2, "small"); c_gersh(*A, "small");
        for (unsigned bm = 0; bm < (1u << (CA * CB)); bm += (rev ? 7 : 1)) {
            auto B = vr::mk_pattern(CA, CB, bm, 1, false);
            c_product(*A, *B, 0, false, "small"); c_product(*A, *B, 1, false, "small");
            if (bm % 5 == 0) { c_product(*A, *B, 0, true, "small"); c_product(*A, *B, 2, true, "small"); }
        }
        for (unsigned bm = 0; bm < (1u << (RA * CA)); bm += 3) {
            auto B = vr::mk_pattern(RA, CA, bm, 2, false);
            c_sum(2, *A, -1, *B, false, "small"); if (bm % 2 == 0) c_sum(1, *A, 1, *B, true, "small");
        }
    }
    // wider rows so that every branch of prod_row (0,1,2, even, odd tail) occurs: A 2x5, B 5x3
    for (unsigned am = 0; am < (1u << 10); am += 1) {
        auto A = vr::mk_pattern(2, 5, am, 3, (am & 1));
        for (unsigned bm = 1; bm < (1u << 15); bm = bm * 5 + 3) {
            auto B = vr::mk_pattern(5, 3, bm & 0x7fff, 4, false);
            c_product(*A, *B, 1, false, "wide"); c_product(*A, *B, 0, true, "wide");
        }
    }
    for (unsigned am = 0; am < (1u << 16); ++am) { auto A = vr::mk_pattern(4, 4, am, 0, false); c_pointwise(*A, 2, "small"); if (am % 3 == 0) c_blockconv<2>(*A, "small"); }
    for (unsigned am = 0; am < (1u << 9); ++am) { auto A = vr::mk_pattern(3, 3, am, 0, false); c_diag(*A, "small"); c_copy(*A, "small"); c_pointwise(*A, 3, "small3"); c_pointwise(*A, 1, "small1"); }
    for (unsigned am = 0; am < (1u << 6); ++am) { auto A = vr::mk_pattern(2, 3, am, 1, true); c_copy(*A, "rect"); }
}

static void mode_random(uint64_t seed, int reps, int nmax) {
    vr::rng g(seed + 1000);
    for (int r = 0; r < reps; ++r) {
        int n = g.range(1, nmax), k = g.range(1, nmax), m = g.range(1, nmax);
        double da = g.unit() * 0.3 + 2.0 / std::max(k, 1), db = g.unit() * 0.3 + 2.0 / std::max(m, 1);
        bool shuf = g.coin(0.5);
        auto A = vr::random_int(g, n, k, std::min(da, 0.9), 3, shuf);
        auto B = vr::random_int(g, k, m, std::min(db, 0.9), 3, false);
        auto B2 = vr::random_int(g, n, k, std::min(da, 0.9), 3, g.coin());
        c_transpose(*A, "rand");
        c_product(*A, *B, 0, false, "rand"); c_product(*A, *B, 0, true, "rand");
        c_product(*A, *B, 1, false, "rand"); c_product(*A, *B, 2, g.coin(), "rand");
        c_sum(g.range(-2, 2), *A, g.range(-2, 2), *B2, g.coin(), "rand");
        c_scale(*A, g.range(-3, 3), "rand"); c_sort(*A, "rand"); c_gersh(*A, "rand");
        if (r % 4 == 0) c_copy(*A, "rand");
        { int nb2 = g.range(1, std::max(1, nmax / 2)); auto S2 = vr::random_int(g, 2 * nb2, 2 * nb2, 0.1 + 0.3 * g.unit(), 5, false, g.coin()); c_blockconv<2>(*S2, "rand");
          int nb3 = g.range(1, std::max(1, nmax / 3)); auto S3 = vr::random_int(g, 3 * nb3, 3 * nb3, 0.1 + 0.3 * g.unit(), 5, false, g.coin()); c_blockconv<3>(*S3, "rand"); }
        int bs = g.range(1, 4), nb = g.range(1, std::max(1, nmax / bs)), mb = g.range(1, std::max(1, nmax / bs));
        auto S = vr::random_int(g, nb * bs, mb * bs, 0.15 + g.unit() * 0.3, 9, false);
        c_pointwise(*S, bs, "rand");
        auto D = vr::random_int(g, n, n, da, 3, shuf, true); c_diag(*D, "rand");
        if (r % 3 == 0) c_diag_inv(g, g.range(1, 12));
        if (r % 2 == 0) c_gersh_scaled(g, g.range(1, 16));
        // block and complex values: judged on the harness' own scalar expansion
        if (r % 3 == 0) {
            int bn = g.range(1, 8), bk = g.range(1, 8), bm = g.range(1, 8);
            auto X = block_random<2>(g, bn, bk, 0.4); auto Y = block_random<2>(g, bk, bm, 0.4);
            auto XT = backend::transpose(*X);
            { vr::obj o; o.str("k", "transpose").str("tag", "block2"); o.raw("A", J(*expand<2>(*X), o)).raw("out", J(*expand<2>(*XT), o)); put(o); }
            for (int algo = 0; algo < 2; ++algo) {
                backend::crs<static_matrix<double,2,2>, ptrdiff_t, ptrdiff_t> Z;
                if (algo == 0) backend::spgemm_saad(*X, *Y, Z, false); else backend::spgemm_rmerge(*X, *Y, Z);
                vr::obj o; o.str("k", "product").str("tag", "block2").i("algo", algo).b("sort", false).b("expanded", true);
                o.raw("A", J(*expand<2>(*X), o)).raw("B", J(*expand<2>(*Y), o)).raw("out", J(*expand<2>(Z), o)); put(o);
            }
            {   // 3x3 real blocks (odd block size) and 2x2 blocks of complex numbers (adjoint = conjugate transpose of the block)
                auto X3 = block_random<3>(g, bn, bk, 0.4); auto Y3 = block_random<3>(g, bk, bm, 0.4);
                auto X3T = backend::transpose(*X3);
                { vr::obj o; o.str("k", "transpose").str("tag", "block3"); o.raw("A", J(*expand<3>(*X3), o)).raw("out", J(*expand<3>(*X3T), o)); put(o); }
                for (int algo = 0; algo < 2; ++algo) {
                    backend::crs<static_matrix<double,3,3>, ptrdiff_t, ptrdiff_t> Z;
                    if (algo == 0) backend::spgemm_saad(*X3, *Y3, Z, false); else backend::spgemm_rmerge(*X3, *Y3, Z);
                    vr::obj o; o.str("k", "product").str("tag", "block3").i("algo", algo).b("sort", false).b("expanded", true);
                    o.raw("A", J(*expand<3>(*X3), o)).raw("B", J(*expand<3>(*Y3), o)).raw("out", J(*expand<3>(Z), o)); put(o);
                }
                auto XC = cblock_random<2>(g, bn, bk, 0.4); auto YC = cblock_random<2>(g, bk, bm, 0.4);
                auto XCT = backend::transpose(*XC);
                { vr::obj o; o.str("k", "transpose").str("tag", "cblock2"); o.raw("A", J(*expand(*unblock<std::complex<double>,2>(*XC)), o)).raw("out", J(*expand(*unblock<std::complex<double>,2>(*XCT)), o)); put(o); }
                for (int algo = 0; algo < 2; ++algo) {
                    backend::crs<static_matrix<std::complex<double>,2,2>, ptrdiff_t, ptrdiff_t> Z;
                    if (algo == 0) backend::spgemm_saad(*XC, *YC, Z, false); else backend::spgemm_rmerge(*XC, *YC, Z);
                    vr::obj o; o.str("k", "product").str("tag", "cblock2").i("algo", algo).b("sort", false).b("expanded", true);
                    o.raw("A", J(*expand(*unblock<std::complex<double>,2>(*XC)), o)).raw("B", J(*expand(*unblock<std::complex<double>,2>(*YC)), o)).raw("out", J(*expand(*unblock<std::complex<double>,2>(Z)), o)); put(o);
                }
            }
            auto U = complex_random(g, bn, bk, 0.4); auto W = complex_random(g, bk, bm, 0.4);
            auto UT = backend::transpose(*U);
            { vr::obj o; o.str("k", "transpose").str("tag", "complex"); o.raw("A", J(*expand(*U), o)).raw("out", J(*expand(*UT), o)); put(o); }
            for (int algo = 0; algo < 2; ++algo) {
                backend::crs<std::complex<double>, ptrdiff_t, ptrdiff_t> Z;
                if (algo == 0) backend::spgemm_saad(*U, *W, Z, false); else backend::spgemm_rmerge(*U, *W, Z);
                vr::obj o; o.str("k", "product").str("tag", "complex").i("algo", algo).b("sort", false).b("expanded", true);
                o.raw("A", J(*expand(*U), o)).raw("B", J(*expand(*W), o)).raw("out", J(*expand(Z), o)); put(o);
            }
        }
    }
}

// class-O observations: Gershgorin >= rho(A), power method <= sigma_max(D^-1 A); Eigen is the oracle
static void mode_obs(uint64_t seed, int reps) {
    vr::rng g(seed + 77);
    for (int r = 0; r < reps; ++r) {
        int n = g.range(2, 40);
        bool spd = g.coin();
        auto A = spd ? vr::random_mmatrix(g, n, 0.2, 5, g.range(0, 2)) : vr::random_int(g, n, n, 0.25, 4, false, true);
        for (size_t i = 0; i < A->nrows; ++i) for (ptrdiff_t p = A->ptr[i]; p < A->ptr[i+1]; ++p) if (A->col[p] == (ptrdiff_t)i && A->val[p] == 0) A->val[p] = 1;
        Eigen::MatrixXd E = Eigen::MatrixXd::Zero(n, n), S = Eigen::MatrixXd::Zero(n, n);
        for (int i = 0; i < n; ++i) { double d = 1; for (ptrdiff_t p = A->ptr[i]; p < A->ptr[i+1]; ++p) if (A->col[p] == i) d = A->val[p];
            for (ptrdiff_t p = A->ptr[i]; p < A->ptr[i+1]; ++p) { E(i, A->col[p]) += A->val[p]; S(i, A->col[p]) += A->val[p] / d; } }
        double rho  = E.eigenvalues().cwiseAbs().maxCoeff();
        double rhoS = S.eigenvalues().cwiseAbs().maxCoeff();
        double sig  = Eigen::JacobiSVD<Eigen::MatrixXd>(E).singularValues()(0);
        double sigS = Eigen::JacobiSVD<Eigen::MatrixXd>(S).singularValues()(0);
        double g0 = backend::spectral_radius<false>(*A, 0), g1 = backend::spectral_radius<true>(*A, 0);
        int it = g.coin(0.4) ? 1 : g.range(2, 20);          // one iteration: the estimate is |b0.(A b0)| of the normalised start vector
        double p0 = backend::spectral_radius<false>(*A, it), p1 = backend::spectral_radius<true>(*A, it);
        const double Q = 1048576.0;
        vr::obj o; o.str("k", "specobs").str("tag", spd ? "spd" : "gen").i("n", n).i("iters", it);
        o.i("gersh", (long long)std::ceil(g0 * Q)).i("gershS", (long long)std::ceil(g1 * Q));
        o.i("rho", (long long)std::floor(rho * Q)).i("rhoS", (long long)std::floor(rhoS * Q));
        o.i("pow", (long long)std::floor(p0 * Q)).i("powS", (long long)std::floor(p1 * Q));
        o.i("sig", (long long)std::ceil(sig * Q)).i("sigS", (long long)std::ceil(sigS * Q));
        put(o);
    }
}

// block-valued (2x2 static_matrix) spectral radius: the definition of the Gershgorin bound is
// max_i sum_j ||a_ij||_F (* ||a_ii^-1||_F when scaled); it must bound rho(A) resp. rho(D^-1 A).
// Diagonal blocks are deliberately anisotropic / non-normal so that ||D^-1|| differs from 1/||D||.
static void mode_obs_block(uint64_t seed, int reps) {
    typedef static_matrix<double, 2, 2> V;
    vr::rng g(seed + 991);
    for (int r = 0; r < reps; ++r) {
        int nb = g.range(2, 14);
        auto A = std::make_shared<backend::crs<V, ptrdiff_t, ptrdiff_t>>();
        A->set_size(nb, nb, true);
        std::vector<std::vector<int>> cols(nb);
        for (int i = 0; i < nb; ++i) for (int j = 0; j < nb; ++j) if (i == j || g.coin(0.3)) cols[i].push_back(j);
        for (int i = 0; i < nb; ++i) A->ptr[i+1] = cols[i].size();
        A->set_nonzeros(A->scan_row_sizes());
        for (int i = 0; i < nb; ++i) { ptrdiff_t h = A->ptr[i]; for (int c : cols[i]) { V v;
            if (c == i) { double big = 1.0 + 3.0 * g.unit(), small = std::pow(10.0, -2.0 * g.unit()); v(0,0) = big; v(1,1) = small * big; v(0,1) = 0.3 * g.unit() * small; v(1,0) = 0.0; }
            else for (int a = 0; a < 2; ++a) for (int b = 0; b < 2; ++b) v(a,b) = 0.2 * (g.unit() - 0.5);
            A->col[h] = c; A->val[h] = v; ++h; } }
        int n = 2 * nb;
        Eigen::MatrixXd E = Eigen::MatrixXd::Zero(n, n), S = Eigen::MatrixXd::Zero(n, n);
        long double def0 = 0, def1 = 0;
        for (int i = 0; i < nb; ++i) {
            Eigen::Matrix2d D; long double rs = 0;
            for (ptrdiff_t p = A->ptr[i]; p < A->ptr[i+1]; ++p) { Eigen::Matrix2d Bk; for (int a = 0; a < 2; ++a) for (int b = 0; b < 2; ++b) Bk(a,b) = A->val[p](a,b); if (A->col[p] == i) D = Bk; rs += Bk.norm(); }
            Eigen::Matrix2d Di = D.inverse();
            def0 = std::max(def0, rs); def1 = std::max(def1, rs * (long double)Di.norm());
            for (ptrdiff_t p = A->ptr[i]; p < A->ptr[i+1]; ++p) { Eigen::Matrix2d Bk; for (int a = 0; a < 2; ++a) for (int b = 0; b < 2; ++b) Bk(a,b) = A->val[p](a,b);
                E.block<2,2>(2*i, 2*A->col[p]) += Bk; S.block<2,2>(2*i, 2*A->col[p]) += Di * Bk; }
        }
        double rho = E.eigenvalues().cwiseAbs().maxCoeff(), rhoS = S.eigenvalues().cwiseAbs().maxCoeff();
        double g0 = backend::spectral_radius<false>(*A, 0), g1 = backend::spectral_radius<true>(*A, 0);
        const double Q = 1048576.0;
        auto relerr = [](double got, long double want) { long double e = fabsl(got - want) / want; return e <= 1e-20L ? -20000LL : (long long)llroundl(1000 * log10l(e)); };
        vr::obj o; o.str("k", "blockspec").str("tag", "block2").i("nb", nb);
        o.i("gersh", (long long)std::ceil(g0 * Q)).i("gershS", (long long)std::ceil(g1 * Q)).i("rho", (long long)std::floor(rho * Q)).i("rhoS", (long long)std::floor(rhoS * Q));
        o.i("err", relerr(g0, def0)).i("errS", relerr(g1, def1));
        put(o);
    }
}

int main(int argc, char **argv) {
    vr::install_terminate();
    std::string mode = argc > 1 ? argv[1] : "small";
    uint64_t seed = vr::env_seed();
    bool th = vr::thorough();
    if (mode == "small") mode_small();
    else if (mode == "random") mode_random(seed, vr::env_int("VERIF_REPS", th ? 400 : 60), vr::env_int("VERIF_NMAX", th ? 60 : 24));
    else if (mode == "big") mode_random(seed + 5, vr::env_int("VERIF_REPS", th ? 12 : 3), vr::env_int("VERIF_NMAX", th ? 300 : 150));
    else if (mode == "obs") { mode_obs(seed, vr::env_int("VERIF_REPS", th ? 300 : 60)); mode_obs_block(seed, vr::env_int("VERIF_REPS", th ? 300 : 60)); }
    vr::obj o; o.str("e", "End"); vr::emit(o.done());
    return 0;
}
