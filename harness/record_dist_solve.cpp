// C12 recorder: the distributed solver stack of amgcl on integer SPD M-matrices for every /
// random contiguous partition (empty ranks included), gathered to rank 0 and logged as
// ndjson; the verdict is taken by TLC (spec/C12Trace.tla).
//
//   aggr    mpi::coarsening::pmis on every small strength graph x every partition (+ random):
//           the tentative prolongation -> GlobalPartitionOK, compared with Pmis.tla's PmisRun
//   amg     mpi::amg built with a *recording coarsening* and a *recording repartitioner*
//           (template arguments wrapping the real ones): every (A, P, R, Ac) and every
//           (Ac, I, next A) of the real hierarchy construction -> exact Galerkin predicates
//           (plain aggregation, over_interp 1 | 2: integer / dyadic data), class-O for smoothed
//   direct  mpi::direct::skyline_lu on a distributed system vs the exact / serial solution
//   solve   mpi::make_solver< mpi::amg<runtime coarsening, runtime relaxation, skyline_lu, merge>,
//           runtime solver >: (iterations, residual bits) per rank, true residual of the
//           assembled solution, convergence on SPD M-matrices; block values, subdomain
//           deflation and block_preconditioner configurations
//
// usage: mpirun -n N record_dist_solve <mode>
#include <dist_common.hpp>
#include "pmpi_shim.c"
#include <map>
#include <functional>
#include <boost/property_tree/ptree.hpp>
#include <amgcl/adapter/crs_tuple.hpp>
#include <amgcl/adapter/block_matrix.hpp>
#include <amgcl/value_type/static_matrix.hpp>
#include <amgcl/mpi/make_solver.hpp>
#include <amgcl/mpi/amg.hpp>
#include <amgcl/mpi/coarsening/runtime.hpp>
#include <amgcl/mpi/relaxation/runtime.hpp>
#include <amgcl/mpi/solver/runtime.hpp>
#include <amgcl/mpi/direct_solver/skyline_lu.hpp>
#include <amgcl/mpi/partition/merge.hpp>
#include <amgcl/mpi/subdomain_deflation.hpp>
#include <amgcl/mpi/block_preconditioner.hpp>
#include <amgcl/mpi/relaxation/as_preconditioner.hpp>
#include <amgcl/mpi/relaxation/spai0.hpp>
#include <amgcl/amg.hpp>
#include <amgcl/coarsening/smoothed_aggregation.hpp>
#include <amgcl/relaxation/spai0.hpp>
#include <amgcl/solver/skyline_lu.hpp>

using namespace amgcl;
using dv::ll; using dv::part; using dv::crsd;
typedef boost::property_tree::ptree ptree;

typedef backend::builtin<double> BD;
typedef mpi::distributed_matrix<BD> DM;

static mpi::communicator comm;
static int R, NP;
static bool SHIM = false;
static long CASEID = 0;

#define GUARD(stmt) try { stmt; } catch (const std::exception &e) { \
    fprintf(stderr, "rank %d: exception %s\n", R, e.what()); if (R == 0) { vr::obj x; x.str("e", "Exception").str("what", e.what()).i("case", CASEID); dv::emit(x.done()); } PMPI_Abort(MPI_COMM_WORLD, 3); }

static std::shared_ptr<DM> make_dm(const crsd &A, const part &rp) {
    dv::strip s = dv::take_rows(A, rp[R], rp[R + 1]);
    return std::make_shared<DM>(comm, std::tie(s.n, s.ptr, s.col, s.val), (ptrdiff_t)(rp[R + 1] - rp[R]));
}
// the partition a distributed matrix really has (rows or columns), from the local sizes
static part part_of(ptrdiff_t nloc) {
    std::vector<int> all(NP); int n = (int)nloc;
    PMPI_Allgather(&n, 1, MPI_INT, all.data(), 1, MPI_INT, MPI_COMM_WORLD);
    part p(NP + 1, 0); for (int i = 0; i < NP; ++i) p[i + 1] = p[i] + all[i];
    return p;
}
static void put(vr::obj &o, bool ok) {
    bool good = dv::all_ok(ok && o.exact);
    if (R == 0) { if (good) dv::emit(o.done()); else { vr::obj x; x.str("e", "Inexact").i("case", CASEID); dv::emit(x.done()); } }
}
static void begin_op() { if (SHIM) { dv::barrier(); vshim_begin(); } }
static void end_op(const char *op) {
    if (!SHIM) return;
    std::string log = dv::take_msgs();
    if (R == 0) { vr::obj o; o.str("k", "msgs").str("op", op).i("case", CASEID).i("np", NP).raw("log", log); dv::emit(o.done()); }
}
// distributed matrix -> {"rp":[..],"cp":[..],"n":..,"m":..,"loc":[..],"rem":[..]} scaled by 2^shift
static std::string dm_json(const DM &A, bool &ok, int shift = 0) {
    part rp = part_of(A.loc_rows()), cp = part_of(A.loc_cols());
    std::string parts = dv::gather_dm(A, cp[NP], ok, shift);
    if (R) return "";
    return "{\"rp\":" + dv::jints(rp) + ",\"cp\":" + dv::jints(cp) + ",\"n\":" + std::to_string(rp[NP]) + ",\"m\":" + std::to_string(cp[NP]) + "," + parts.substr(1);
}
// smallest shift <= maxs that makes every value of A an integer (on all ranks), or -1
static int dyadic_shift(const DM &A, int maxs = 12) {
    int s = 0;
    for (; s <= maxs; ++s) {
        bool ok = true;
        for (auto M : {A.local().get(), A.remote().get()}) for (size_t j = 0; j < M->nnz; ++j) dv::q(M->val[j], s, ok);
        if (dv::all_ok(ok)) return s;
    }
    return -1;
}

// ------------------------------------------------------------------ assembled copies (harness side)
static std::shared_ptr<crsd> assemble(const DM &A) {
    // every rank gets the global matrix (rows in rank order, global columns)
    part cp = part_of(A.loc_cols());
    std::vector<double> pk;
    const auto &L = *A.local(); const auto &Rm = *A.remote();
    for (size_t i = 0; i < L.nrows; ++i) {
        pk.push_back((L.ptr[i + 1] - L.ptr[i]) + (Rm.ptr[i + 1] - Rm.ptr[i]));
        for (ptrdiff_t j = L.ptr[i]; j < L.ptr[i + 1]; ++j) { pk.push_back(L.col[j] + cp[R]); pk.push_back(L.val[j]); }
        for (ptrdiff_t j = Rm.ptr[i]; j < Rm.ptr[i + 1]; ++j) { pk.push_back(Rm.col[j]); pk.push_back(Rm.val[j]); }
    }
    int n = (int)pk.size(); std::vector<int> cnt(NP), dsp(NP + 1, 0);
    PMPI_Allgather(&n, 1, MPI_INT, cnt.data(), 1, MPI_INT, MPI_COMM_WORLD);
    for (int i = 0; i < NP; ++i) dsp[i + 1] = dsp[i] + cnt[i];
    std::vector<double> all(dsp[NP] + 1); double dummy = 0;
    PMPI_Allgatherv(n ? pk.data() : &dummy, n, MPI_DOUBLE, all.data(), cnt.data(), dsp.data(), MPI_DOUBLE, MPI_COMM_WORLD);
    std::vector<std::vector<std::pair<int,double>>> rows;
    for (size_t p = 0; p < (size_t)dsp[NP];) { int w = (int)all[p++]; rows.emplace_back(); for (int k = 0; k < w; ++k) { rows.back().push_back(std::make_pair((int)all[p], all[p + 1])); p += 2; } }
    return vr::from_rows((int)rows.size(), cp[NP], rows);
}
static std::vector<double> allgather_vec(const std::vector<double> &mine) {
    int n = (int)mine.size(); std::vector<int> cnt(NP), dsp(NP + 1, 0);
    PMPI_Allgather(&n, 1, MPI_INT, cnt.data(), 1, MPI_INT, MPI_COMM_WORLD);
    for (int i = 0; i < NP; ++i) dsp[i + 1] = dsp[i] + cnt[i];
    std::vector<double> all(dsp[NP] + 1); double dummy = 0;
    PMPI_Allgatherv(n ? (void*)mine.data() : (void*)&dummy, n, MPI_DOUBLE, all.data(), cnt.data(), dsp.data(), MPI_DOUBLE, MPI_COMM_WORLD);
    all.resize(dsp[NP]);
    return all;
}
static ll millidecades(long double v) { if (!(v > 0)) return v == 0 ? -400000 : 999999; long double m = 1000.0L * log10l(v); if (m < -400000) m = -400000; if (m > 400000) m = 400000; return (ll)llroundl(m); }
// max |a_ij - b_ij| / max|b| over the union pattern
static double max_rel_diff(const crsd &A, const crsd &B) {
    double dmax = 0, bmax = 0;
    if (A.nrows != B.nrows) return 1e300;
    for (size_t i = 0; i < A.nrows; ++i) {
        std::map<ptrdiff_t, double> ra, rb;
        for (ptrdiff_t j = A.ptr[i]; j < A.ptr[i + 1]; ++j) ra[A.col[j]] += A.val[j];
        for (ptrdiff_t j = B.ptr[i]; j < B.ptr[i + 1]; ++j) { rb[B.col[j]] += B.val[j]; }
        for (auto &e : rb) { bmax = std::max(bmax, std::fabs(e.second)); dmax = std::max(dmax, std::fabs(e.second - (ra.count(e.first) ? ra[e.first] : 0.0))); }
        for (auto &e : ra) if (!rb.count(e.first)) dmax = std::max(dmax, std::fabs(e.second));
    }
    return bmax > 0 ? dmax / bmax : dmax;
}

// ------------------------------------------------------------------ matrices
// symmetric graph on n nodes from an edge mask (pairs i<j in lexicographic order: the encoding of
// PmisModel.tla), off-diagonals -w, diagonal `diag` (0: degree + 1)
static std::shared_ptr<crsd> graph_matrix(int n, unsigned long mask, int diag, int w = 1) {
    std::vector<std::vector<double>> W(n, std::vector<double>(n, 0.0));
    int k = 0;
    for (int i = 0; i < n; ++i) for (int j = i + 1; j < n; ++j, ++k) if ((mask >> k) & 1ul) W[i][j] = W[j][i] = w;
    std::vector<std::vector<std::pair<int,double>>> rows(n);
    for (int i = 0; i < n; ++i) { double s = 0; for (int j = 0; j < n; ++j) s += W[i][j];
        for (int j = 0; j < n; ++j) { if (j == i) rows[i].push_back(std::make_pair(j, diag ? (double)diag : s + 1)); else if (W[i][j] != 0) rows[i].push_back(std::make_pair(j, -W[i][j])); } }
    return vr::from_rows(n, n, rows);
}

// digraph on n nodes from a mask over the ordered pairs i != j (sorted by i*n+j: the encoding of
// PmisModel.tla with Sym = FALSE): a_ij = -1 stored iff the bit is set (structurally non-symmetric),
// diagonal 2 -> every stored link is strong, the reverse link may be absent
static std::shared_ptr<crsd> digraph_matrix(int n, unsigned long mask) {
    std::vector<std::vector<std::pair<int,double>>> rows(n);
    int k = 0;
    for (int i = 0; i < n; ++i) for (int j = 0; j < n; ++j) {
        if (i == j) { rows[i].push_back(std::make_pair(j, 2.0)); continue; }
        if ((mask >> k) & 1ul) rows[i].push_back(std::make_pair(j, -1.0));
        ++k;
    }
    return vr::from_rows(n, n, rows);
}

// ------------------------------------------------------------------ aggr
static void op_aggr(const char *tag, const crsd &A, const part &rp, int eps_num, int eps_den) {
    ++CASEID;
    auto D = make_dm(A, rp);
    typedef mpi::coarsening::pmis<BD> PM;
    PM::params prm; prm.eps_strong = (double)eps_num / eps_den;
    begin_op();
    PM pm(*D, prm);
    end_op("pmis");
    vr::obj o; bool ok = true;
    o.str("k", "aggr").str("tag", tag).i("case", CASEID).i("np", NP).ints("rp", rp).i("eps_num", eps_num).i("eps_den", eps_den);
    bool ex = true; o.raw("A", vr::crs_json(A, ex)); if (!ex) ok = false;
    o.raw("P", dm_json(*pm.p_tent, ok));
    put(o, ok);
}

// near-null-space vectors across rank boundaries: P * Bc = B  (class O, QR in floating point)
static void op_aggr_nullspace(vr::rng &g, const crsd &A, const part &rp) {
    ++CASEID;
    auto D = make_dm(A, rp);
    typedef mpi::coarsening::pmis<BD> PM;
    int nl = rp[R + 1] - rp[R], nv = 2;
    PM::params prm; prm.eps_strong = 0.25;
    prm.nullspace.cols = nv;
    std::vector<double> Bg(A.nrows * nv);
    for (size_t i = 0; i < A.nrows; ++i) { Bg[i * nv] = 1; Bg[i * nv + 1] = (double)(i % 7) - 3 + 0.25 * g.range(0, 3); }
    prm.nullspace.B.assign(Bg.begin() + rp[R] * nv, Bg.begin() + rp[R + 1] * nv);
    PM pm(*D, prm);
    // coarse vectors: nv x nv block per local aggregate; P has nv columns per aggregate
    auto Pg = assemble(*pm.p_tent);
    std::vector<double> Bc = allgather_vec(prm.nullspace.B);
    double err = 0, bmax = 0;
    bool shape = Bc.size() == Pg->ncols * (size_t)nv;
    if (shape) for (size_t i = 0; i < Pg->nrows; ++i) {
        bool empty = Pg->ptr[i] == Pg->ptr[i + 1];
        for (int c = 0; c < nv; ++c) {
            double s = 0; for (ptrdiff_t j = Pg->ptr[i]; j < Pg->ptr[i + 1]; ++j) s += Pg->val[j] * Bc[Pg->col[j] * nv + c];
            if (!empty) { err = std::max(err, std::fabs(s - Bg[i * nv + c])); bmax = std::max(bmax, std::fabs(Bg[i * nv + c])); }
        }
    }
    vr::obj o; o.str("k", "nullspace").str("tag", "rand").i("case", CASEID).i("np", NP).ints("rp", rp).i("n", A.nrows).b("shape", shape)
        .i("err", millidecades(bmax > 0 ? err / bmax : err)).i("ncoarse", Pg->ncols);
    put(o, true);
    (void)nl;
}

// ------------------------------------------------------------------ recording template arguments
struct rec_state {
    bool on = false; std::string cname; int over = 1; int level = 0;
    bool pending = false; std::string Ac, I; int shift = 0;
    part rp0;
} g_rec;

static void log_level(const DM &A, const DM &P, const DM &Rm, const DM &Ac) {
    if (!g_rec.on) return;
    bool ok = true;
    int sA = dyadic_shift(A), sC = dyadic_shift(Ac), sP = dyadic_shift(P, 0), sR = dyadic_shift(Rm, 0);
    vr::obj o; o.str("tag", g_rec.cname).i("case", CASEID).i("np", NP).i("lvl", g_rec.level).i("over", g_rec.over);
    if (sA >= 0 && sC >= 0 && sP == 0 && sR == 0) {
        o.str("k", "level").i("sA", sA).i("sC", sC);
        o.raw("A", dm_json(A, ok, sA)).raw("P", dm_json(P, ok)).raw("R", dm_json(Rm, ok)).raw("Ac", dm_json(Ac, ok, sC));
    } else {
        // not dyadic (smoothed aggregation, over_interp 1.5): the serial kernels on the assembled
        // matrices are the oracle, compared in floating point
        auto Ag = assemble(A), Pg = assemble(P), Rg = assemble(Rm), Cg = assemble(Ac);
        auto Tg = backend::transpose(*Pg);
        auto Gg = backend::product(*Rg, *backend::product(*Ag, *Pg));
        // over_interp is a float parameter and the code scales by the float 1 / over_interp
        if (g_rec.cname == "aggregation") backend::scale(*Gg, 1 / (g_rec.over == 3 ? 1.5f : (float)g_rec.over));
        o.str("k", "levelO").i("n", Ag->nrows).i("nc", Pg->ncols)
         .i("errR", millidecades(max_rel_diff(*Rg, *Tg))).i("errAc", millidecades(max_rel_diff(*Cg, *Gg)));
        // every row of P that belongs to an aggregate must interpolate constants: row sums (SA: filtered rows sum to 1 too)
    }
    put(o, ok);
    ++g_rec.level;
}

template <class Base>
struct rec_coarsening {
    typedef typename Base::params params;
    Base base;
    rec_coarsening(const params &p = params()) : base(p) {}
    std::tuple<std::shared_ptr<DM>, std::shared_ptr<DM>> transfer_operators(const DM &A) {
        if (g_rec.on && g_rec.pending) {
            bool ok = true; vr::obj o;
            o.str("k", "repart").str("tag", g_rec.cname).i("case", CASEID).i("np", NP).i("lvl", g_rec.level).i("ratio", g_rec.shift);
            int s = dyadic_shift(A);
            o.i("sA", s).raw("Ac", g_rec.Ac).raw("I", g_rec.I).raw("An", dm_json(A, ok, s < 0 ? 0 : s));
            put(o, ok && s >= 0);
            g_rec.pending = false;
        }
        return base.transfer_operators(A);
    }
    std::shared_ptr<DM> coarse_operator(const DM &A, const DM &P, const DM &Rm) const {
        auto Ac = base.coarse_operator(A, P, Rm);
        log_level(A, P, Rm, *Ac);
        return Ac;
    }
};
template <class Base> unsigned block_size(const rec_coarsening<Base> &c) { return block_size(c.base); }

template <class Base>
struct rec_repart {
    typedef typename Base::params params;
    Base base; int ratio;
    rec_repart(const params &p = params()) : base(p), ratio(p.shrink_ratio) {}
    bool is_needed(const DM &A) const { return base.is_needed(A); }
    std::shared_ptr<DM> operator()(const DM &A, unsigned bs = 1) const {
        auto I = base(A, bs);
        if (g_rec.on) {
            bool ok = true; int s = dyadic_shift(A);
            g_rec.Ac = dm_json(A, ok, s < 0 ? 0 : s); g_rec.I = dm_json(*I, ok); g_rec.pending = dv::all_ok(ok && s >= 0); g_rec.shift = ratio;
        }
        return I;
    }
};

typedef rec_coarsening< runtime::mpi::coarsening::wrapper<BD> > RCoarsening;
typedef rec_repart< mpi::partition::merge<BD> > RRepart;
typedef mpi::amg<BD, RCoarsening, runtime::mpi::relaxation::wrapper<BD>, mpi::direct::skyline_lu<double>, RRepart> AMG;
typedef mpi::make_solver<AMG, runtime::mpi::solver::wrapper<BD>> Solver;

// ------------------------------------------------------------------ amg (hierarchy construction, recorded)
static void op_amg(const char *coarsening, int over, const crsd &A, const part &rp, bool repart, int ratio, int coarse_enough, bool rebuild = false) {
    ++CASEID;
    ptree p;
    p.put("coarsening.type", coarsening);
    p.put("coarsening.aggr.eps_strong", 0.25);
    if (std::string(coarsening) == "aggregation") p.put("coarsening.over_interp", over == 3 ? 1.5 : (double)over);
    p.put("relax.type", "spai0");
    p.put("coarse_enough", coarse_enough);
    p.put("repart.enable", repart);
    p.put("repart.min_per_proc", 100000);
    p.put("repart.shrink_ratio", ratio);
    g_rec = rec_state(); g_rec.on = true; g_rec.cname = coarsening; g_rec.over = over;
    auto D = make_dm(A, rp);
    { vr::obj o; o.str("k", "amgcase").i("case", CASEID).i("np", NP).ints("rp", rp).i("n", A.nrows).str("coarsening", coarsening).i("over", over).b("repart", repart).i("ratio", ratio); put(o, true); }
    p.put("allow_rebuild", rebuild);
    begin_op();
    AMG amg(comm, D, p);
    end_op("amg-setup");
    if (rebuild) {
        // rebuild with a new matrix (2 A): the transfer operators kept by move_to_backend(keep_src = true)
        // are reused, every rebuilt level must again be the (re-scaled) Galerkin product
        crsd A2(A); for (size_t j = 0; j < A2.nnz; ++j) A2.val[j] *= 2;
        { vr::obj o; o.str("k", "amgcase").i("case", CASEID).i("np", NP).ints("rp", rp).i("n", A.nrows).str("coarsening", coarsening).i("over", over).b("repart", repart).i("ratio", ratio).b("rebuild", true); put(o, true); }
        g_rec.level = 0; g_rec.pending = false;
        amg.rebuild(make_dm(A2, rp));
    }
    g_rec.on = false;
}

// ------------------------------------------------------------------ direct
static void op_direct(vr::rng &g, const crsd &A, const part &rp) {
    ++CASEID;
    int n = A.nrows;
    std::vector<double> xe(n), f(n, 0.0);
    for (auto &v : xe) v = g.range(-4, 4);
    for (int i = 0; i < n; ++i) for (ptrdiff_t j = A.ptr[i]; j < A.ptr[i + 1]; ++j) f[i] += A.val[j] * xe[A.col[j]];
    auto D = make_dm(A, rp);
    begin_op();
    mpi::direct::skyline_lu<double> S(comm, *D);
    std::vector<double> fl(f.begin() + rp[R], f.begin() + rp[R + 1]), xl(rp[R + 1] - rp[R], 0.0);
    S(fl, xl);
    S(fl, xl);      // the solver object is reused by every cycle
    end_op("direct");
    bool ok = true;
    vr::obj o; o.str("k", "direct").str("tag", "rand").i("case", CASEID).i("np", NP).ints("rp", rp);
    bool ex = true; o.raw("A", vr::crs_json(A, ex)); if (!ex) ok = false;
    o.dbls("f", f).dbls("xe", xe);
    std::vector<ll> xq(xl.size()); for (size_t i = 0; i < xl.size(); ++i) { double v = std::ldexp(xl[i], 24); xq[i] = std::isfinite(v) && std::fabs(v) < 1e9 ? (ll)std::llround(v) : 999999999; }
    o.raw("xq", dv::gather_vec(xq));
    put(o, ok);
}

// the same clause for block value types: mpi::direct::skyline_lu<static_matrix<double,B,B>> directly on a
// small distributed block matrix (A = kron(S, T_B), S an M-matrix, T_B = tridiag(-1, 2, -1): SPD, integer),
// rhs / solution travel as block vectors between the slave ranks and the master
template <int B>
static void op_direct_block(vr::rng &g, const crsd &S, const part &rpb /* block rows */) {
    ++CASEID;
    typedef static_matrix<double, B, B> VB; typedef static_matrix<double, B, 1> RB;
    typedef backend::builtin<VB> BBk; typedef mpi::distributed_matrix<BBk> DMB;
    int nb = S.nrows, n = nb * B;
    std::vector<std::vector<std::pair<int,double>>> rows(n);
    for (int i = 0; i < nb; ++i) for (ptrdiff_t j = S.ptr[i]; j < S.ptr[i + 1]; ++j) for (int a = 0; a < B; ++a) for (int b = 0; b < B; ++b) {
        double t = a == b ? 2 : (std::abs(a - b) == 1 ? -1 : 0);
        rows[B * i + a].push_back(std::make_pair((int)(B * S.col[j] + b), S.val[j] * t));     // explicit zeros keep the blocks full
    }
    auto A = vr::from_rows(n, n, rows);
    std::vector<double> xe(n), f(n, 0.0);
    for (auto &v : xe) v = g.range(-4, 4);
    for (int i = 0; i < n; ++i) for (ptrdiff_t j = A->ptr[i]; j < A->ptr[i + 1]; ++j) f[i] += A->val[j] * xe[A->col[j]];
    int rb = B * rpb[R], re = B * rpb[R + 1], nl = rpb[R + 1] - rpb[R];
    dv::strip s = dv::take_rows(*A, rb, re);
    auto Ts = std::tie(s.n, s.ptr, s.col, s.val);
    auto Ab = adapter::block_matrix<VB>(Ts);
    DMB D(comm, Ab, (ptrdiff_t)nl);
    begin_op();
    mpi::direct::skyline_lu<VB> Sv(comm, D);
    std::vector<RB> fl(nl), xl(nl, math::zero<RB>());
    for (int i = 0; i < nl; ++i) for (int a = 0; a < B; ++a) fl[i](a) = f[rb + B * i + a];
    Sv(fl, xl);
    Sv(fl, xl);
    end_op("direct-block");
    bool ok = true;
    part rps(rpb); for (auto &v : rps) v *= B;
    vr::obj o; o.str("k", "direct").str("tag", B == 2 ? "block2" : "block3").i("case", CASEID).i("np", NP).ints("rp", rps).i("bs", B);
    bool ex = true; o.raw("A", vr::crs_json(*A, ex)); if (!ex) ok = false;
    o.dbls("f", f).dbls("xe", xe);
    std::vector<ll> xq(nl * B); for (int i = 0; i < nl; ++i) for (int a = 0; a < B; ++a) { double v = std::ldexp(xl[i](a), 24); xq[B * i + a] = std::isfinite(v) && std::fabs(v) < 1e9 ? (ll)std::llround(v) : 999999999; }
    o.raw("xq", dv::gather_vec(xq));
    put(o, ok);
}

// ------------------------------------------------------------------ solve
struct cfg { std::string coarsening, relax, solver; bool repart; int ratio; };

template <class V> static std::vector<ll> bits_digest(V v) { vr::digest d; d.pod(v); return std::vector<ll>{d.lo(), d.hi()}; }

static long double true_residual(const crsd &A, const std::vector<double> &f, const std::vector<double> &x) {
    long double rr = 0, ff = 0;
    for (size_t i = 0; i < A.nrows; ++i) { long double s = f[i]; for (ptrdiff_t j = A.ptr[i]; j < A.ptr[i + 1]; ++j) s -= (long double)A.val[j] * x[A.col[j]]; rr += s * s; ff += (long double)f[i] * f[i]; }
    return ff > 0 ? sqrtl(rr / ff) : sqrtl(rr);
}

static void emit_solve(const char *kind, const std::string &desc, const crsd &A, const part &rp, const std::vector<double> &f,
                       const std::vector<double> &xl, size_t iters, double resid, double tol, int maxiter, bool expect, const char *fam) {
    std::vector<double> x = allgather_vec(xl);
    long double tr = x.size() == A.nrows ? true_residual(A, f, x) : 1e30L;
    vr::obj o; o.str("k", "solve").str("kind", kind).str("cfg", desc).str("fam", fam).i("case", CASEID).i("np", NP).ints("rp", rp).i("n", A.nrows);
    std::vector<ll> it = {(ll)iters};
    o.raw("iters", dv::gather_lists(it)).raw("resbits", dv::gather_lists(bits_digest(resid)));
    o.i("rep", millidecades(resid)).i("tru", millidecades(tr)).i("tol", millidecades(tol)).i("maxiter", maxiter).b("expect", expect);
    bool fin = true; for (double v : x) if (!std::isfinite(v)) fin = false;
    o.b("finite", fin);
    put(o, true);
}

static void op_solve(const cfg &c, const crsd &A, const part &rp, const std::vector<double> &f, const char *fam, bool expect) {
    ++CASEID;
    double tol = 1e-8; int maxiter = 200;
    ptree p;
    p.put("precond.coarsening.type", c.coarsening);
    p.put("precond.relax.type", c.relax);
    p.put("precond.coarse_enough", 40);
    p.put("precond.repart.enable", c.repart);
    p.put("precond.repart.min_per_proc", 100000);
    p.put("precond.repart.shrink_ratio", c.ratio);
    p.put("solver.type", c.solver);
    p.put("solver.tol", tol);
    p.put("solver.maxiter", maxiter);
    g_rec = rec_state();
    auto D = make_dm(A, rp);
    std::vector<double> fl(f.begin() + rp[R], f.begin() + rp[R + 1]), xl(rp[R + 1] - rp[R], 0.0);
    begin_op();
    Solver S(comm, D, p);
    size_t iters; double resid;
    std::tie(iters, resid) = S(fl, xl);
    end_op("solve");
    std::string desc = c.coarsening + "/" + c.relax + "/" + c.solver + (c.repart ? "/merge" + std::to_string(c.ratio) : "/norepart");
    emit_solve("amg", desc, A, rp, f, xl, iters, resid, tol, maxiter, expect, fam);
}

typedef static_matrix<double, 2, 2> V2;
typedef static_matrix<double, 2, 1> R2;
typedef backend::builtin<V2> BB;
// history on one object: construct(allow_rebuild) with A1, rebuild(A2 = 4 A1), solve / apply -- compared with a
// hierarchy freshly built from A2 (a power-of-two scaling keeps strength, aggregates and transfer operators, so
// both hierarchies are the same operator; every level including the direct coarse solver must have been refreshed)
static void op_rebuild(const cfg &c, const crsd &A1, const part &rp, const std::vector<double> &f) {
    ++CASEID;
    double tol = 1e-8; int maxiter = 200;
    ptree p;
    p.put("precond.coarsening.type", c.coarsening);
    p.put("precond.relax.type", c.relax);
    p.put("precond.coarse_enough", 20);
    p.put("precond.allow_rebuild", true);
    p.put("precond.repart.enable", c.repart);
    p.put("precond.repart.min_per_proc", 100000);
    p.put("precond.repart.shrink_ratio", c.ratio);
    p.put("solver.type", c.solver);
    p.put("solver.tol", tol);
    p.put("solver.maxiter", maxiter);
    g_rec = rec_state();
    crsd A2(A1); for (size_t j = 0; j < A2.nnz; ++j) A2.val[j] *= 4;
    int nl = rp[R + 1] - rp[R];
    std::vector<double> fl(f.begin() + rp[R], f.begin() + rp[R + 1]), x1(nl, 0.0), x2(nl, 0.0), y1(nl, 0.0), y2(nl, 0.0);
    Solver S1(comm, make_dm(A1, rp), p);
    S1.precond().rebuild(make_dm(A2, rp));
    Solver S2(comm, make_dm(A2, rp), p);
    size_t it1, it2; double r1, r2;
    std::tie(it1, r1) = S1(fl, x1);
    std::tie(it2, r2) = S2(fl, x2);
    S1.precond().apply(fl, y1);
    S2.precond().apply(fl, y2);
    std::vector<double> Y1 = allgather_vec(y1), Y2 = allgather_vec(y2);
    long double d = 0, nn = 0; for (size_t i = 0; i < Y1.size(); ++i) { d += (long double)(Y1[i] - Y2[i]) * (Y1[i] - Y2[i]); nn += (long double)Y2[i] * Y2[i]; }
    std::string desc = c.coarsening + "/" + c.relax + "/" + c.solver + (c.repart ? "/merge" + std::to_string(c.ratio) : "/norepart") + "/rebuilt";
    { vr::obj o; o.str("k", "rebuild").str("cfg", desc).i("case", CASEID).i("np", NP).ints("rp", rp).i("n", A1.nrows);
      o.i("it_rebuilt", it1).i("it_fresh", it2).i("err", millidecades(nn > 0 ? sqrtl(d / nn) : sqrtl(d)));
      o.raw("resbits_rebuilt", dv::gather_lists(bits_digest(r1))); put(o, true); }
    // and the rebuilt object is truthful about the NEW system
    emit_solve("amg", desc, A2, rp, f, x1, it1, r1, tol, maxiter, true, "spd_m");
}

// block smoothed aggregation with NON-COMMUTING coupling blocks: 2-D grid, x-links Wx, y-links Wy (SPD, Wx Wy != Wy Wx),
// A_ij = -W, A_ii = sum of the W of the row (zero block row sums): the smoothed P must reproduce the block constants
// (sum_j P_ij = I) on every aggregated row, R = P^T and Ac = R A P  (serial kernels on the scalar expansion as oracle)
template <class DMB>
static std::shared_ptr<crsd> assemble_block2(const DMB &A) {
    part cp = part_of(A.loc_cols());
    std::vector<double> pk;
    const auto &L = *A.local(); const auto &Rm = *A.remote();
    for (size_t i = 0; i < L.nrows; ++i) {
        pk.push_back((L.ptr[i + 1] - L.ptr[i]) + (Rm.ptr[i + 1] - Rm.ptr[i]));
        for (ptrdiff_t j = L.ptr[i]; j < L.ptr[i + 1]; ++j) { pk.push_back(L.col[j] + cp[R]); for (int a = 0; a < 2; ++a) for (int b = 0; b < 2; ++b) pk.push_back(L.val[j](a, b)); }
        for (ptrdiff_t j = Rm.ptr[i]; j < Rm.ptr[i + 1]; ++j) { pk.push_back(Rm.col[j]); for (int a = 0; a < 2; ++a) for (int b = 0; b < 2; ++b) pk.push_back(Rm.val[j](a, b)); }
    }
    std::vector<double> all = allgather_vec(pk);
    std::vector<std::vector<std::pair<int,double>>> rows;
    for (size_t q = 0; q < all.size();) {
        int w = (int)all[q++]; size_t r0 = rows.size(); rows.emplace_back(); rows.emplace_back();
        for (int k = 0; k < w; ++k) { int c = (int)all[q++]; for (int a = 0; a < 2; ++a) for (int b = 0; b < 2; ++b) rows[r0 + a].push_back(std::make_pair(2 * c + b, all[q++])); }
    }
    return vr::from_rows((int)rows.size(), 2 * cp[NP], rows);
}
static void op_block_sa(vr::rng &g, int nx, int ny, const part &rpb) {
    ++CASEID;
    typedef mpi::distributed_matrix<BB> DMB;
    const double Wx[2][2] = {{2, 1}, {1, 2}}, Wy[2][2] = {{1, 0}, {0, 3}};
    int nb = nx * ny;
    std::vector<std::vector<std::pair<int,double>>> rows(2 * nb);
    for (int j = 0; j < ny; ++j) for (int i = 0; i < nx; ++i) {
        int k = j * nx + i; double D[2][2] = {{0, 0}, {0, 0}};
        std::vector<std::pair<int, const double(*)[2]>> nbrs;
        if (j > 0) nbrs.push_back({k - nx, Wy}); if (i > 0) nbrs.push_back({k - 1, Wx});
        if (i + 1 < nx) nbrs.push_back({k + 1, Wx}); if (j + 1 < ny) nbrs.push_back({k + nx, Wy});
        for (auto &e : nbrs) for (int a = 0; a < 2; ++a) for (int b = 0; b < 2; ++b) D[a][b] += e.second[a][b];
        std::vector<std::pair<int, double>> ent[2];
        bool diag_done = false;
        auto put_blk = [&](int c, const double M[2][2], double sgn) { for (int a = 0; a < 2; ++a) for (int b = 0; b < 2; ++b) rows[2 * k + a].push_back(std::make_pair(2 * c + b, sgn * M[a][b])); };
        for (auto &e : nbrs) { if (!diag_done && e.first > k) { put_blk(k, D, 1); diag_done = true; } put_blk(e.first, e.second, -1); }
        if (!diag_done) put_blk(k, D, 1);
    }
    auto A = vr::from_rows(2 * nb, 2 * nb, rows);
    int rb = 2 * rpb[R], re = 2 * rpb[R + 1];
    dv::strip s = dv::take_rows(*A, rb, re);
    auto Ts = std::tie(s.n, s.ptr, s.col, s.val);
    auto Ab = adapter::block_matrix<V2>(Ts);
    DMB D(comm, Ab, (ptrdiff_t)(rpb[R + 1] - rpb[R]));
    long crossing = 0; for (size_t i = 0; i < D.remote()->nrows; ++i) if (D.remote()->ptr[i + 1] > D.remote()->ptr[i]) ++crossing;
    mpi::coarsening::smoothed_aggregation<BB>::params cp_; cp_.aggr.eps_strong = 0.08f;
    mpi::coarsening::smoothed_aggregation<BB> C(cp_);
    std::shared_ptr<DMB> P, Rt;
    std::tie(P, Rt) = C.transfer_operators(D);
    auto Ac = C.coarse_operator(D, *P, *Rt);
    auto Ag = assemble_block2(D), Pg = assemble_block2(*P), Rg = assemble_block2(*Rt), Cg = assemble_block2(*Ac);
    // block constants: sum_j P_ij = I_2 on every aggregated (non-empty) row
    double es = 0; long aggregated = 0;
    for (size_t i = 0; i < Pg->nrows; ++i) {
        if (Pg->ptr[i] == Pg->ptr[i + 1]) continue;
        ++aggregated;
        double s0 = 0, s1 = 0; for (ptrdiff_t j = Pg->ptr[i]; j < Pg->ptr[i + 1]; ++j) (Pg->col[j] % 2 ? s1 : s0) += Pg->val[j];
        double w0 = i % 2 == 0 ? 1 : 0, w1 = 1 - w0;
        es = std::max(es, std::max(std::fabs(s0 - w0), std::fabs(s1 - w1)));
    }
    auto Tg = backend::transpose(*Pg);
    auto Gg = backend::product(*Rg, *backend::product(*Ag, *Pg));
    long cr = 0; { ll a = crossing, b = 0; PMPI_Allreduce(&a, &b, 1, MPI_LONG_LONG_INT, MPI_SUM, MPI_COMM_WORLD); cr = (long)b; }
    vr::obj o; o.str("k", "blocksa").str("tag", "noncommuting").i("case", CASEID).i("np", NP).ints("rp", rpb).i("n", nb).i("nc", Pg->ncols / 2)
        .i("crossing", cr).i("aggregated", aggregated)
        .i("errSum", millidecades(es)).i("errR", millidecades(max_rel_diff(*Rg, *Tg))).i("errAc", millidecades(max_rel_diff(*Cg, *Gg)));
    put(o, true);
    (void)g;
}

// 2x2 block values: fixed (compile-time) composition
static void op_solve_block(const crsd &A, const part &rp /* in block rows */, const std::vector<double> &f, const char *csn) {
    ++CASEID;
    typedef mpi::distributed_matrix<BB> DMB;
    double tol = 1e-8; int maxiter = 200;
    int rb = 2 * rp[R], re = 2 * rp[R + 1];
    dv::strip s = dv::take_rows(A, rb, re);
    auto Ts = std::tie(s.n, s.ptr, s.col, s.val);      // the adapter keeps a reference
    auto Ab = adapter::block_matrix<V2>(Ts);
    auto D = std::make_shared<DMB>(comm, Ab, (ptrdiff_t)(rp[R + 1] - rp[R]));
    ptree p;
    p.put("precond.coarsening.type", csn);
    p.put("precond.relax.type", "spai0");
    p.put("precond.coarse_enough", 20);
    p.put("solver.type", "cg");
    p.put("solver.tol", tol);
    p.put("solver.maxiter", maxiter);
    typedef mpi::make_solver<
        mpi::amg<BB, runtime::mpi::coarsening::wrapper<BB>, runtime::mpi::relaxation::wrapper<BB>, mpi::direct::skyline_lu<V2>, mpi::partition::merge<BB>>,
        runtime::mpi::solver::wrapper<BB>> SolverB;
    SolverB S(comm, D, p);
    int nl = rp[R + 1] - rp[R];
    std::vector<R2> fl(nl), xl(nl, math::zero<R2>());
    for (int i = 0; i < nl; ++i) { fl[i](0) = f[rb + 2 * i]; fl[i](1) = f[rb + 2 * i + 1]; }
    size_t iters; double resid;
    std::tie(iters, resid) = S(fl, xl);
    std::vector<double> xs(2 * nl); for (int i = 0; i < nl; ++i) { xs[2 * i] = xl[i](0); xs[2 * i + 1] = xl[i](1); }
    part rps(rp); for (auto &v : rps) v *= 2;
    emit_solve("block2", std::string(csn) + "/spai0/cg/block2", A, rps, f, xs, iters, resid, tol, maxiter, true, "block");
}

// subdomain deflation and block preconditioner (non-empty subdomains)
// number of deflation vectors of rank r under a pattern: 1..3 uniform; 4: 1 + r % 3; 5: the reverse order;
// 6: 3, 1, 3, 1, ...   (0 vectors on a rank is outside the class' contract: postprocess() calls
// backend::lin_comb(ndv, ...), which reads c[0], *v[0] unconditionally)
static int ndv_of(int pattern, int r, int np, int nloc) {
    int k = pattern <= 3 ? pattern : pattern == 4 ? 1 + r % 3 : pattern == 5 ? 1 + (np - 1 - r) % 3 : (r % 2 ? 1 : 3);
    return std::max(1, std::min(k, nloc));
}
// irregular partition with at least `lo` rows on every rank
static part nonempty_part(vr::rng &g, int n, int lo) {
    part p(NP + 1, 0); p[NP] = n;
    int slack = n - lo * NP; if (slack < 0) return dv::random_part(g, n, NP, 0);
    std::vector<int> c; for (int r = 1; r < NP; ++r) c.push_back(g.range(0, slack)); std::sort(c.begin(), c.end());
    for (int r = 1; r < NP; ++r) p[r] = c[r - 1] + lo * r;
    return p;
}
static void op_solve_sdd(const crsd &A, const part &rp, const std::vector<double> &f, int pattern = 1, const char *fam = "spd_m") {
    ++CASEID;
    typedef amgcl::amg<BD, amgcl::coarsening::smoothed_aggregation, amgcl::relaxation::spai0> Local;
    typedef mpi::subdomain_deflation<Local, runtime::mpi::solver::wrapper<BD>, mpi::direct::skyline_lu<double>> SDD;
    double tol = 1e-8; int maxiter = 200;
    ptree p;
    // constant, linear and quadratic (in the local row number) deflation vectors per subdomain;
    // num_def_vec is a per-process parameter: patterns >= 4 give every rank a different number
    int nloc = rp[R + 1] - rp[R];
    int ndv = ndv_of(pattern, R, NP, nloc);
    std::function<double(ptrdiff_t, unsigned)> dvf = [nloc](ptrdiff_t i, unsigned j) {
        double t = nloc > 1 ? (double)i / (nloc - 1) : 0.0;
        return j == 0 ? 1.0 : (j == 1 ? t - 0.5 : (t - 0.5) * (t - 0.5));
    };
    p.put("num_def_vec", ndv);
    p.put("def_vec", static_cast<void*>(&dvf));
    p.put("isolver.type", "bicgstab");
    p.put("isolver.tol", tol);
    p.put("isolver.maxiter", maxiter);
    dv::strip s = dv::take_rows(A, rp[R], rp[R + 1]);
    std::vector<double> fl(f.begin() + rp[R], f.begin() + rp[R + 1]), xl(rp[R + 1] - rp[R], 0.0);
    SDD S(comm, std::tie(s.n, s.ptr, s.col, s.val), p);
    size_t iters; double resid;
    std::tie(iters, resid) = S(fl, xl);
    static const char *PN[] = {"", "ndv1", "ndv2", "ndv3", "ndv-ascending", "ndv-descending", "ndv-alternating"};
    emit_solve("sdd", std::string("subdomain_deflation/sa-spai0/bicgstab/") + PN[pattern], A, rp, f, xl, iters, resid, tol, maxiter, true, fam);
}
static void op_solve_bp(const crsd &A, const part &rp, const std::vector<double> &f) {
    ++CASEID;
    typedef amgcl::amg<BD, amgcl::coarsening::smoothed_aggregation, amgcl::relaxation::spai0> Local;
    typedef mpi::make_solver<mpi::block_preconditioner<Local>, runtime::mpi::solver::wrapper<BD>> BP;
    double tol = 1e-8; int maxiter = 500;
    ptree p;
    p.put("solver.type", "cg");
    p.put("solver.tol", tol);
    p.put("solver.maxiter", maxiter);
    dv::strip s = dv::take_rows(A, rp[R], rp[R + 1]);
    std::vector<double> fl(f.begin() + rp[R], f.begin() + rp[R + 1]), xl(rp[R + 1] - rp[R], 0.0);
    BP S(comm, std::tie(s.n, s.ptr, s.col, s.val), p);
    size_t iters; double resid;
    std::tie(iters, resid) = S(fl, xl);
    emit_solve("bp", "block_preconditioner/sa-spai0/cg", A, rp, f, xl, iters, resid, tol, maxiter, true, "spd_m");
}

// ------------------------------------------------------------------ modes
static part thin_part(vr::rng &g, int n, int style) { return dv::random_part(g, n, NP, style); }

static void mode_aggr(uint64_t seed, bool th) {
    vr::rng g(seed + 31);
    // exhaustive small: every graph on 4 nodes (5 nodes thinned by VERIF_STRIDE), every partition
    int stride = vr::env_int("VERIF_STRIDE", 1);
    for (int n = 4; n <= 5; ++n) {
        auto parts = dv::all_parts(n, NP);
        unsigned long nm = 1ul << (n * (n - 1) / 2);
        int st = n == 4 ? std::max(1, stride / 8) : stride;
        for (unsigned long m = (seed % st); m < nm; m += st) {
            for (size_t k = 0; k < parts.size(); ++k) {
                if (st > 1 && parts.size() > 8 && ((m / st + k) % 3)) continue;
                auto A = graph_matrix(n, m, (m + k) % 2 ? 2 : 0);      // diag 2: every link strong; degree+1: weak links between hubs
                GUARD(op_aggr("small", *A, parts[k], 1, 4));
            }
        }
    }
    // non-symmetric strength (aggregates can vanish and are renumbered): every digraph on 3 nodes,
    // the digraphs on 4 nodes thinned by the stride
    for (int n = 3; n <= 4; ++n) {
        auto parts = dv::all_parts(n, NP);
        unsigned long nm = 1ul << (n * (n - 1));
        int st = n == 3 ? std::max(1, stride / 16) : std::max(4, stride * 4);
        for (unsigned long m = (seed % st); m < nm; m += st) {
            for (size_t k = 0; k < parts.size(); ++k) {
                if (st > 1 && parts.size() > 8 && ((m / st + k) % 3)) continue;
                auto A = digraph_matrix(n, m);
                GUARD(op_aggr("digraph", *A, parts[k], 1, 4));
            }
        }
    }
    int reps = vr::env_int("VERIF_REPS", th ? 300 : 60);
    for (int r = 0; r < reps; ++r) {
        if (r % 3 == 2) {
            // random structurally non-symmetric matrix with a positive diagonal
            int n = g.range(2, th ? 30 : 16);
            auto A = vr::random_int(g, n, n, 0.15 + g.unit() * 0.2, 3, false, true);
            for (size_t i = 0; i < A->nrows; ++i) for (ptrdiff_t j = A->ptr[i]; j < A->ptr[i + 1]; ++j) if (A->col[j] == (ptrdiff_t)i) A->val[j] = g.range(2, 5);
            GUARD(op_aggr("randns", *A, thin_part(g, n, g.below(4)), 1, g.coin() ? 4 : 2));
            continue;
        }
        int n = g.range(2, th ? 40 : 24);
        auto A = vr::random_mmatrix(g, n, g.unit() * 0.25, 3, g.range(0, 2), g.coin(0.6));
        part rp = thin_part(g, n, g.below(4));
        int den = g.coin() ? 4 : 2;
        GUARD(op_aggr("rand", *A, rp, 1, den));
        if (r % 6 == 0) GUARD(op_aggr_nullspace(g, *A, rp));
    }
}

static void mode_amg(uint64_t seed, bool th) {
    vr::rng g(seed + 57);
    int reps = vr::env_int("VERIF_REPS", th ? 40 : 8);
    for (int r = 0; r < reps; ++r) {
        bool grid = g.coin(0.5);
        int nx = g.range(5, th ? 14 : 9), ny = g.range(4, th ? 12 : 8);
        auto A = grid ? vr::poisson2d(nx, ny, g.range(1, 3), 1) : vr::random_mmatrix(g, g.range(20, th ? 150 : 70), 0.06, 3, 1, true);
        int n = A->nrows;
        part rp = thin_part(g, n, g.below(4));
        bool rep = g.coin(0.6);
        int ratio = g.range(2, 3);
        int over = g.coin() ? 1 : 2;
        GUARD(op_amg("aggregation", over, *A, rp, rep, ratio, g.range(3, 12), r % 2 == 1));
        if (r % 2 == 0) GUARD(op_amg("smoothed_aggregation", 1, *A, rp, rep, ratio, g.range(3, 12)));
        if (r % 4 == 1) GUARD(op_amg("aggregation", 3, *A, rp, rep, ratio, g.range(3, 12)));
    }
    for (int r = 0; r < (th ? 60 : 15); ++r) {
        int n = g.range(1, 24);
        auto A = vr::random_mmatrix(g, n, 0.2, 3, 1, true);
        GUARD(op_direct(g, *A, thin_part(g, n, g.below(4))));
    }
    // block value types; styles 0/1 spread the system over several non-empty ranks (slaves talk to the master)
    for (int r = 0; r < (th ? 40 : 10); ++r) {
        int nb = g.range(std::min(NP, 4), 12);
        auto S = vr::random_mmatrix(g, nb, 0.25, 2, 1, true);
        part rp = thin_part(g, nb, r % 4 == 3 ? g.below(4) : r % 2);
        if (r % 2) { GUARD(op_direct_block<3>(g, *S, rp)); } else { GUARD(op_direct_block<2>(g, *S, rp)); }
    }
}

static const char *RELAX[] = {"spai0", "damped_jacobi", "gauss_seidel", "ilu0", "chebyshev", "spai1", "iluk", "ilut", "ilup"};
static const char *SOLVERS[] = {"cg", "bicgstab", "gmres", "fgmres", "lgmres", "bicgstabl", "idrs", "richardson"};
static const char *COARS[] = {"smoothed_aggregation", "aggregation"};

static void mode_solve(uint64_t seed, bool th) {
    vr::rng g(seed + 91);
    int nsel = vr::env_int("VERIF_REPS", th ? 144 : 14);
    std::vector<cfg> all;
    for (auto c : COARS) for (auto r : RELAX) for (auto s : SOLVERS) all.push_back(cfg{c, r, s, false, 2});
    // quick: a seed-rotated subset that still visits every coarsening, relaxation and solver name
    for (int k = 0; k < nsel; ++k) {
        cfg c = th ? all[k % all.size()] : cfg{COARS[k % 2], RELAX[(k + seed) % 9], SOLVERS[(k * 3 + seed / 9) % 8], false, 2};
        c.repart = g.coin(0.5); c.ratio = g.range(2, 4);
        // replay / focus: VERIF_COARS, VERIF_RELAX, VERIF_SOLVER pin a component
        if (const char *e = getenv("VERIF_COARS")) c.coarsening = e;
        if (const char *e = getenv("VERIF_RELAX")) c.relax = e;
        if (const char *e = getenv("VERIF_SOLVER")) c.solver = e;
        bool grid = g.coin(0.6);
        int nx = g.range(8, 18), ny = g.range(6, 16);
        auto A = grid ? vr::poisson2d(nx, ny, g.range(1, 2), 1) : vr::random_mmatrix(g, g.range(60, 260), 0.03, 3, 1, true);
        int n = A->nrows;
        std::vector<double> f(n); for (auto &v : f) v = g.range(-5, 5); f[0] += 1;
        part rp = thin_part(g, n, g.below(4));
        // richardson is a stationary iteration: convergence within maxiter is not claimed for it
        bool expect = c.solver != "richardson";
        GUARD(op_solve(c, *A, rp, f, grid ? "poisson" : "spd_m", expect));
    }
    // thin strips: one grid line per rank (every row has off-rank neighbours), every run-time relaxation type with CG
    {
        int ny = NP > 1 ? NP : 4, nx = g.range(200, 280);      // long lines: the local block badly underestimates the spectrum
        auto A = vr::poisson2d(nx, ny);
        int n = A->nrows;
        part rp(NP + 1, 0); for (int r = 0; r <= NP; ++r) rp[r] = NP > 1 ? r * nx : (r ? n : 0);
        std::vector<double> f(n); for (auto &v : f) v = g.range(-5, 5); f[0] += 1;
        int k = 0;
        for (auto rl : RELAX) {
            cfg c{COARS[(k++ + seed) % 2], rl, "cg", false, 2};
            if (const char *e = getenv("VERIF_COARS")) c.coarsening = e;
            GUARD(op_solve(c, *A, rp, f, "thinstrip", true));
        }
    }
    for (int k = 0; k < (th ? 12 : 3); ++k) {
        cfg c{COARS[k % 2], k % 3 == 2 ? "damped_jacobi" : "spai0", k % 2 ? "bicgstab" : "cg", g.coin(0.4), g.range(2, 3)};
        auto A = g.coin() ? vr::poisson2d(g.range(8, 14), g.range(6, 12), g.range(1, 2), 1) : vr::random_mmatrix(g, g.range(60, 160), 0.04, 3, 1, true);
        int n = A->nrows;
        std::vector<double> f(n); for (auto &v : f) v = g.range(-5, 5); f[0] += 1;
        GUARD(op_rebuild(c, *A, thin_part(g, n, g.below(4)), f));
    }
    // block smoothed aggregation with non-commuting coupling blocks
    for (int k = 0; k < (th ? 10 : 4); ++k) {
        int nx = g.range(4, 8), ny = g.range(4, 8);
        GUARD(op_block_sa(g, nx, ny, thin_part(g, nx * ny, k % 2 ? 1 : 0)));
    }
    // block values, subdomain deflation, block preconditioner
    for (int k = 0; k < (th ? 6 : 2); ++k) {
        int nb = g.range(30, 90);
        auto S = vr::random_mmatrix(g, nb, 0.06, 3, 1, true);
        // 2x2 block system: kron(S, [[2,-1],[-1,2]]) is SPD
        std::vector<std::vector<std::pair<int,double>>> rows(2 * nb);
        const double Bk[2][2] = {{2, -1}, {-1, 2}};
        for (int i = 0; i < nb; ++i) for (ptrdiff_t j = S->ptr[i]; j < S->ptr[i + 1]; ++j) for (int a = 0; a < 2; ++a) for (int b = 0; b < 2; ++b)
            rows[2 * i + a].push_back(std::make_pair((int)(2 * S->col[j] + b), S->val[j] * Bk[a][b]));
        auto A = vr::from_rows(2 * nb, 2 * nb, rows);
        std::vector<double> f(2 * nb); for (auto &v : f) v = g.range(-5, 5); f[0] += 1;
        GUARD(op_solve_block(*A, thin_part(g, nb, g.below(4)), f, COARS[k % 2]));
    }
    for (int k = 0; k < (th ? 4 : 1); ++k) {
        auto A = vr::poisson2d(g.range(12, 20), g.range(10, 16));
        int n = A->nrows;
        std::vector<double> f(n); for (auto &v : f) v = g.range(-5, 5); f[0] += 1;
        part rp = thin_part(g, n, 0);          // balanced: the subdomain methods need non-empty subdomains
        for (int ndv = 1; ndv <= 3; ++ndv) GUARD(op_solve_sdd(*A, rp, f, ndv));
        GUARD(op_solve_sdd(*A, rp, f, 4 + k % 2));
        GUARD(op_solve_bp(*A, rp, f));
    }
}

// subdomain deflation with a different number of deflation vectors on every rank (all >= 1), strips
// and irregular partitions / couplings, so that the index of a neighbour in the receive list differs from its rank
static void mode_sdd(uint64_t seed, bool th) {
    vr::rng g(seed + 123);
    int reps = vr::env_int("VERIF_REPS", th ? 8 : 2);
    for (int r = 0; r < reps; ++r) {
        for (int kind = 0; kind < 3; ++kind) {
            std::shared_ptr<crsd> A = kind == 0 ? vr::poisson2d(g.range(40, 70), 1)                 // 1-D chain in strips
                                    : kind == 1 ? vr::poisson2d(g.range(8, 14), g.range(8, 12), g.range(1, 2), 1)
                                                : vr::random_mmatrix(g, g.range(60, 140), 0.04, 3, 1, true);   // long-range couplings: any rank may neighbour any other
            int n = A->nrows;
            std::vector<double> f(n); for (auto &v : f) v = g.range(-5, 5); f[0] += 1;
            const char *fam = kind == 0 ? "chain" : kind == 1 ? "poisson" : "spd_m";
            for (int style = 0; style < 2; ++style) {
                // style 0: balanced strips; style 1: irregular cuts (every subdomain keeps >= 4 rows)
                part rp = style == 0 ? thin_part(g, n, 0) : nonempty_part(g, n, 4);
                for (int pattern = 4; pattern <= 6; ++pattern) GUARD(op_solve_sdd(*A, rp, f, pattern, fam));
            }
        }
    }
}

int main(int argc, char **argv) {
    dv::world W(&argc, &argv);
    comm = W.comm; R = comm.rank; NP = comm.size;
    std::string mode = argc > 1 ? argv[1] : "aggr";
    uint64_t seed = vr::env_seed();
    bool th = vr::thorough();
    SHIM = vr::env_int("VERIF_SHIM", 0) != 0;
    if (mode == "aggr") mode_aggr(seed, th);
    else if (mode == "amg") mode_amg(seed, th);
    else if (mode == "solve") mode_solve(seed, th);
    else if (mode == "sdd") mode_sdd(seed, th);
    dv::barrier();
    if (R == 0) { vr::obj o; o.str("e", "End"); dv::emit(o.done()); }
    return 0;
}
