// Shared helpers of the MPI recorders (C11 record_dist, C12 record_dist_solve):
// output on rank 0 only (stdout of the other ranks and everything amgcl prints itself is
// discarded), gathering of per-rank integer payloads with PMPI_ calls (never seen by the
// PMPI shim), contiguous partitions with empty ranks, per-case message log.
#ifndef VERIF_DIST_COMMON_HPP
#define VERIF_DIST_COMMON_HPP
#include <vrec.hpp>
#include <mpi.h>
#include <cstdio>
#include <streambuf>
#include <amgcl/mpi/util.hpp>
#include <amgcl/mpi/distributed_matrix.hpp>

extern "C" {
void vshim_begin(void);
int *vshim_take(int *nev, int *outstanding, int *lost);
}

namespace dv {

typedef long long ll;
typedef vr::crsd crsd;

struct nullbuf : std::streambuf { int overflow(int c) override { return c; } };

static int  g_rank = 0, g_np = 1;
static FILE *g_out = 0;
static nullbuf g_null;

inline void emit(const std::string &line) {
    if (g_rank != 0 || !g_out) return;
    fputs(line.c_str(), g_out); fputc('\n', g_out); fflush(g_out);
}

inline void on_terminate() {
    const char *what = "unknown";
    try { auto e = std::current_exception(); if (e) std::rethrow_exception(e); }
    catch (const std::exception &e) { what = e.what(); } catch (...) {}
    fprintf(stderr, "rank %d: terminate: %s\n", g_rank, what);
    if (g_rank == 0) { vr::obj o; o.str("e", "Terminate").str("what", what); emit(o.done()); }
    PMPI_Abort(MPI_COMM_WORLD, 3);
    _exit(3);
}

// MPI_Init + output plumbing
struct world {
    amgcl::mpi::communicator comm;
    world(int *argc, char ***argv) {
        MPI_Init(argc, argv);
        comm = amgcl::mpi::communicator(MPI_COMM_WORLD);
        g_rank = comm.rank; g_np = comm.size;
        g_out = fdopen(dup(1), "w");
        std::cout.rdbuf(&g_null);          // amgcl prints (e.g. "Partitioning[MERGE]") go nowhere
        std::set_terminate(on_terminate);
    }
    ~world() { if (g_out) fflush(g_out); MPI_Finalize(); }
};

// ---------------------------------------------------------------- gathering (PMPI: unlogged)
inline std::vector<std::vector<ll>> gather(const std::vector<ll> &mine) {
    int n = (int)mine.size();
    std::vector<int> cnt(g_np), dsp(g_np + 1, 0);
    PMPI_Gather(&n, 1, MPI_INT, cnt.data(), 1, MPI_INT, 0, MPI_COMM_WORLD);
    std::vector<ll> all;
    if (g_rank == 0) { for (int i = 0; i < g_np; ++i) dsp[i + 1] = dsp[i] + cnt[i]; all.resize(dsp[g_np] + 1); }
    ll dummy = 0;
    PMPI_Gatherv(n ? (void*)mine.data() : (void*)&dummy, n, MPI_LONG_LONG_INT, all.data(), cnt.data(), dsp.data(), MPI_LONG_LONG_INT, 0, MPI_COMM_WORLD);
    std::vector<std::vector<ll>> res;
    if (g_rank == 0) { res.resize(g_np); for (int i = 0; i < g_np; ++i) res[i].assign(all.begin() + dsp[i], all.begin() + dsp[i + 1]); }
    return res;
}
inline void barrier() { PMPI_Barrier(MPI_COMM_WORLD); }
inline ll bcast(ll v) { PMPI_Bcast(&v, 1, MPI_LONG_LONG_INT, 0, MPI_COMM_WORLD); return v; }

// exact integer image of a double scaled by 2^shift; ok cleared when not representable
inline ll q(double v, int shift, bool &ok) { return vr::dyadic(v, shift, ok); }

// CRS -> integers: n, m, nnz, ptr[n+1], col[nnz], val[nnz]   (last element: exact flag)
template <class M>
void pack_crs(std::vector<ll> &p, const M &A, ll ncols_override = -1, int shift = 0, bool values = true) {
    bool ok = true;
    size_t n = A.nrows, nnz = n ? (size_t)A.ptr[n] : 0;
    p.push_back(n); p.push_back(ncols_override >= 0 ? ncols_override : (ll)A.ncols); p.push_back(nnz);
    for (size_t i = 0; i <= n; ++i) p.push_back(A.ptr[i]);
    for (size_t j = 0; j < nnz; ++j) p.push_back(A.col[j]);
    for (size_t j = 0; j < nnz; ++j) p.push_back(values && A.val ? q((double)A.val[j], shift, ok) : 1);
    p.push_back(ok ? 1 : 0);
}
// reads one packed CRS starting at p[pos]; returns JSON text, advances pos
inline std::string unpack_crs_json(const std::vector<ll> &p, size_t &pos, bool &exact) {
    ll n = p[pos++], m = p[pos++], nnz = p[pos++];
    vr::obj o; o.i("n", n).i("m", m);
    o.ints("ptr", p.begin() + pos, p.begin() + pos + n + 1); pos += n + 1;
    o.ints("col", p.begin() + pos, p.begin() + pos + nnz); pos += nnz;
    o.ints("val", p.begin() + pos, p.begin() + pos + nnz); pos += nnz;
    if (!p[pos++]) exact = false;
    return o.done();
}
inline std::string jlist(const std::vector<std::string> &v) {
    std::string s = "["; for (size_t i = 0; i < v.size(); ++i) { if (i) s += ","; s += v[i]; } return s + "]";
}
template <class V> std::string jints(const V &v) {
    std::ostringstream s; s << "["; bool f = true; for (auto x : v) { if (!f) s << ","; f = false; s << (ll)x; } s << "]"; return s.str();
}

// the parts of a distributed matrix (local() / remote(), remote columns global) of every rank
// -> {"loc":[crs...],"rem":[crs...]} on rank 0.  Remote parts get m = global column count.
template <class DM>
std::string gather_dm(const DM &A, ll glob_cols, bool &exact, int shift = 0) {
    std::vector<ll> p;
    pack_crs(p, *A.local(), -1, shift);
    pack_crs(p, *A.remote(), glob_cols, shift);
    auto all = gather(p);
    if (g_rank) return "";
    std::vector<std::string> loc, rem;
    for (auto &v : all) { size_t pos = 0; loc.push_back(unpack_crs_json(v, pos, exact)); rem.push_back(unpack_crs_json(v, pos, exact)); }
    return "{\"loc\":" + jlist(loc) + ",\"rem\":" + jlist(rem) + "}";
}
// per-rank integer vectors -> [[...],[...]]
inline std::string gather_lists(const std::vector<ll> &mine) {
    auto all = gather(mine);
    if (g_rank) return "";
    std::vector<std::string> v; for (auto &x : all) v.push_back(jints(x));
    return jlist(v);
}
// per-rank slices of a distributed vector -> one global list
inline std::string gather_vec(const std::vector<ll> &mine) {
    auto all = gather(mine);
    if (g_rank) return "";
    std::vector<ll> g; for (auto &x : all) g.insert(g.end(), x.begin(), x.end());
    return jints(g);
}
template <class V> std::vector<ll> ivec(const V &v, size_t n, bool &ok, int shift = 0) {
    std::vector<ll> r(n); for (size_t i = 0; i < n; ++i) r[i] = q((double)v[i], shift, ok); return r;
}
// "all ranks agree that everything was exact"
inline bool all_ok(bool ok) { int a = ok ? 1 : 0, b = 0; PMPI_Allreduce(&a, &b, 1, MPI_INT, MPI_MIN, MPI_COMM_WORLD); return b != 0; }

// ---------------------------------------------------------------- partitions
// contiguous partition of 0..n-1 over np ranks: boundaries b[0]=0 <= b[1] <= ... <= b[np]=n
typedef std::vector<int> part;
inline void all_parts_rec(int n, int np, part &cur, std::vector<part> &out) {
    if ((int)cur.size() == np) { part p = cur; p.push_back(n); out.push_back(p); return; }
    for (int b = cur.back(); b <= n; ++b) { cur.push_back(b); all_parts_rec(n, np, cur, out); cur.pop_back(); }
}
inline std::vector<part> all_parts(int n, int np) { std::vector<part> out; part cur(1, 0); all_parts_rec(n, np, cur, out); return out; }
// random partition: uniformly drawn cut points (empty ranks frequent), or nearly balanced
inline part random_part(vr::rng &g, int n, int np, int style) {
    part p(np + 1, 0); p[np] = n;
    if (style == 0) { for (int r = 1; r < np; ++r) p[r] = (int)((ll)n * r / np); }
    else if (style == 1) { std::vector<int> c; for (int r = 1; r < np; ++r) c.push_back(g.range(0, n)); std::sort(c.begin(), c.end()); for (int r = 1; r < np; ++r) p[r] = c[r - 1]; }
    else if (style == 2) { int k = g.range(0, np - 1); for (int r = 1; r < np; ++r) p[r] = r <= k ? 0 : n; }   // everything on rank k
    else { // a few active ranks in the middle, empty ones at both ends and in between
        std::vector<int> c; for (int r = 1; r < np; ++r) c.push_back(g.coin(0.5) ? g.range(0, n) : -1);
        int last = 0; for (int r = 1; r < np; ++r) { if (c[r - 1] >= last) last = c[r - 1]; p[r] = last; }
    }
    return p;
}

// rows [rb, re) of a global matrix as a strip with global column numbers
struct strip { ptrdiff_t n; std::vector<ptrdiff_t> ptr, col; std::vector<double> val; };
inline strip take_rows(const crsd &A, int rb, int re) {
    strip s; s.n = re - rb; s.ptr.push_back(0);
    for (int i = rb; i < re; ++i) { for (ptrdiff_t j = A.ptr[i]; j < A.ptr[i + 1]; ++j) { s.col.push_back(A.col[j]); s.val.push_back(A.val[j]); } s.ptr.push_back(s.col.size()); }
    if (s.col.empty()) { s.col.reserve(1); s.val.reserve(1); }
    return s;
}

// ---------------------------------------------------------------- message log of one case
// gathers the shim's per-rank logs: {"ev":[[[kind,peer,tag,bytes,comm,ref],...],...],"open":[..],"lost":[..]}
inline std::string take_msgs() {
    int n = 0, open = 0, lost = 0; int *e = vshim_take(&n, &open, &lost);
    std::vector<ll> p; p.push_back(open); p.push_back(lost); for (int i = 0; i < 6 * n; ++i) p.push_back(e[i]);
    auto all = gather(p);
    if (g_rank) return "";
    std::vector<std::string> evs; std::vector<ll> o, l;
    for (auto &v : all) {
        o.push_back(v[0]); l.push_back(v[1]);
        std::ostringstream s; s << "[";
        for (size_t k = 2; k + 5 < v.size() + 0; k += 6) { if (k > 2) s << ","; s << "[" << v[k] << "," << v[k+1] << "," << v[k+2] << "," << v[k+3] << "," << v[k+4] << "," << v[k+5] << "]"; }
        s << "]"; evs.push_back(s.str());
    }
    return "{\"ev\":" + jlist(evs) + ",\"open\":" + jints(o) + ",\"lost\":" + jints(l) + "}";
}

} // namespace dv
#endif
