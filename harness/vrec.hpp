// Common recorder utilities: ndjson output (integers only), exactness checks,
// pattern/matrix generators shared with the TLA+ modules (same encodings).
#ifndef VERIF_VREC_HPP
#define VERIF_VREC_HPP
#include <vector>
#include <string>
#include <sstream>
#include <iostream>
#include <cstdint>
#include <cstdlib>
#include <cstring>
#include <cmath>
#include <memory>
#include <complex>
#include <algorithm>
#include <stdexcept>
#include <unistd.h>
#include <signal.h>
#include <sys/time.h>
#include <amgcl/backend/builtin.hpp>

namespace vr {

typedef amgcl::backend::crs<double, ptrdiff_t, ptrdiff_t> crsd;

// ---------------------------------------------------------------- randomness
struct rng {
    uint64_t s;
    explicit rng(uint64_t seed) : s(seed * 0x9E3779B97F4A7C15ull + 0x1234567ull) {}
    uint64_t next() {
        uint64_t z = (s += 0x9E3779B97F4A7C15ull);
        z = (z ^ (z >> 30)) * 0xBF58476D1CE4E5B9ull;
        z = (z ^ (z >> 27)) * 0x94D049BB133111EBull;
        return z ^ (z >> 31);
    }
    int below(int n) { return n <= 0 ? 0 : (int)(next() % (uint64_t)n); }
    int range(int a, int b) { return a + below(b - a + 1); }   // inclusive
    double unit() { return (next() >> 11) * (1.0 / 9007199254740992.0); }
    bool coin(double p = 0.5) { return unit() < p; }
};

inline uint64_t env_seed() {
    const char *s = getenv("VERIF_SEED");
    return s && *s ? strtoull(s, 0, 10) : 0;
}
inline bool thorough() {
    const char *s = getenv("VERIF_TIER");
    return s && std::string(s) == "thorough";
}
inline int env_int(const char *name, int def) {
    const char *s = getenv(name);
    return s && *s ? atoi(s) : def;
}

// ---------------------------------------------------------------- hang detection
// "Does not return" is judged by the CPU time the process itself has consumed (ITIMER_PROF), so a loaded
// machine cannot turn a slow run into a hang; the wall-clock alarm is only a far-away fallback for a
// process that blocks without computing.  Either way the process dies of SIGALRM.
inline void cpu_alarm(int cpu_seconds) {
    signal(SIGPROF, [](int) { signal(SIGALRM, SIG_DFL); raise(SIGALRM); });
    struct itimerval it; it.it_interval.tv_sec = 0; it.it_interval.tv_usec = 0; it.it_value.tv_sec = cpu_seconds; it.it_value.tv_usec = 0;
    setitimer(ITIMER_PROF, &it, 0);
    alarm(60 * (unsigned)cpu_seconds);
}

// ---------------------------------------------------------------- JSON
inline bool small_int(double v) { return std::isfinite(v) && std::fabs(v) < 1073741824.0 && v == std::rint(v); }
// value * 2^k as exact integer (dyadic fixed point); ok=false if not representable
inline long long dyadic(double v, int k, bool &ok) {
    double s = std::ldexp(v, k);
    if (!small_int(s)) { ok = false; return 0; }
    return (long long)s;
}

struct obj {
    std::ostringstream s;
    bool first = true;
    bool exact = true;     // cleared when a value that had to be an integer was not
    obj() { s << "{"; }
    void key(const std::string &k) { if (!first) s << ","; first = false; s << "\"" << k << "\":"; }
    obj& i(const std::string &k, long long v) { key(k); s << v; return *this; }
    obj& b(const std::string &k, bool v) { key(k); s << (v ? "true" : "false"); return *this; }
    obj& str(const std::string &k, const std::string &v) {
        key(k); s << "\"";
        for (char c : v) { if (c == '"' || c == '\\') s << '\\' << c; else if ((unsigned char)c < 32) s << ' '; else s << c; }
        s << "\""; return *this; }
    obj& raw(const std::string &k, const std::string &v) { key(k); s << v; return *this; }
    obj& d(const std::string &k, double v) {   // double that must be an exact small integer
        key(k); if (!small_int(v)) { exact = false; s << 0; } else s << (long long)v; return *this; }
    template <class It> obj& ints(const std::string &k, It b, It e) {
        key(k); s << "["; bool f = true;
        for (; b != e; ++b) { if (!f) s << ","; f = false; s << (long long)(*b); }
        s << "]"; return *this; }
    template <class V> obj& ints(const std::string &k, const V &v) { return ints(k, std::begin(v), std::end(v)); }
    template <class It> obj& dbls(const std::string &k, It b, It e, int shift = 0) {
        key(k); s << "["; bool f = true;
        for (; b != e; ++b) { if (!f) s << ","; f = false; bool ok = true; long long q = dyadic((double)(*b), shift, ok);
            if (!ok) exact = false; s << q; }
        s << "]"; return *this; }
    template <class V> obj& dbls(const std::string &k, const V &v, int shift = 0) { return dbls(k, std::begin(v), std::end(v), shift); }
    std::string done() { return s.str() + "}"; }
};

inline void emit(const std::string &line) { std::cout << line << "\n" << std::flush; }

// CRS (any value type convertible to double) -> JSON object text; shift = dyadic fixed point
template <class M>
std::string crs_json(const M &A, bool &exact, int shift = 0) {
    obj o;
    o.i("n", A.nrows).i("m", A.ncols);
    o.ints("ptr", A.ptr, A.ptr + A.nrows + 1);
    size_t nnz = A.nrows ? (size_t)A.ptr[A.nrows] : 0;
    bool sane = A.ptr[0] == 0;
    for (size_t i = 0; i < A.nrows && sane; ++i) if (A.ptr[i+1] < A.ptr[i]) sane = false;
    if (!sane) nnz = 0;           // malformed pointers: do not walk the arrays
    o.ints("col", A.col, A.col + nnz);
    if (A.val) o.dbls("val", A.val, A.val + nnz, shift); else o.raw("val", "[]");
    if (!o.exact) exact = false;
    return o.done();
}

// 64-bit FNV digest of raw bytes, split into two 31-bit halves for TLC
struct digest {
    uint64_t h = 1469598103934665603ull;
    void bytes(const void *p, size_t n) { const unsigned char *c = (const unsigned char*)p; for (size_t i = 0; i < n; ++i) { h ^= c[i]; h *= 1099511628211ull; } }
    template <class T> void pod(const T &v) { bytes(&v, sizeof(T)); }
    template <class T> void vec(const T *p, size_t n) { bytes(p, n * sizeof(T)); }
    long long lo() const { return (long long)(h & 0x3fffffffull); }
    long long hi() const { return (long long)((h >> 32) & 0x3fffffffull); }
};

// ---------------------------------------------------------------- generators
// Same encoding as Patterns.tla: bit (i*c + j) of mask <=> entry (i,j) present,
// value PatVal(i,j,salt) in {-1,1,2}; rev lists each row in descending column order.
inline int pat_val(int i, int j, int salt) { int k = (i * 5 + j * 3 + salt) % 3; return k == 0 ? -1 : (k == 1 ? 1 : 2); }

inline std::shared_ptr<crsd> mk_pattern(int r, int c, unsigned long mask, int salt = 0, bool rev = false) {
    auto A = std::make_shared<crsd>();
    A->set_size(r, c, true);
    for (int i = 0; i < r; ++i) for (int j = 0; j < c; ++j) if ((mask >> (i * c + j)) & 1ul) ++A->ptr[i + 1];
    A->set_nonzeros(A->scan_row_sizes());
    for (int i = 0; i < r; ++i) {
        ptrdiff_t h = A->ptr[i];
        for (int jj = 0; jj < c; ++jj) {
            int j = rev ? c - 1 - jj : jj;
            if ((mask >> (i * c + j)) & 1ul) { A->col[h] = j; A->val[h] = pat_val(i, j, salt); ++h; }
        }
    }
    return A;
}

// rows built from a list of (col,val)
inline std::shared_ptr<crsd> from_rows(int n, int m, const std::vector<std::vector<std::pair<int,double>>> &rows) {
    auto A = std::make_shared<crsd>();
    A->set_size(n, m, true);
    for (int i = 0; i < n; ++i) A->ptr[i + 1] = rows[i].size();
    A->set_nonzeros(A->scan_row_sizes());
    for (int i = 0; i < n; ++i) { ptrdiff_t h = A->ptr[i]; for (auto &e : rows[i]) { A->col[h] = e.first; A->val[h] = e.second; ++h; } }
    return A;
}

// random sparse integer matrix, entries in [-vmax, vmax] \ {0}; sorted rows unless shuffle
inline std::shared_ptr<crsd> random_int(rng &g, int n, int m, double density, int vmax = 3, bool shuffle = false, bool diag = false) {
    std::vector<std::vector<std::pair<int,double>>> rows(n);
    for (int i = 0; i < n; ++i) {
        for (int j = 0; j < m; ++j) {
            bool on = (diag && i == j) || g.coin(density);
            if (!on) continue;
            int v = g.range(1, vmax); if (g.coin()) v = -v;
            rows[i].push_back(std::make_pair(j, (double)v));
        }
        if (shuffle) for (size_t k = rows[i].size(); k > 1; --k) std::swap(rows[i][k - 1], rows[i][g.below((int)k)]);
    }
    return from_rows(n, m, rows);
}

// symmetric M-matrix on a random connected-ish graph, integer weights 1..wmax,
// diagonal = sum |offdiag| + shift (shift >= 0; shift = 0 gives zero row sums)
inline std::shared_ptr<crsd> random_mmatrix(rng &g, int n, double density, int wmax = 3, int shift = 1, bool chain = true) {
    std::vector<std::vector<double>> W(n, std::vector<double>(n, 0.0));
    for (int i = 0; i < n; ++i) for (int j = i + 1; j < n; ++j)
        if ((chain && j == i + 1) || g.coin(density)) { double w = g.range(1, wmax); W[i][j] = W[j][i] = w; }
    std::vector<std::vector<std::pair<int,double>>> rows(n);
    for (int i = 0; i < n; ++i) {
        double s = 0; for (int j = 0; j < n; ++j) s += W[i][j];
        for (int j = 0; j < n; ++j) {
            if (j == i) rows[i].push_back(std::make_pair(j, s + shift));
            else if (W[i][j] != 0) rows[i].push_back(std::make_pair(j, -W[i][j]));
        }
    }
    return from_rows(n, n, rows);
}

// 2-D 5-point Poisson on nx x ny grid with integer entries (4 / -1), optional anisotropy (integer eps)
inline std::shared_ptr<crsd> poisson2d(int nx, int ny, int ax = 1, int ay = 1) {
    int n = nx * ny;
    std::vector<std::vector<std::pair<int,double>>> rows(n);
    for (int j = 0; j < ny; ++j) for (int i = 0; i < nx; ++i) {
        int k = j * nx + i;
        if (j > 0) rows[k].push_back(std::make_pair(k - nx, -(double)ay));
        if (i > 0) rows[k].push_back(std::make_pair(k - 1, -(double)ax));
        rows[k].push_back(std::make_pair(k, 2.0 * ax + 2.0 * ay));
        if (i + 1 < nx) rows[k].push_back(std::make_pair(k + 1, -(double)ax));
        if (j + 1 < ny) rows[k].push_back(std::make_pair(k + nx, -(double)ay));
    }
    return from_rows(n, n, rows);
}

// a crash of the real code must not truncate the trace silently
inline void install_terminate() {
    std::set_terminate([]() {
        const char *what = "unknown";
        try { auto e = std::current_exception(); if (e) std::rethrow_exception(e); }
        catch (const std::exception &e) { what = e.what(); } catch (...) {}
        obj o; o.str("e", "Terminate").str("what", what);
        emit(o.done());
        _exit(3);
    });
}

} // namespace vr
#endif
