#!/usr/bin/env python3
"""Self-test of the C11 binding (not registered in MANIFEST): applies the property-breaking edits M1..M8 and the
benign refactor B1 to a scratch copy of /repo/amgcl one at a time and runs `REPO=<scratch> bin/check C11`.
usage: harness/selftest_c11.py [name ...]   (expected: rc=1 for M*, rc=0 for B*)"""
import os, shutil, subprocess, sys, time
SCR = "/tmp/mutC11"
MUTS = {
 "M1-sendlist-position": ("amgcl/mpi/distributed_matrix.hpp",
    "            for(ptrdiff_t &c : send.col) c -= loc_beg;\n",
    "            for(ptrdiff_t &c : send.col) c -= loc_beg;\n            if (send.col.size() > 1) std::swap(send.col[0], send.col[1]);\n"),
 "M2-ghost-before-wait": ("amgcl/mpi/distributed_matrix.hpp",
    "            // Compute remote part of the product.\n            C->finish_exchange();\n\n            if (C->needs_remote())\n                backend::spmv(alpha, *A_rem, *C->x_rem, one, y);\n",
    "            // Compute remote part of the product.\n            if (C->needs_remote())\n                backend::spmv(alpha, *A_rem, *C->x_rem, one, y);\n            C->finish_exchange();\n"),
 "M3-renumber-off-by-one": ("amgcl/mpi/distributed_matrix.hpp",
    "                col[i] = std::get<1>(idx.at(col[i]));\n",
    "                col[i] = (std::get<1>(idx.at(col[i])) + 1) % recv.count();\n"),
 "M4-transpose-drops-remote": ("amgcl/mpi/distributed_matrix.hpp",
    "    return std::make_shared< distributed_matrix<Backend> >(\n            comm, backend::transpose(A_loc), T_ptr);\n",
    "    auto E_ptr = std::make_shared<build_matrix>(); E_ptr->set_size(nrows, 0, true); E_ptr->set_nonzeros(0);\n    return std::make_shared< distributed_matrix<Backend> >(\n            comm, backend::transpose(A_loc), E_ptr);\n"),
 "M5-product-neighbour-accumulate": ("amgcl/mpi/distributed_matrix.hpp",
    "                        } else {\n                            C_loc.val[loc_marker[cb]] += va * vb;\n                        }\n                    } else {\n                        ptrdiff_t cb = rem_idx[gb];\n",
    "                        } else {\n                            C_loc.val[loc_marker[cb]] = va * vb;\n                        }\n                    } else {\n                        ptrdiff_t cb = rem_idx[gb];\n"),
 "M6-inner-product-local": ("amgcl/mpi/inner_product.hpp",
    "        coef_type sum = comm.reduce(MPI_SUM, backend::inner_product(x, y));\n",
    "        coef_type sum = backend::inner_product(x, y);\n"),
 "M7-remote-rows-skip-remote-part": ("amgcl/mpi/distributed_matrix.hpp",
    "                m.col[head] = B_rem.col[j];\n\n                if (need_values) m.val[head] = B_rem.val[j];\n",
    "                m.col[head] = B_rem.col[j];\n\n                if (need_values) m.val[head] = 2 * B_rem.val[j];\n"),
 "M8-gershgorin-revert": ("amgcl/mpi/distributed_matrix.hpp",
    "        radius = comm.reduce(MPI_MAX, radius);\n", "\n"),
 "B1-benign-wait-order": ("amgcl/mpi/distributed_matrix.hpp",
    "            MPI_Waitall(recv.req.size(), recv.req.data(), MPI_STATUSES_IGNORE);\n            MPI_Waitall(send.req.size(), send.req.data(), MPI_STATUSES_IGNORE);\n            AMGCL_TOC(\"MPI Wait\");\n\n            if (!recv.val.empty())\n",
    "            MPI_Waitall(send.req.size(), send.req.data(), MPI_STATUSES_IGNORE);\n            MPI_Waitall(recv.req.size(), recv.req.data(), MPI_STATUSES_IGNORE);\n            AMGCL_TOC(\"MPI Wait\");\n\n            if (!recv.val.empty())\n"),
}
which = sys.argv[1:] or list(MUTS)
for name in which:
    f, old, new = MUTS[name]
    shutil.rmtree(SCR, ignore_errors=True)
    os.makedirs(SCR)
    shutil.copytree("/repo/amgcl", SCR + "/amgcl")
    p = os.path.join(SCR, f)
    s = open(p).read()
    if s.count(old) < 1:
        print(name, "PATTERN NOT FOUND", flush=True); continue
    open(p, "w").write(s.replace(old, new, 1))
    t = time.time()
    r = subprocess.run(["bin/check", "C11", "--tier", "quick"], cwd="/verif", env=dict(os.environ, REPO=SCR),
                       stdout=subprocess.PIPE, stderr=subprocess.STDOUT)
    out = r.stdout.decode()
    lines = [l for l in out.splitlines() if l.startswith(("VIOLATION", "OK", "ERROR", "KNOWN", "SPEC-DRIFT"))]
    kinds = sorted(set(l.split("(")[1].split(";")[0] if "(" in l else l for l in lines))
    print("%s rc=%d %.0fs :: %s" % (name, r.returncode, time.time() - t, " | ".join(kinds)[:900]), flush=True)
shutil.rmtree(SCR, ignore_errors=True)
