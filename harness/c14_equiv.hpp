// C14 - compile-time vs run-time composition: shared problem generators, the covering set
// of (solver, coarsening, relaxation) triples, and ONE configuration routine that writes each
// non-default parameter value BOTH into the typed params struct (direct member assignment)
// and into a property tree (the key a user of the run-time interface would write).
#ifndef C14_EQUIV_HPP
#define C14_EQUIV_HPP
#include <boost/property_tree/ptree.hpp>
#include "vrec.hpp"
#include <amgcl/backend/builtin.hpp>
#include <amgcl/amg.hpp>
#include <amgcl/make_solver.hpp>
#include <amgcl/solver/cg.hpp>
#include <amgcl/solver/bicgstab.hpp>
#include <amgcl/solver/bicgstabl.hpp>
#include <amgcl/solver/gmres.hpp>
#include <amgcl/solver/lgmres.hpp>
#include <amgcl/solver/fgmres.hpp>
#include <amgcl/solver/idrs.hpp>
#include <amgcl/solver/richardson.hpp>
#include <amgcl/solver/preonly.hpp>
#include <amgcl/coarsening/ruge_stuben.hpp>
#include <amgcl/coarsening/aggregation.hpp>
#include <amgcl/coarsening/smoothed_aggregation.hpp>
#include <amgcl/coarsening/smoothed_aggr_emin.hpp>
#include <amgcl/relaxation/gauss_seidel.hpp>
#include <amgcl/relaxation/ilu0.hpp>
#include <amgcl/relaxation/iluk.hpp>
#include <amgcl/relaxation/ilup.hpp>
#include <amgcl/relaxation/ilut.hpp>
#include <amgcl/relaxation/damped_jacobi.hpp>
#include <amgcl/relaxation/spai0.hpp>
#include <amgcl/relaxation/spai1.hpp>
#include <amgcl/relaxation/chebyshev.hpp>

namespace c14e {
typedef amgcl::backend::builtin<double> B;
typedef boost::property_tree::ptree ptree;

// Covering set: all 36 (coarsening, relaxation) pairs, all 36 (solver, coarsening) pairs,
// every solver with 4 relaxations.  X(index, solver, coarsening, relaxation)
#define C14_TRIPLES(X) \
    X( 0, cg,         ruge_stuben,          gauss_seidel)  X( 1, bicgstab,   ruge_stuben,          ilu0)          \
    X( 2, bicgstabl,  ruge_stuben,          iluk)          X( 3, gmres,      ruge_stuben,          ilup)          \
    X( 4, lgmres,     ruge_stuben,          ilut)          X( 5, fgmres,     ruge_stuben,          damped_jacobi) \
    X( 6, idrs,       ruge_stuben,          spai0)         X( 7, richardson, ruge_stuben,          spai1)         \
    X( 8, preonly,    ruge_stuben,          chebyshev)                                                            \
    X( 9, cg,         aggregation,          ilu0)          X(10, bicgstab,   aggregation,          iluk)          \
    X(11, bicgstabl,  aggregation,          ilup)          X(12, gmres,      aggregation,          ilut)          \
    X(13, lgmres,     aggregation,          damped_jacobi) X(14, fgmres,     aggregation,          spai0)         \
    X(15, idrs,       aggregation,          spai1)         X(16, richardson, aggregation,          chebyshev)     \
    X(17, preonly,    aggregation,          gauss_seidel)                                                         \
    X(18, cg,         smoothed_aggregation, iluk)          X(19, bicgstab,   smoothed_aggregation, ilup)          \
    X(20, bicgstabl,  smoothed_aggregation, ilut)          X(21, gmres,      smoothed_aggregation, damped_jacobi) \
    X(22, lgmres,     smoothed_aggregation, spai0)         X(23, fgmres,     smoothed_aggregation, spai1)         \
    X(24, idrs,       smoothed_aggregation, chebyshev)     X(25, richardson, smoothed_aggregation, gauss_seidel)  \
    X(26, preonly,    smoothed_aggregation, ilu0)                                                                 \
    X(27, cg,         smoothed_aggr_emin,   ilup)          X(28, bicgstab,   smoothed_aggr_emin,   ilut)          \
    X(29, bicgstabl,  smoothed_aggr_emin,   damped_jacobi) X(30, gmres,      smoothed_aggr_emin,   spai0)         \
    X(31, lgmres,     smoothed_aggr_emin,   spai1)         X(32, fgmres,     smoothed_aggr_emin,   chebyshev)     \
    X(33, idrs,       smoothed_aggr_emin,   gauss_seidel)  X(34, richardson, smoothed_aggr_emin,   ilu0)          \
    X(35, preonly,    smoothed_aggr_emin,   iluk)
const int NTRIPLES = 36;

// ------------------------------------------------------------------ problems
struct problem { std::shared_ptr<vr::crsd> A, A2; std::vector<double> rhs; };
// the matrix handed to amg::rebuild(): same pattern, diagonal entries + 1
inline std::shared_ptr<vr::crsd> perturbed(const vr::crsd &A) {
    auto P = std::make_shared<vr::crsd>(A);
    for (ptrdiff_t i = 0; i < (ptrdiff_t)P->nrows; ++i)
        for (ptrdiff_t j = P->ptr[i]; j < P->ptr[i + 1]; ++j) if (P->col[j] == i) P->val[j] += 1.0;
    return P;
}
inline int nproblems() { return vr::thorough() ? 4 : 2; }
inline problem make_problem(int id) {
    vr::rng g(vr::env_seed() * 1000003ull + 17 * id + 5);
    problem p;
    if (id % 2 == 0) {
        int nx = 11 + g.below(5), ny = 9 + g.below(5);
        p.A = vr::poisson2d(nx, ny, 1 + g.below(2), 1 + g.below(3));
    } else {
        // structurally symmetric, numerically non-symmetric, strictly row diagonally dominant
        int n = 120 + g.below(60);
        std::vector<std::vector<std::pair<int,double>>> rows(n);
        std::vector<std::vector<double>> W(n, std::vector<double>(n, 0.0));
        for (int i = 0; i < n; ++i) for (int j = i + 1; j < n; ++j)
            if (j == i + 1 || j == i + 9 || g.coin(0.01)) { W[i][j] = g.range(1, 3); W[j][i] = W[i][j] + g.below(2); }
        for (int i = 0; i < n; ++i) {
            double s = 0; for (int j = 0; j < n; ++j) s += W[i][j];
            for (int j = 0; j < n; ++j) {
                if (j == i) rows[i].push_back(std::make_pair(j, s + 1));
                else if (W[i][j] != 0) rows[i].push_back(std::make_pair(j, -W[i][j]));
            }
        }
        p.A = vr::from_rows(n, n, rows);
    }
    p.rhs.resize(p.A->nrows);
    for (auto &v : p.rhs) v = g.range(-4, 4);
    p.A2 = perturbed(*p.A);
    return p;
}

// ------------------------------------------------------------------ configuration
// set_<member>(params, tree, path, value, 0): assigns params.<member> and puts path+<member>
// when the member exists; otherwise does nothing (so typed struct and tree always agree)
#define C14_SETTER(name)                                                                         \
    template <class P, class V> auto set_##name(P &p, ptree &t, const std::string &path, const V &v, int) \
        -> decltype((void)(p.name = v)) { p.name = v; t.put(path + #name, v); }                  \
    template <class P, class V> void set_##name(P &, ptree &, const std::string &, const V &, long) {}
C14_SETTER(tol) C14_SETTER(maxiter) C14_SETTER(M) C14_SETTER(K) C14_SETTER(L) C14_SETTER(s) C14_SETTER(damping)
C14_SETTER(omega) C14_SETTER(pside) C14_SETTER(delta) C14_SETTER(convex) C14_SETTER(smoothing) C14_SETTER(check_after)
C14_SETTER(always_reset) C14_SETTER(replacement)
C14_SETTER(coarse_enough) C14_SETTER(direct_coarse) C14_SETTER(max_levels) C14_SETTER(npre) C14_SETTER(npost)
C14_SETTER(ncycle) C14_SETTER(pre_cycles)
C14_SETTER(eps_strong) C14_SETTER(do_trunc) C14_SETTER(eps_trunc) C14_SETTER(over_interp) C14_SETTER(relax)
C14_SETTER(estimate_spectral_radius) C14_SETTER(power_iters)
C14_SETTER(degree) C14_SETTER(higher) C14_SETTER(lower) C14_SETTER(scale) C14_SETTER(k) C14_SETTER(p) C14_SETTER(tau)
C14_SETTER(serial) C14_SETTER(iters)
#define C14_SUB(name)                                                                            \
    template <class P, class F> auto with_##name(P &p, const std::string &path, F f, int)       \
        -> decltype((void)p.name) { f(p.name, path + #name + "."); }                             \
    template <class P, class F> void with_##name(P &, const std::string &, F, long) {}
C14_SUB(aggr) C14_SUB(solve)

inline int nconfigs() { return 2; }
// cfg 0: defaults except a small coarse_enough (several levels); cfg 1: non-default values everywhere
template <class Prm> void configure(Prm &prm, ptree &t, int cfg) {
    set_coarse_enough(prm.precond, t, "precond.", cfg == 0 ? 24u : 10u, 0);
    if (cfg == 0) return;
    auto &S = prm.solver; auto &P = prm.precond; auto &C = prm.precond.coarsening; auto &R = prm.precond.relax;
    set_tol(S, t, "solver.", 1.0 / 1099511627776.0, 0);  // 2^-40
    set_maxiter(S, t, "solver.", 37, 0);
    set_M(S, t, "solver.", 11, 0); set_K(S, t, "solver.", 2, 0); set_L(S, t, "solver.", 3, 0); set_s(S, t, "solver.", 5, 0);
    set_damping(S, t, "solver.", 0.875, 0); set_omega(S, t, "solver.", 0.625, 0);
    set_pside(S, t, "solver.", amgcl::preconditioner::side::left, 0);
    set_delta(S, t, "solver.", 0.125, 0); set_convex(S, t, "solver.", false, 0);
    set_smoothing(S, t, "solver.", true, 0); set_check_after(S, t, "solver.", true, 0);
    set_always_reset(S, t, "solver.", false, 0); set_replacement(S, t, "solver.", true, 0);
    set_direct_coarse(P, t, "precond.", false, 0); set_max_levels(P, t, "precond.", 4u, 0);
    set_npre(P, t, "precond.", 2u, 0); set_npost(P, t, "precond.", 3u, 0);
    set_ncycle(P, t, "precond.", 2u, 0); set_pre_cycles(P, t, "precond.", 2u, 0);
    set_eps_strong(C, t, "precond.coarsening.", 0.125f, 0); set_do_trunc(C, t, "precond.coarsening.", true, 0);
    set_eps_trunc(C, t, "precond.coarsening.", 0.25f, 0); set_over_interp(C, t, "precond.coarsening.", 1.25f, 0);
    set_relax(C, t, "precond.coarsening.", 0.75f, 0);
    set_estimate_spectral_radius(C, t, "precond.coarsening.", true, 0); set_power_iters(C, t, "precond.coarsening.", 3, 0);
    with_aggr(C, "precond.coarsening.", [&](auto &a, const std::string &path) { set_eps_strong(a, t, path, 0.0625f, 0); }, 0);
    set_damping(R, t, "precond.relax.", 0.625, 0); set_degree(R, t, "precond.relax.", 3u, 0);
    set_higher(R, t, "precond.relax.", 0.875f, 0); set_lower(R, t, "precond.relax.", 0.0625f, 0);
    set_scale(R, t, "precond.relax.", true, 0); set_power_iters(R, t, "precond.relax.", 4, 0);
    set_k(R, t, "precond.relax.", 2, 0); set_p(R, t, "precond.relax.", 3.0, 0); set_tau(R, t, "precond.relax.", 0.001953125, 0);
    set_serial(R, t, "precond.relax.", true, 0);
    with_solve(R, "precond.relax.", [&](auto &a, const std::string &path) { set_serial(a, t, path, true, 0); set_iters(a, t, path, 3u, 0); }, 0);
}

// ------------------------------------------------------------------ results
struct result {
    bool threw = false; std::string exc;
    long long it = -1, bytes = -1; vr::digest res, x, px, txt;
    // the history  build -> rebuild(A2) -> solve(A2) / apply  on the same object
    bool rthrew = false; long long rit = -1; vr::digest rres, rx, rpx;
    void json(vr::obj &o, const std::string &sfx) const {
        o.b("threw" + sfx, threw).str("exc" + sfx, exc).i("it" + sfx, it)
         .i("res_lo" + sfx, res.lo()).i("res_hi" + sfx, res.hi())
         .i("x_lo" + sfx, x.lo()).i("x_hi" + sfx, x.hi()).i("px_lo" + sfx, px.lo()).i("px_hi" + sfx, px.hi())
         .i("bytes" + sfx, bytes).i("txt_lo" + sfx, txt.lo()).i("txt_hi" + sfx, txt.hi())
         .b("rthrew" + sfx, rthrew).i("rit" + sfx, rit).i("rres_lo" + sfx, rres.lo()).i("rres_hi" + sfx, rres.hi())
         .i("rx_lo" + sfx, rx.lo()).i("rx_hi" + sfx, rx.hi()).i("rpx_lo" + sfx, rpx.lo()).i("rpx_hi" + sfx, rpx.hi());
    }
    // the report text (operator<<) and the memory footprint (bytes()) go through the wrappers' switches too
    template <class Obj> void describe(const Obj &o) {
        std::ostringstream os; os << o; std::string t = os.str(); txt.bytes(t.data(), t.size());
        bytes = (long long)(amgcl::backend::bytes(o) % 1000000007ull);
    }
};

// solve A x = rhs with `Solver` built from `prm`; also one bare application of the preconditioner
template <class Solver, class Prm> result run_solver(const problem &pb, const Prm &prm) {
    result r;
    try {
        Solver solve(*pb.A, prm);
        std::vector<double> x(pb.rhs.size(), 0.0);
        size_t it; double res;
        std::tie(it, res) = solve(pb.rhs, x);
        r.it = (long long)it; r.res.pod(res); r.x.vec(x.data(), x.size());
        // apply() must not depend on what the output vector holds: two applications into vectors
        // pre-filled with different junk (the second one into the reused, now non-zero, vector)
        amgcl::backend::numa_vector<double> f(pb.rhs), y(pb.rhs.size());
        for (size_t i = 0; i < pb.rhs.size(); ++i) y[i] = 1.0 + 0.25 * (double)(i % 7);
        solve.precond().apply(f, y);
        r.px.vec(y.data(), y.size());
        solve.precond().apply(f, y);
        r.px.vec(y.data(), y.size());
        r.describe(solve);
        try {
            solve.precond().rebuild(*pb.A2);
            std::vector<double> x2(pb.rhs.size(), 0.0);
            std::tie(it, res) = solve(*pb.A2, pb.rhs, x2);
            r.rit = (long long)it; r.rres.pod(res); r.rx.vec(x2.data(), x2.size());
            amgcl::backend::numa_vector<double> y2(pb.rhs.size());
            solve.precond().apply(f, y2);
            r.rpx.vec(y2.data(), y2.size());
        } catch (const std::exception &e) { r.rthrew = true; r.exc = std::string("rebuild: ") + e.what(); }
    } catch (const std::exception &e) { r.threw = true; r.exc = e.what(); }
    return r;
}

} // namespace c14e
#endif
