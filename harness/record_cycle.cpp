// C02 recorder.
//  mode ops: streams every backend primitive (hook H2) and smoother / coarse-solve event (H3)
//            of amg construction and of two apply() calls with different right-hand sides and
//            garbage in x in between; register names come from the friend accessor.
//  mode obs: extracts the cycle operator B column by column (n <= ~200) and measures
//            linearity, history independence, symmetry, positivity, rho(I - BA) with Eigen,
//            and B(4A) = B(A)/4 bitwise.
// Judged by spec/C02Trace.tla.
#include <opstream.hpp>
#include <amgcl/amg.hpp>
#include <amgcl/adapter/crs_tuple.hpp>
#include <amgcl/coarsening/runtime.hpp>
#include <omp.h>
#include <amgcl/relaxation/runtime.hpp>
#include <amgcl/value_type/static_matrix.hpp>
#include <amgcl/adapter/block_matrix.hpp>
#include <amgcl/coarsening/aggregation.hpp>
#include <amgcl/coarsening/smoothed_aggregation.hpp>
#include <amgcl/relaxation/spai0.hpp>
#include <amgcl/relaxation/ilu0.hpp>
#include <amgcl/relaxation/gauss_seidel.hpp>
#include <amgcl/relaxation/damped_jacobi.hpp>
#include <boost/property_tree/ptree.hpp>
#include <Eigen/Dense>
#include <Eigen/Eigenvalues>

using vr::crsd;
typedef amgcl::backend::builtin<double> B;
typedef amgcl::amg<B, amgcl::runtime::coarsening::wrapper, amgcl::runtime::relaxation::wrapper> AMG;
typedef std::vector<double> vec;

namespace amgcl { namespace verif {
struct access {
    static int nlevels(const AMG &a) { return a.levels.size(); }
    template <class A> static int nlevels_of(const A &a) { return a.levels.size(); }
    template <class A> static bool direct_of(const A &a) { return (bool)a.levels.back().solve; }
    static bool direct(const AMG &a) { return (bool)a.levels.back().solve; }
    // debugging aid (VERIF_DEBUG=1): which level matrices / transfer operators hold non-finite values
    static void dump_nonfinite(const AMG &a) {
        int l = 0;
        for (const auto &L : a.levels) { ++l;
            auto bad = [](const crsd *M) { long k = 0; if (M) for (ptrdiff_t q = 0; q < (ptrdiff_t)M->nnz; ++q) if (!std::isfinite(M->val[q])) ++k; return k; };
            std::cerr << "level " << l << " n=" << (L.A ? L.A->nrows : 0) << " nnz=" << (L.A ? L.A->nnz : 0) << " nonfinite A/P/R: " << bad(L.A.get()) << "/" << bad(L.P.get()) << "/" << bad(L.R.get()) << "\n";
            if (L.A && L.A->nrows <= 8) { for (size_t i = 0; i < L.A->nrows; ++i) { for (ptrdiff_t q = L.A->ptr[i]; q < L.A->ptr[i+1]; ++q) std::cerr << " (" << i << "," << L.A->col[q] << ")=" << L.A->val[q]; std::cerr << "\n"; } }
        }
    }
    static void names(const AMG &a, vr::opstream &s) {
        std::vector<int> f, u, t, A, P, R; int l = 0;
        for (const auto &L : a.levels) {
            s.level_of[&L] = ++l;
            f.push_back(L.f ? s.id(verif::id(*L.f)) : 0); u.push_back(L.u ? s.id(verif::id(*L.u)) : 0); t.push_back(L.t ? s.id(verif::id(*L.t)) : 0);
            A.push_back(L.A ? s.id(L.A.get()) : 0); P.push_back(L.P ? s.id(L.P.get()) : 0); R.push_back(L.R ? s.id(L.R.get()) : 0);
        }
        vr::obj o; o.str("e", "names").ints("f", f).ints("u", u).ints("t", t).ints("A", A).ints("P", P).ints("R", R);
        vr::emit(o.done());
    }
};
}}
using amgcl::verif::access;
template <class A> static int access_levels(const A &a) { return access::nlevels_of(a); }
template <class A> static bool access_direct(const A &a) { return access::direct_of(a); }

static vr::opstream S;

struct cfg { std::string coarsening, relax; int ncycle, npre, npost, pre_cycles; unsigned ce, ml; bool dc; double over_interp;
    int aggr_bs = 1;              // coarsening.aggr.block_size: the scalar system seen as aggr_bs unknowns per node (pointwise aggregation)
    bool shared_unsorted = false; // hierarchy built by the non-copying constructor from a matrix whose rows are stored diagonal-first
    std::vector<std::pair<std::string, std::string>> rprm;      // non-default smoother parameters (relax.<name> = value)
    std::vector<std::pair<std::string, std::string>> cprm;      // non-default coarsening parameters (coarsening.<name> = value)
    std::string rprm_text() const { std::string t; for (auto &kv : rprm) t += (t.empty() ? "" : ",") + kv.first + "=" + kv.second; return t; } };

static boost::property_tree::ptree ptree_of(const cfg &c) {
    boost::property_tree::ptree p;
    p.put("coarsening.type", c.coarsening); p.put("relax.type", c.relax);
    p.put("ncycle", c.ncycle); p.put("npre", c.npre); p.put("npost", c.npost); p.put("pre_cycles", c.pre_cycles);
    p.put("coarse_enough", c.ce); p.put("max_levels", c.ml); p.put("direct_coarse", c.dc);
    if (c.coarsening == "aggregation" && c.over_interp > 0) p.put("coarsening.over_interp", c.over_interp);
    for (auto &kv : c.rprm) p.put("relax." + kv.first, kv.second);
    if (c.coarsening == "smoothed_aggregation") for (auto &kv : c.cprm) p.put("coarsening." + kv.first, kv.second);
    if (c.aggr_bs > 1 && c.coarsening != "ruge_stuben") p.put("coarsening.aggr.block_size", c.aggr_bs);
    return p;
}
static bool symmetric_smoother(const std::string &r) { return r == "damped_jacobi" || r == "spai0" || r == "gauss_seidel" || r == "ilu0" || r == "iluk" || r == "ilup" || r == "chebyshev"; }
static void put_cfg(vr::obj &o, const cfg &c, int levels, bool direct) {
    o.str("coarsening", c.coarsening).str("relax", c.relax).i("ncycle", c.ncycle).i("npre", c.npre).i("npost", c.npost).i("pre_cycles", c.pre_cycles)
     .i("levels", levels).b("direct", direct).b("oi_gt1", c.coarsening == "aggregation" && c.over_interp > 1.0).b("symsm", symmetric_smoother(c.relax)).str("rprm", c.rprm_text() + (c.cprm.empty() || c.coarsening != "smoothed_aggregation" ? "" : ";esr,power_iters=" + c.cprm[1].second)).i("nt", omp_get_max_threads()).i("aggr_bs", c.aggr_bs).b("shared_unsorted", c.shared_unsorted);
}

static const char *COARSENINGS[] = {"aggregation", "smoothed_aggregation", "smoothed_aggr_emin", "ruge_stuben"};
static const char *RELAX[] = {"damped_jacobi", "spai0", "gauss_seidel", "ilu0", "iluk", "ilup", "chebyshev", "spai1", "ilut"};

static cfg random_cfg(vr::rng &g, int n) {
    cfg c; c.coarsening = COARSENINGS[g.below(4)]; c.relax = RELAX[g.below(9)];
    c.ncycle = g.range(1, 2); c.npre = g.range(1, 3); c.npost = g.coin(0.7) ? c.npre : g.range(1, 3); c.pre_cycles = g.coin(0.8) ? 1 : 2;
    c.ce = g.coin(0.7) ? g.range(2, std::max(3, n / 8)) : g.range(n / 4, n); c.ml = g.coin(0.8) ? 100 : g.range(1, 3); c.dc = g.coin(0.75);
    c.over_interp = g.coin() ? 1.5 : (g.coin() ? 1.0 : 2.0);
    return c;
}
// non-default smoother parameters for half of the cases (the cycle must stay a fixed linear SPD contraction for
// every admissible value: damping <= 1 for the splitting smoothers, any degree / scaling choice for Chebyshev)
static void random_rprm(vr::rng &g, cfg &c) {
    c.rprm.clear();
    if (g.coin()) return;
    static const char *DAMP[] = {"0.5", "0.72", "0.9", "1"};
    if (c.relax == "chebyshev") { c.rprm.push_back({"scale", g.coin(0.7) ? "true" : "false"}); c.rprm.push_back({"degree", std::to_string(g.range(2, 6))}); }
    else if (c.relax == "damped_jacobi") c.rprm.push_back({"damping", DAMP[g.below(3)]});
    else if (c.relax == "ilu0") c.rprm.push_back({"damping", DAMP[1 + g.below(3)]});
    else if (c.relax == "iluk") { c.rprm.push_back({"k", std::to_string(g.range(1, 3))}); if (g.coin()) c.rprm.push_back({"damping", DAMP[1 + g.below(3)]}); }
    else if (c.relax == "ilup") { c.rprm.push_back({"k", std::to_string(g.range(1, 2))}); }
    else if (c.relax == "ilut") { c.rprm.push_back({"p", g.coin() ? "1.5" : "3"}); c.rprm.push_back({"tau", g.coin() ? "1e-3" : "1e-1"}); }
}

// ------------------------------------------------------------------ mode ops
static void ops_case(std::shared_ptr<crsd> A, const cfg &c, vr::rng &g) {
    int n = A->nrows;
    S.reset();
    { vr::obj o; o.str("e", "Reset"); vr::emit(o.done()); }
    S.on = true; amgcl::verif::current() = &S;
    std::unique_ptr<AMG> amg;
    try { amg.reset(new AMG(*A, ptree_of(c))); }
    catch (const std::exception &e) { S.on = false; vr::obj o; o.str("e", "Exception").str("what", e.what()); vr::emit(o.done()); return; }
    S.on = false;
    access::names(*amg, S);
    vec rhs1(n), rhs2(n), x(n);
    for (int i = 0; i < n; ++i) { rhs1[i] = g.range(-4, 4); rhs2[i] = g.range(-4, 4); x[i] = 1e300; }
    for (int call = 1; call <= 2; ++call) {
        vec &rhs = call == 1 ? rhs1 : rhs2;
        for (double &v : x) v = (call == 1 ? 1e300 : -7.5e200);       // garbage the caller left in x
        { vr::obj o; o.str("e", "begin"); int ins[1] = {S.id(amgcl::verif::id(rhs))}; int cl[1] = {S.id(amgcl::verif::id(x))}; o.ints("ins", ins, ins + 1).ints("clob", cl, cl + 1); vr::emit(o.done()); }
        S.on = true; amg->apply(rhs, x); S.on = false;
        vr::obj o; o.str("e", "end"); put_cfg(o, c, access::nlevels(*amg), access::direct(*amg)); int xr[1] = {S.id(amgcl::verif::id(x))}; o.ints("x", xr, xr + 1);
        bool finite = true; for (double v : x) if (!std::isfinite(v) || std::fabs(v) > 1e100) finite = false; o.b("finite", finite);
        vr::emit(o.done());
    }
    amgcl::verif::current() = 0;
}


// weighted graph Laplacian + non-negative shift (strictly positive on some rows): symmetric,
// irreducibly diagonally dominant M-matrix; weights log-uniform in [1, contrast]
static double fam_contrast(vr::rng &g) { double c[] = {1.0, 10.0, 1000.0}; return c[g.below(3)]; }
static std::shared_ptr<crsd> from_weights(vr::rng &g, int n, const std::vector<std::vector<std::pair<int,double>>> &W) {
    std::vector<std::vector<std::pair<int,double>>> rows(n);
    for (int i = 0; i < n; ++i) {
        double s = 0; for (auto &e : W[i]) s += e.second;
        double shift = (i % 5 == 0 || W[i].empty()) ? (0.05 + g.unit()) * std::max(s, 1.0) * 0.1 : 0.0;
        bool dia = false;
        for (auto &e : W[i]) { if (!dia && e.first > i) { rows[i].push_back(std::make_pair(i, s + shift)); dia = true; } rows[i].push_back(std::make_pair(e.first, -e.second)); }
        if (!dia) rows[i].push_back(std::make_pair(i, s + shift));
    }
    return vr::from_rows(n, n, rows);
}
static std::shared_ptr<crsd> real_graph(vr::rng &g, int n, double dens, double contrast) {
    std::vector<std::vector<double>> w(n, std::vector<double>(n, 0.0));
    for (int i = 0; i < n; ++i) for (int j = i + 1; j < n; ++j) if (j == i + 1 || g.coin(dens)) w[i][j] = w[j][i] = std::exp(g.unit() * std::log(contrast));
    std::vector<std::vector<std::pair<int,double>>> W(n);
    for (int i = 0; i < n; ++i) for (int j = 0; j < n; ++j) if (w[i][j] != 0) W[i].push_back(std::make_pair(j, w[i][j]));
    return from_weights(g, n, W);
}
static std::shared_ptr<crsd> real_grid(vr::rng &g, int nx, int ny, double contrast) {
    int n = nx * ny; std::vector<std::vector<double>> w(n, std::vector<double>(n, 0.0));
    for (int j = 0; j < ny; ++j) for (int i = 0; i < nx; ++i) { int k = j * nx + i;
        if (i + 1 < nx) w[k][k+1] = w[k+1][k] = std::exp(g.unit() * std::log(contrast));
        if (j + 1 < ny) w[k][k+nx] = w[k+nx][k] = std::exp(g.unit() * std::log(contrast)); }
    std::vector<std::vector<std::pair<int,double>>> W(n);
    for (int i = 0; i < n; ++i) for (int j = 0; j < n; ++j) if (w[i][j] != 0) W[i].push_back(std::make_pair(j, w[i][j]));
    return from_weights(g, n, W);
}

// ------------------------------------------------------------------ mode obs
static long long mdec(double v) { if (!(v > 0)) return -20000; if (!std::isfinite(v)) return 20000; return std::max(-20000LL, std::min(20000LL, (long long)std::llround(1000 * std::log10(v)))); }

static void obs_case(std::shared_ptr<crsd> A, const cfg &c, vr::rng &g, bool mmat, const char *fam) {
    int n = A->nrows;
    std::unique_ptr<AMG> amg, amg4;
    // power-of-two rescaling of the matrix, moderate and extreme (a badly scaled but valid SPD M-matrix)
    static const double SCALES[] = {4.0, 9.313225746154785e-10 /* 2^-30 */, 1073741824.0 /* 2^30 */, 0.25};
    const double sf = SCALES[g.below(4)];
    std::shared_ptr<crsd> Au, Au4;      // kept alive: the non-copying constructor uses the caller's matrix as it is
    try {
        auto A4 = std::make_shared<crsd>(*A); amgcl::backend::scale(*A4, sf);
        if (c.shared_unsorted) {
            auto diag_first = [](std::shared_ptr<crsd> M) { auto U = std::make_shared<crsd>(*M);
                for (size_t i = 0; i < U->nrows; ++i) for (ptrdiff_t q = U->ptr[i]; q < U->ptr[i+1]; ++q) if (U->col[q] == (ptrdiff_t)i) {
                    for (ptrdiff_t t = q; t > U->ptr[i]; --t) { std::swap(U->col[t], U->col[t-1]); std::swap(U->val[t], U->val[t-1]); } break; }
                return U; };
            Au = diag_first(A); Au4 = diag_first(A4);
            amg.reset(new AMG(Au, ptree_of(c))); amg4.reset(new AMG(Au4, ptree_of(c)));
        } else { amg.reset(new AMG(*A, ptree_of(c))); amg4.reset(new AMG(*A4, ptree_of(c))); }
    }
    catch (const std::exception &e) { vr::obj o; o.str("e", "Exception").str("what", e.what()).str("coarsening", c.coarsening).str("relax", c.relax); vr::emit(o.done()); return; }
    Eigen::MatrixXd Bm(n, n), Am = Eigen::MatrixXd::Zero(n, n);
    for (int i = 0; i < n; ++i) for (ptrdiff_t p = A->ptr[i]; p < A->ptr[i+1]; ++p) Am(i, A->col[p]) += A->val[p];
    vec e(n, 0.0), x(n);
    if (vr::env_int("VERIF_DEBUG", 0)) { vec one(n, 1.0), y(n); amg->apply(one, y); bool fin = true; for (double v : y) if (!std::isfinite(v)) fin = false;
        if (!fin) { std::cerr << "non-finite: " << c.coarsening << " " << c.relax << " bs=" << c.aggr_bs << " ce=" << c.ce << " ml=" << c.ml << " dc=" << c.dc << " n=" << n << "\n"; access::dump_nonfinite(*amg);
            static int dumped = 0; if (!dumped++) { FILE *f = fopen("nonfinite-matrix.txt", "w"); fprintf(f, "%d\n", n); for (int i = 0; i < n; ++i) for (ptrdiff_t q = A->ptr[i]; q < A->ptr[i+1]; ++q) fprintf(f, "%d %d %.17g\n", i, (int)A->col[q], A->val[q]); fclose(f); } } }
    bool scaled = true;
    for (int j = 0; j < n; ++j) {
        e[j] = 1.0; amg->apply(e, x); for (int i = 0; i < n; ++i) Bm(i, j) = x[i];
        if (j % 7 == 0) { vec y(n); amg4->apply(e, y); for (int i = 0; i < n; ++i) if (y[i] != x[i] / sf) scaled = false; }
        e[j] = 0.0;
    }
    // linearity and history independence
    vec f(n), h(n), fg(n), xf(n), xh(n), xfg(n), xf2(n);
    double a = 1.5 + g.unit(), b = -0.75 - g.unit();
    for (int i = 0; i < n; ++i) { f[i] = g.unit() - 0.5; h[i] = g.unit() - 0.5; fg[i] = a * f[i] + b * h[i]; }
    amg->apply(f, xf); amg->apply(h, xh); amg->apply(fg, xfg);
    for (double &v : xf2) v = std::nan(""); amg->apply(f, xf2);
    bool hist = std::memcmp(xf.data(), xf2.data(), n * sizeof(double)) == 0;
    double lin = 0, sc = 0; for (int i = 0; i < n; ++i) { lin = std::max(lin, std::fabs(xfg[i] - a * xf[i] - b * xh[i])); sc = std::max(sc, std::fabs(xfg[i])); }
    // also linear w.r.t. the extracted matrix: B f = sum_j f_j B e_j
    Eigen::VectorXd fv(n); for (int i = 0; i < n; ++i) fv[i] = f[i];
    Eigen::VectorXd bf = Bm * fv; double lin2 = 0; for (int i = 0; i < n; ++i) lin2 = std::max(lin2, std::fabs(bf[i] - xf[i]));
    double bn = Bm.norm();
    double sym = (Bm - Bm.transpose()).norm() / bn;
    Eigen::SelfAdjointEigenSolver<Eigen::MatrixXd> es(0.5 * (Bm + Bm.transpose()), Eigen::EigenvaluesOnly);
    double lmin = es.eigenvalues().minCoeff(), lmax = es.eigenvalues().maxCoeff();
    Eigen::MatrixXd E = Eigen::MatrixXd::Identity(n, n) - Bm * Am;
    double rho = Eigen::EigenSolver<Eigen::MatrixXd>(E, false).eigenvalues().cwiseAbs().maxCoeff();
    vr::obj o; o.str("k", "cycobs").str("fam", fam).i("n", n); put_cfg(o, c, access::nlevels(*amg), access::direct(*amg));
    o.b("finite", Bm.allFinite()).b("mmat", mmat).b("adjR", c.coarsening != "smoothed_aggr_emin").b("ilut", c.relax == "ilut");
    o.i("lin", mdec(std::max(lin, lin2) / std::max(sc, 1e-300))).b("hist", hist).b("scaled", scaled);
    o.i("sym", mdec(sym)).b("posdef", lmin > 0).i("lminrel", mdec(lmin / lmax)).i("rho", (long long)std::min(1e9, std::floor(rho * 1048576.0)));
    vr::emit(o.done());
}


// ------------------------------------------------------------------ block value types (2x2)
typedef amgcl::static_matrix<double, 2, 2> BV;
typedef amgcl::static_matrix<double, 2, 1> BR;
typedef amgcl::backend::builtin<BV> BB;

// block view of a scalar SPD diagonally dominant M-matrix of even size: consecutive unknowns form a
// 2x2 block (general, non-commuting blocks); every second case additionally couples the two unknowns
// of a node, A (x) I_2 + I (x) [[c,-c],[-c,c]] (commuting blocks)
static std::shared_ptr<crsd> block_system(const crsd &A, double c, bool kron) {
    int n = A.nrows;
    if (!kron) {
        int m = n - n % 2; std::vector<std::vector<std::pair<int,double>>> rows(m);
        for (int i = 0; i < m; ++i) { double lost = 0; for (ptrdiff_t p = A.ptr[i]; p < A.ptr[i+1]; ++p) { if (A.col[p] < m) rows[i].push_back({(int)A.col[p], A.val[p]}); else lost += A.val[p]; } (void)lost; }
        // block_matrix needs structurally complete 2x2 blocks only where entries exist; missing entries are zero-filled
        return vr::from_rows(m, m, rows);
    }
    std::vector<std::vector<std::pair<int,double>>> rows(2 * n);
    for (int i = 0; i < n; ++i) for (ptrdiff_t p = A.ptr[i]; p < A.ptr[i+1]; ++p) { int j = A.col[p]; double v = A.val[p];
        if (j == i) { rows[2*i].push_back({2*i, v + c}); rows[2*i].push_back({2*i+1, -c}); rows[2*i+1].push_back({2*i, -c}); rows[2*i+1].push_back({2*i+1, v + c}); }
        else { rows[2*i].push_back({2*j, v}); rows[2*i+1].push_back({2*j+1, v}); } }
    for (auto &r : rows) std::sort(r.begin(), r.end());
    return vr::from_rows(2 * n, 2 * n, rows);
}

template <template <class> class C, template <class> class R>
static void obs_block(const char *cname, const char *rname, std::shared_ptr<crsd> As, vr::rng &g, const cfg &c, bool kron) {
    typedef amgcl::amg<BB, C, R> BAMG;
    auto K = block_system(*As, 0.3 + g.unit(), kron);
    int n = K->nrows, nb = n / 2;
    typename BAMG::params prm; prm.ncycle = c.ncycle; prm.npre = c.npre; prm.npost = c.npost; prm.pre_cycles = c.pre_cycles; prm.coarse_enough = c.ce; prm.direct_coarse = c.dc;
    std::unique_ptr<BAMG> amg, amg4;
    try {
        std::vector<ptrdiff_t> ptr(K->ptr, K->ptr + n + 1), col(K->col, K->col + K->nnz); std::vector<double> val(K->val, K->val + K->nnz), val4(val);
        for (double &v : val4) v *= 4.0;
        amg.reset(new BAMG(amgcl::adapter::block_matrix<BV>(std::tie(n, ptr, col, val)), prm));
        amg4.reset(new BAMG(amgcl::adapter::block_matrix<BV>(std::tie(n, ptr, col, val4)), prm));
    } catch (const std::exception &e) { vr::obj o; o.str("e", "Exception").str("what", e.what()).str("coarsening", cname).str("relax", rname); vr::emit(o.done()); return; }
    auto apply = [&](const BAMG &a, const vec &f) { std::vector<BR> F(nb), X(nb); for (int i = 0; i < nb; ++i) { F[i](0) = f[2*i]; F[i](1) = f[2*i+1]; X[i](0) = std::nan(""); X[i](1) = 1e300; }
        a.apply(F, X); vec x(n); for (int i = 0; i < nb; ++i) { x[2*i] = X[i](0); x[2*i+1] = X[i](1); } return x; };
    Eigen::MatrixXd Bm(n, n), Am = Eigen::MatrixXd::Zero(n, n);
    for (int i = 0; i < n; ++i) for (ptrdiff_t p = K->ptr[i]; p < K->ptr[i+1]; ++p) Am(i, K->col[p]) += K->val[p];
    vec e(n, 0.0); bool scaled = true;
    for (int j = 0; j < n; ++j) { e[j] = 1.0; vec x = apply(*amg, e); for (int i = 0; i < n; ++i) Bm(i, j) = x[i];
        if (j % 5 == 0) { vec y = apply(*amg4, e); for (int i = 0; i < n; ++i) if (y[i] != 0.25 * x[i]) scaled = false; } e[j] = 0.0; }
    vec f(n), h(n), fg(n); double a = 1.5 + g.unit(), b = -0.75 - g.unit();
    for (int i = 0; i < n; ++i) { f[i] = g.unit() - 0.5; h[i] = g.unit() - 0.5; fg[i] = a * f[i] + b * h[i]; }
    vec xf = apply(*amg, f), xh = apply(*amg, h), xfg = apply(*amg, fg), xf2 = apply(*amg, f);
    bool hist = std::memcmp(xf.data(), xf2.data(), n * sizeof(double)) == 0;
    double lin = 0, sc = 0; for (int i = 0; i < n; ++i) { lin = std::max(lin, std::fabs(xfg[i] - a * xf[i] - b * xh[i])); sc = std::max(sc, std::fabs(xfg[i])); }
    double sym = (Bm - Bm.transpose()).norm() / Bm.norm();
    Eigen::SelfAdjointEigenSolver<Eigen::MatrixXd> es(0.5 * (Bm + Bm.transpose()), Eigen::EigenvaluesOnly);
    double lmin = es.eigenvalues().minCoeff(), lmax = es.eigenvalues().maxCoeff();
    double rho = Eigen::EigenSolver<Eigen::MatrixXd>(Eigen::MatrixXd::Identity(n, n) - Bm * Am, false).eigenvalues().cwiseAbs().maxCoeff();
    cfg cc = c; cc.coarsening = cname; cc.relax = rname; cc.over_interp = 2.0;
    vr::obj o; o.str("k", "cycobs").str("fam", "block2").i("n", n); put_cfg(o, cc, access_levels(*amg), access_direct(*amg));
    o.b("finite", Bm.allFinite()).b("mmat", true).b("adjR", true).b("ilut", false);
    o.i("lin", mdec(lin / std::max(sc, 1e-300))).b("hist", hist).b("scaled", scaled);
    o.i("sym", mdec(sym)).b("posdef", lmin > 0).i("lminrel", mdec(lmin / lmax)).i("rho", (long long)std::min(1e9, std::floor(rho * 1048576.0)));
    vr::emit(o.done());
}

int main(int argc, char **argv) {
    vr::install_terminate();
    std::string mode = argc > 1 ? argv[1] : "ops";
    vr::rng g(vr::env_seed() + 202);
    bool th = vr::thorough();
    if (mode == "ops") {
        int reps = vr::env_int("VERIF_REPS", th ? 400 : 110);
        for (int r = 0; r < reps; ++r) {
            auto A = r % 3 == 0 ? vr::poisson2d(g.range(4, 9), g.range(3, 8)) : vr::random_mmatrix(g, g.range(20, 70), 0.08, 3, 1);
            cfg c = random_cfg(g, A->nrows);
            if (r < 36) { c.coarsening = COARSENINGS[r % 4]; c.relax = RELAX[r % 9]; }    // every coarsening and relaxation at least once
            if (r >= 36 || r % 2) random_rprm(g, c);
            if (r % 10 == 9) c.pre_cycles = 0;
            ops_case(A, c, g);
        }
    } else {
        int reps = vr::env_int("VERIF_REPS", th ? 600 : 120);
        for (int r = 0; r < reps; ++r) {
            int fam = r % 3;
            // SPD, irreducibly diagonally dominant M-matrices with real (non-dyadic) weights, contrast <= 1e3
            // VERIF_SMALL: the many-thread pass (every parallel region costs a wake-up of all threads) uses smaller systems
            static const bool small = vr::env_int("VERIF_SMALL", 0) != 0;
            std::shared_ptr<crsd> A = small ? (fam == 0 ? real_grid(g, g.range(6, 8), g.range(5, 7), fam_contrast(g)) : real_graph(g, g.range(36, 60), 0.07, fam_contrast(g)))
                                    : fam == 0 ? real_grid(g, g.range(6, 14), g.range(5, 12), fam_contrast(g))
                                    : real_graph(g, fam == 1 ? g.range(60, 180) : g.range(40, 120), fam == 1 ? 0.03 : 0.05, fam_contrast(g));
            cfg c = random_cfg(g, A->nrows);
            if (r < 36) { c.coarsening = COARSENINGS[r % 4]; c.relax = RELAX[r % 9]; }
            if (r >= 36 || r % 2) random_rprm(g, c);
            // smoothed aggregation with an estimated spectral radius (Gershgorin / 5 power iterations) in the damping of the
            // prolongation smoother; decided by r alone so that the random stream of the other cases is unchanged
            if (c.coarsening == "smoothed_aggregation" && r % 2 == 1) c.cprm = {{"estimate_spectral_radius", "true"}, {"power_iters", (r / 4) % 2 && omp_get_max_threads() <= 2 ? "5" : "0"}};   // (the power method sums in critical-section order: exact scaling only without >2 threads)
            if (A->nrows % 2 == 0 && c.coarsening != "ruge_stuben" && g.coin(0.3)) c.aggr_bs = 2;
            // rows stored diagonal-first, handed over by shared_ptr: only for components that accept unsorted rows
            if ((c.coarsening == "aggregation" || c.coarsening == "smoothed_aggregation") &&
                (c.relax == "gauss_seidel" || c.relax == "damped_jacobi" || c.relax == "spai0" || c.relax == "chebyshev") && g.coin(0.5)) c.shared_unsorted = true;
            // the many-thread pass: every third case is the level-scheduled Gauss-Seidel sweep on a finest matrix whose rows
            // are stored diagonal-first (non-copying constructor), the schedule must not depend on the order inside a row
            if (small && r % 3 == 0) { c.relax = "gauss_seidel"; c.coarsening = (r / 3) % 2 ? "aggregation" : "smoothed_aggregation"; c.rprm.clear(); c.aggr_bs = 1; c.shared_unsorted = true; }
            c.ce = g.range(3, 12); if (g.coin(0.3)) c.ml = g.range(2, 3);
            obs_case(A, c, g, true, fam == 0 ? "grid" : "graph");
        }
        // block-valued hierarchies (2x2 static_matrix): typed compositions
        int breps = vr::env_int("VERIF_BREPS", th ? 40 : 12);
        for (int r = 0; r < breps; ++r) {
            auto As = r % 2 ? real_graph(g, g.range(25, 60), 0.06, 10.0) : real_grid(g, g.range(5, 8), g.range(4, 7), 10.0);
            cfg c = random_cfg(g, As->nrows); c.ce = g.range(2, 6); c.ncycle = 1 + r % 2; c.npost = c.npre;
            switch (r % 4) {
                case 0: obs_block<amgcl::coarsening::smoothed_aggregation, amgcl::relaxation::spai0>("smoothed_aggregation", "spai0", As, g, c, (r / 4) % 3 == 2); break;
                case 1: obs_block<amgcl::coarsening::smoothed_aggregation, amgcl::relaxation::ilu0>("smoothed_aggregation", "ilu0", As, g, c, (r / 4) % 3 == 2); break;
                case 2: c.ncycle = 2; obs_block<amgcl::coarsening::aggregation, amgcl::relaxation::damped_jacobi>("aggregation", "damped_jacobi", As, g, c, (r / 4) % 3 == 2); break;
                case 3: obs_block<amgcl::coarsening::smoothed_aggregation, amgcl::relaxation::gauss_seidel>("smoothed_aggregation", "gauss_seidel", As, g, c, (r / 4) % 3 == 2); break;
            }
        }
    }
    vr::obj o; o.str("e", "End"); vr::emit(o.done());
    return 0;
}
